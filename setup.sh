#!/bin/bash
# Builds every checker binary from files on disk only (offline) and warms the Go build cache.
set -u
cd /verif || exit 1
export GOFLAGS=-mod=mod GOPROXY=off GOSUMDB=off GOTOOLCHAIN=local
mkdir -p bin evidence evidence/replay
rc=0
(cd harness && go build -tags verif -o /verif/bin/vrun ./cmd/vrun) || rc=1
(cd harness && go build -tags verif -o /verif/bin/vreplay ./cmd/vreplay) || rc=1
(cd harness && go build -tags verif -race -o /verif/bin/vrace ./cmd/vreplay) || rc=1
if [ -d harness/cmd/vpure ]; then (cd harness && go build -tags verif -o /verif/bin/vpure ./cmd/vpure) || rc=1; fi
(cd harness-intertx && go build -tags verif -o /verif/bin/vintertx ./cmd/vintertx) || rc=1
exit $rc
