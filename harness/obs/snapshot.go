// Package obs is the observation layer: read-only snapshots of every ORM table, every bank balance
// and supply and the raw KV pairs of every store, taken through harness-owned handles.
package obs

import (
	"crypto/sha256"
	"encoding/hex"
	"fmt"
	"math/big"
	"sort"
	"strings"
	"time"

	"google.golang.org/protobuf/proto"
	"google.golang.org/protobuf/reflect/protoreflect"

	ormv1 "cosmossdk.io/api/cosmos/orm/v1"
	"github.com/cosmos/cosmos-sdk/orm/model/ormdb"
	sdk "github.com/cosmos/cosmos-sdk/types"
	banktypes "github.com/cosmos/cosmos-sdk/x/bank/types"

	dataapi "github.com/regen-network/regen-ledger/api/v2/regen/data/v1"
	basketapi "github.com/regen-network/regen-ledger/api/v2/regen/ecocredit/basket/v1"
	marketapi "github.com/regen-network/regen-ledger/api/v2/regen/ecocredit/marketplace/v1"
	baseapi "github.com/regen-network/regen-ledger/api/v2/regen/ecocredit/v1"
	"github.com/regen-network/regen-ledger/types/v2/ormstore"
	"github.com/regen-network/regen-ledger/x/data/v3"
	"github.com/regen-network/regen-ledger/x/ecocredit/v3"

	"verifharness/chain"
)

// Row is one ORM row.
type Row struct {
	PK  string
	Msg proto.Message
	Enc string // deterministic encoding, for equality
}

type Table struct {
	Name string
	Rows []Row // primary key order
	idx  map[string]int
}

func (t *Table) Get(pk string) (Row, bool) {
	if t == nil {
		return Row{}, false
	}
	i, ok := t.idx[pk]
	if !ok {
		return Row{}, false
	}
	return t.Rows[i], true
}

type tableDesc struct {
	name string
	msg  proto.Message
	db   ormdb.ModuleDB
}

// Observer owns the read handles.
type Observer struct {
	app    *chain.App
	tables []tableDesc
}

func tablesOf(fd protoreflect.FileDescriptor, db ormdb.ModuleDB, newMsg func(protoreflect.MessageDescriptor) proto.Message) []tableDesc {
	var out []tableDesc
	ms := fd.Messages()
	for i := 0; i < ms.Len(); i++ {
		md := ms.Get(i)
		opts := md.Options()
		if opts == nil {
			continue
		}
		isTable := proto.HasExtension(opts, ormv1.E_Table) || proto.HasExtension(opts, ormv1.E_Singleton)
		if !isTable {
			continue
		}
		out = append(out, tableDesc{name: string(md.FullName()), msg: newMsg(md), db: db})
	}
	return out
}

func NewObserver(app *chain.App) *Observer {
	o := &Observer{app: app}
	edb, err := ormstore.NewStoreKeyDB(&ecocredit.ModuleSchema, app.Keys[ecocredit.ModuleName], ormdb.ModuleDBOptions{})
	if err != nil {
		panic(err)
	}
	ddb, err := ormstore.NewStoreKeyDB(&data.ModuleSchema, app.Keys[data.ModuleName], ormdb.ModuleDBOptions{})
	if err != nil {
		panic(err)
	}
	mk := func(msgs ...proto.Message) func(protoreflect.MessageDescriptor) proto.Message {
		return func(md protoreflect.MessageDescriptor) proto.Message {
			for _, m := range msgs {
				if m.ProtoReflect().Descriptor().FullName() == md.FullName() {
					return m
				}
			}
			panic("no go type for " + md.FullName())
		}
	}
	o.tables = append(o.tables, tablesOf(baseapi.File_regen_ecocredit_v1_state_proto, edb, mk(
		&baseapi.CreditType{}, &baseapi.Class{}, &baseapi.ClassIssuer{}, &baseapi.Project{}, &baseapi.Batch{},
		&baseapi.ClassSequence{}, &baseapi.ProjectSequence{}, &baseapi.BatchSequence{}, &baseapi.BatchBalance{},
		&baseapi.BatchSupply{}, &baseapi.OriginTxIndex{}, &baseapi.BatchContract{}, &baseapi.ClassCreatorAllowlist{},
		&baseapi.AllowedClassCreator{}, &baseapi.ClassFee{}, &baseapi.AllowedBridgeChain{}, &baseapi.ProjectEnrollment{},
		&baseapi.ProjectFee{}))...)
	o.tables = append(o.tables, tablesOf(basketapi.File_regen_ecocredit_basket_v1_state_proto, edb, mk(
		&basketapi.Basket{}, &basketapi.BasketClass{}, &basketapi.BasketBalance{}, &basketapi.BasketFee{}))...)
	o.tables = append(o.tables, tablesOf(marketapi.File_regen_ecocredit_marketplace_v1_state_proto, edb, mk(
		&marketapi.SellOrder{}, &marketapi.AllowedDenom{}, &marketapi.Market{}, &marketapi.FeeParams{}))...)
	o.tables = append(o.tables, tablesOf(dataapi.File_regen_data_v1_state_proto, ddb, mk(
		&dataapi.DataID{}, &dataapi.DataAnchor{}, &dataapi.DataAttestor{}, &dataapi.Resolver{}, &dataapi.DataResolver{}))...)
	return o
}

// TableNames lists all observed ORM tables (full proto names).
func (o *Observer) TableNames() []string {
	var n []string
	for _, t := range o.tables {
		n = append(n, t.name)
	}
	return n
}

func fmtVal(v protoreflect.Value) string {
	switch x := v.Interface().(type) {
	case []byte:
		return hex.EncodeToString(x)
	case string:
		return fmt.Sprintf("%q", x)
	case protoreflect.Message:
		bz, _ := proto.MarshalOptions{Deterministic: true}.Marshal(x.Interface())
		return hex.EncodeToString(bz)
	default:
		return fmt.Sprint(x)
	}
}

// Snapshot is a plain-value picture of the chain state at one instant.
type Snapshot struct {
	Height int64
	Time   time.Time
	Tables map[string]*Table
	Bank   map[string]map[string]*big.Int // address (bech32) → denom → amount
	Supply map[string]*big.Int
	Raw    map[string][][2][]byte
	RawSum map[string]string

	view *View
}

type Opts struct {
	Raw bool
}

func (o *Observer) Snap(opts Opts) *Snapshot {
	a := o.app
	ctx := a.Ctx()
	gctx := sdk.WrapSDKContext(ctx)
	s := &Snapshot{Height: a.Header.Height, Time: a.Header.Time, Tables: map[string]*Table{},
		Bank: map[string]map[string]*big.Int{}, Supply: map[string]*big.Int{}}
	mo := proto.MarshalOptions{Deterministic: true}
	for _, td := range o.tables {
		tb := td.db.GetTable(td.msg)
		if tb == nil {
			panic("no table " + td.name)
		}
		t := &Table{Name: td.name, idx: map[string]int{}}
		it, err := tb.List(gctx, nil)
		if err != nil {
			panic(err)
		}
		for it.Next() {
			_, pk, err := it.Keys()
			if err != nil {
				panic(err)
			}
			m, err := it.GetMessage()
			if err != nil {
				panic(err)
			}
			parts := make([]string, len(pk))
			for i, v := range pk {
				parts[i] = fmtVal(v)
			}
			bz, err := mo.Marshal(m)
			if err != nil {
				panic(err)
			}
			r := Row{PK: strings.Join(parts, "|"), Msg: m, Enc: string(bz)}
			t.idx[r.PK] = len(t.Rows)
			t.Rows = append(t.Rows, r)
		}
		it.Close()
		s.Tables[td.name] = t
	}
	a.BK.IterateAllBalances(ctx, func(addr sdk.AccAddress, c sdk.Coin) bool {
		k := addr.String()
		m := s.Bank[k]
		if m == nil {
			m = map[string]*big.Int{}
			s.Bank[k] = m
		}
		m[c.Denom] = new(big.Int).Set(c.Amount.BigInt())
		return false
	})
	a.BK.IterateTotalSupply(ctx, func(c sdk.Coin) bool {
		s.Supply[c.Denom] = new(big.Int).Set(c.Amount.BigInt())
		return false
	})
	if opts.Raw {
		s.Raw = a.RawKV()
		s.RawSum = map[string]string{}
		for n, l := range s.Raw {
			h := sha256.New()
			for _, kv := range l {
				fmt.Fprintf(h, "%d:", len(kv[0]))
				h.Write(kv[0])
				fmt.Fprintf(h, "%d:", len(kv[1]))
				h.Write(kv[1])
			}
			s.RawSum[n] = hex.EncodeToString(h.Sum(nil))
		}
	}
	return s
}

var _ = banktypes.ModuleName

// BankOf returns the balance (zero if absent).
func (s *Snapshot) BankOf(addr, denom string) *big.Int {
	if m, ok := s.Bank[addr]; ok {
		if v, ok := m[denom]; ok {
			return v
		}
	}
	return new(big.Int)
}

func (s *Snapshot) SupplyOf(denom string) *big.Int {
	if v, ok := s.Supply[denom]; ok {
		return v
	}
	return new(big.Int)
}

// TableHash hashes the given tables' contents (distinct-state counting).
func (s *Snapshot) TableHash(names ...string) string {
	h := sha256.New()
	for _, n := range names {
		t := s.Tables[n]
		if t == nil {
			continue
		}
		h.Write([]byte(n))
		for _, r := range t.Rows {
			h.Write([]byte(r.Enc))
			h.Write([]byte{0})
		}
	}
	return hex.EncodeToString(h.Sum(nil)[:12])
}

// RawDiff describes the differences between the raw KV of two snapshots ("" when identical).
func RawDiff(a, b *Snapshot) string {
	var out []string
	var names []string
	for n := range a.Raw {
		names = append(names, n)
	}
	sort.Strings(names)
	for _, n := range names {
		if a.RawSum[n] == b.RawSum[n] {
			continue
		}
		am := map[string]string{}
		for _, kv := range a.Raw[n] {
			am[string(kv[0])] = string(kv[1])
		}
		bm := map[string]string{}
		for _, kv := range b.Raw[n] {
			bm[string(kv[0])] = string(kv[1])
		}
		for k, v := range am {
			if w, ok := bm[k]; !ok {
				out = append(out, fmt.Sprintf("%s: deleted %x", n, k))
			} else if w != v {
				out = append(out, fmt.Sprintf("%s: changed %x", n, k))
			}
		}
		for k := range bm {
			if _, ok := am[k]; !ok {
				out = append(out, fmt.Sprintf("%s: added %x", n, k))
			}
		}
	}
	sort.Strings(out)
	if len(out) > 12 {
		out = append(out[:12], fmt.Sprintf("... %d more", len(out)-12))
	}
	return strings.Join(out, "; ")
}

// RowChange is one row-level difference between two snapshots.
type RowChange struct {
	Table  string
	PK     string
	Before proto.Message // nil = inserted
	After  proto.Message // nil = deleted
}

// DiffTables returns all row-level changes between two snapshots.
func DiffTables(a, b *Snapshot) []RowChange {
	var out []RowChange
	var names []string
	for n := range a.Tables {
		names = append(names, n)
	}
	sort.Strings(names)
	for _, n := range names {
		ta, tb := a.Tables[n], b.Tables[n]
		for _, r := range ta.Rows {
			if r2, ok := tb.Get(r.PK); !ok {
				out = append(out, RowChange{n, r.PK, r.Msg, nil})
			} else if r2.Enc != r.Enc {
				out = append(out, RowChange{n, r.PK, r.Msg, r2.Msg})
			}
		}
		for _, r := range tb.Rows {
			if _, ok := ta.Get(r.PK); !ok {
				out = append(out, RowChange{n, r.PK, nil, r.Msg})
			}
		}
	}
	return out
}

// BankChange is one (address, denom) difference.
type BankChange struct {
	Addr, Denom   string
	Before, After *big.Int
}

func DiffBank(a, b *Snapshot) []BankChange {
	var out []BankChange
	seen := map[string]bool{}
	visit := func(addr, denom string) {
		k := addr + "/" + denom
		if seen[k] {
			return
		}
		seen[k] = true
		x, y := a.BankOf(addr, denom), b.BankOf(addr, denom)
		if x.Cmp(y) != 0 {
			out = append(out, BankChange{addr, denom, x, y})
		}
	}
	for addr, m := range a.Bank {
		for d := range m {
			visit(addr, d)
		}
	}
	for addr, m := range b.Bank {
		for d := range m {
			visit(addr, d)
		}
	}
	sort.Slice(out, func(i, j int) bool {
		if out[i].Addr != out[j].Addr {
			return out[i].Addr < out[j].Addr
		}
		return out[i].Denom < out[j].Denom
	})
	return out
}

func DiffSupply(a, b *Snapshot) []BankChange {
	var out []BankChange
	seen := map[string]bool{}
	for _, m := range []map[string]*big.Int{a.Supply, b.Supply} {
		for d := range m {
			if seen[d] {
				continue
			}
			seen[d] = true
			x, y := a.SupplyOf(d), b.SupplyOf(d)
			if x.Cmp(y) != 0 {
				out = append(out, BankChange{"", d, x, y})
			}
		}
	}
	sort.Slice(out, func(i, j int) bool { return out[i].Denom < out[j].Denom })
	return out
}
