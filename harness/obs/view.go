package obs

import (
	"math/big"
	"sort"
	"time"

	sdk "github.com/cosmos/cosmos-sdk/types"
	"google.golang.org/protobuf/types/known/timestamppb"

	dataapi "github.com/regen-network/regen-ledger/api/v2/regen/data/v1"
	basketapi "github.com/regen-network/regen-ledger/api/v2/regen/ecocredit/basket/v1"
	marketapi "github.com/regen-network/regen-ledger/api/v2/regen/ecocredit/marketplace/v1"
	baseapi "github.com/regen-network/regen-ledger/api/v2/regen/ecocredit/v1"

	"verifharness/ref"
)

const (
	TCreditType     = "regen.ecocredit.v1.CreditType"
	TClass          = "regen.ecocredit.v1.Class"
	TClassIssuer    = "regen.ecocredit.v1.ClassIssuer"
	TProject        = "regen.ecocredit.v1.Project"
	TBatch          = "regen.ecocredit.v1.Batch"
	TClassSeq       = "regen.ecocredit.v1.ClassSequence"
	TProjectSeq     = "regen.ecocredit.v1.ProjectSequence"
	TBatchSeq       = "regen.ecocredit.v1.BatchSequence"
	TBatchBalance   = "regen.ecocredit.v1.BatchBalance"
	TBatchSupply    = "regen.ecocredit.v1.BatchSupply"
	TOriginTx       = "regen.ecocredit.v1.OriginTxIndex"
	TBatchContract  = "regen.ecocredit.v1.BatchContract"
	TAllowlist      = "regen.ecocredit.v1.ClassCreatorAllowlist"
	TAllowedCreator = "regen.ecocredit.v1.AllowedClassCreator"
	TClassFee       = "regen.ecocredit.v1.ClassFee"
	TBridgeChain    = "regen.ecocredit.v1.AllowedBridgeChain"
	TEnrollment     = "regen.ecocredit.v1.ProjectEnrollment"
	TProjectFee     = "regen.ecocredit.v1.ProjectFee"
	TBasket         = "regen.ecocredit.basket.v1.Basket"
	TBasketClass    = "regen.ecocredit.basket.v1.BasketClass"
	TBasketBalance  = "regen.ecocredit.basket.v1.BasketBalance"
	TBasketFee      = "regen.ecocredit.basket.v1.BasketFee"
	TSellOrder      = "regen.ecocredit.marketplace.v1.SellOrder"
	TAllowedDenom   = "regen.ecocredit.marketplace.v1.AllowedDenom"
	TMarket         = "regen.ecocredit.marketplace.v1.Market"
	TFeeParams      = "regen.ecocredit.marketplace.v1.FeeParams"
	TDataID         = "regen.data.v1.DataID"
	TDataAnchor     = "regen.data.v1.DataAnchor"
	TDataAttestor   = "regen.data.v1.DataAttestor"
	TResolver       = "regen.data.v1.Resolver"
	TDataResolver   = "regen.data.v1.DataResolver"
)

func Addr(b []byte) string {
	if len(b) == 0 {
		return ""
	}
	return sdk.AccAddress(b).String()
}

func TS(t *timestamppb.Timestamp) *time.Time {
	if t == nil {
		return nil
	}
	x := time.Unix(t.Seconds, int64(t.Nanos)).UTC()
	return &x
}

type BalKey struct {
	Addr     string
	BatchKey uint64
}

// Bal is a BatchBalance row as exact rationals (nil when the stored string does not parse).
type Bal struct {
	Row     *baseapi.BatchBalance
	T, R, E *big.Rat
}

type Sup struct {
	Row     *baseapi.BatchSupply
	T, R, C *big.Rat
}

type BBKey struct {
	BasketID uint64
	Denom    string
}

// View is a typed index over a Snapshot.
type View struct {
	CreditTypes  map[string]*baseapi.CreditType
	Classes      map[uint64]*baseapi.Class
	ClassByID    map[string]*baseapi.Class
	ClassList    []*baseapi.Class
	Issuers      map[uint64]map[string]bool
	Projects     map[uint64]*baseapi.Project
	ProjectByID  map[string]*baseapi.Project
	ProjectList  []*baseapi.Project
	Batches      map[uint64]*baseapi.Batch
	BatchByDenom map[string]*baseapi.Batch
	BatchList    []*baseapi.Batch
	ClassSeq     map[string]uint64
	ProjectSeq   map[uint64]uint64
	BatchSeq     map[uint64]uint64
	Balances     map[BalKey]*Bal
	BalanceList  []*Bal
	Supplies     map[uint64]*Sup
	OriginTxs    []*baseapi.OriginTxIndex
	Contracts    []*baseapi.BatchContract
	ContractOf   map[uint64]*baseapi.BatchContract
	Allowlist    bool
	Creators     map[string]bool
	ClassFee     *baseapi.ClassFee
	BridgeChains map[string]bool

	Baskets       map[uint64]*basketapi.Basket
	BasketByDenom map[string]*basketapi.Basket
	BasketByName  map[string]*basketapi.Basket
	BasketList    []*basketapi.Basket
	BasketClasses map[uint64]map[string]bool
	BasketBals    map[BBKey]*basketapi.BasketBalance
	BasketBalList []*basketapi.BasketBalance
	BasketFee     *basketapi.BasketFee

	Orders        map[uint64]*marketapi.SellOrder
	OrderList     []*marketapi.SellOrder
	AllowedDenoms map[string]*marketapi.AllowedDenom
	Markets       map[uint64]*marketapi.Market
	FeeParams     *marketapi.FeeParams

	DataIDs      []*dataapi.DataID
	IRIByID      map[string]string
	IDByIRI      map[string]string
	Anchors      map[string]*dataapi.DataAnchor
	Attestors    []*dataapi.DataAttestor
	Resolvers    map[uint64]*dataapi.Resolver
	ResolverList []*dataapi.Resolver
	DataResolver []*dataapi.DataResolver
}

func (s *Snapshot) V() *View {
	if s.view != nil {
		return s.view
	}
	v := &View{
		CreditTypes: map[string]*baseapi.CreditType{}, Classes: map[uint64]*baseapi.Class{}, ClassByID: map[string]*baseapi.Class{},
		Issuers: map[uint64]map[string]bool{}, Projects: map[uint64]*baseapi.Project{}, ProjectByID: map[string]*baseapi.Project{},
		Batches: map[uint64]*baseapi.Batch{}, BatchByDenom: map[string]*baseapi.Batch{}, ClassSeq: map[string]uint64{},
		ProjectSeq: map[uint64]uint64{}, BatchSeq: map[uint64]uint64{}, Balances: map[BalKey]*Bal{}, Supplies: map[uint64]*Sup{},
		ContractOf: map[uint64]*baseapi.BatchContract{}, Creators: map[string]bool{}, BridgeChains: map[string]bool{},
		Baskets: map[uint64]*basketapi.Basket{}, BasketByDenom: map[string]*basketapi.Basket{}, BasketByName: map[string]*basketapi.Basket{},
		BasketClasses: map[uint64]map[string]bool{}, BasketBals: map[BBKey]*basketapi.BasketBalance{},
		Orders: map[uint64]*marketapi.SellOrder{}, AllowedDenoms: map[string]*marketapi.AllowedDenom{}, Markets: map[uint64]*marketapi.Market{},
		IRIByID: map[string]string{}, IDByIRI: map[string]string{}, Anchors: map[string]*dataapi.DataAnchor{}, Resolvers: map[uint64]*dataapi.Resolver{},
	}
	rows := func(n string) []Row {
		if t := s.Tables[n]; t != nil {
			return t.Rows
		}
		return nil
	}
	for _, r := range rows(TCreditType) {
		m := r.Msg.(*baseapi.CreditType)
		v.CreditTypes[m.Abbreviation] = m
	}
	for _, r := range rows(TClass) {
		m := r.Msg.(*baseapi.Class)
		v.Classes[m.Key] = m
		v.ClassByID[m.Id] = m
		v.ClassList = append(v.ClassList, m)
	}
	for _, r := range rows(TClassIssuer) {
		m := r.Msg.(*baseapi.ClassIssuer)
		if v.Issuers[m.ClassKey] == nil {
			v.Issuers[m.ClassKey] = map[string]bool{}
		}
		v.Issuers[m.ClassKey][Addr(m.Issuer)] = true
	}
	for _, r := range rows(TProject) {
		m := r.Msg.(*baseapi.Project)
		v.Projects[m.Key] = m
		v.ProjectByID[m.Id] = m
		v.ProjectList = append(v.ProjectList, m)
	}
	for _, r := range rows(TBatch) {
		m := r.Msg.(*baseapi.Batch)
		v.Batches[m.Key] = m
		v.BatchByDenom[m.Denom] = m
		v.BatchList = append(v.BatchList, m)
	}
	for _, r := range rows(TClassSeq) {
		m := r.Msg.(*baseapi.ClassSequence)
		v.ClassSeq[m.CreditTypeAbbrev] = m.NextSequence
	}
	for _, r := range rows(TProjectSeq) {
		m := r.Msg.(*baseapi.ProjectSequence)
		v.ProjectSeq[m.ClassKey] = m.NextSequence
	}
	for _, r := range rows(TBatchSeq) {
		m := r.Msg.(*baseapi.BatchSequence)
		v.BatchSeq[m.ProjectKey] = m.NextSequence
	}
	for _, r := range rows(TBatchBalance) {
		m := r.Msg.(*baseapi.BatchBalance)
		b := &Bal{Row: m}
		b.T, _ = ref.DecOrZero(m.TradableAmount)
		b.R, _ = ref.DecOrZero(m.RetiredAmount)
		b.E, _ = ref.DecOrZero(m.EscrowedAmount)
		v.Balances[BalKey{Addr(m.Address), m.BatchKey}] = b
		v.BalanceList = append(v.BalanceList, b)
	}
	for _, r := range rows(TBatchSupply) {
		m := r.Msg.(*baseapi.BatchSupply)
		b := &Sup{Row: m}
		b.T, _ = ref.DecOrZero(m.TradableAmount)
		b.R, _ = ref.DecOrZero(m.RetiredAmount)
		b.C, _ = ref.DecOrZero(m.CancelledAmount)
		v.Supplies[m.BatchKey] = b
	}
	for _, r := range rows(TOriginTx) {
		v.OriginTxs = append(v.OriginTxs, r.Msg.(*baseapi.OriginTxIndex))
	}
	for _, r := range rows(TBatchContract) {
		m := r.Msg.(*baseapi.BatchContract)
		v.Contracts = append(v.Contracts, m)
		v.ContractOf[m.BatchKey] = m
	}
	for _, r := range rows(TAllowlist) {
		v.Allowlist = r.Msg.(*baseapi.ClassCreatorAllowlist).Enabled
	}
	for _, r := range rows(TAllowedCreator) {
		v.Creators[Addr(r.Msg.(*baseapi.AllowedClassCreator).Address)] = true
	}
	for _, r := range rows(TClassFee) {
		v.ClassFee = r.Msg.(*baseapi.ClassFee)
	}
	for _, r := range rows(TBridgeChain) {
		v.BridgeChains[r.Msg.(*baseapi.AllowedBridgeChain).ChainName] = true
	}
	for _, r := range rows(TBasket) {
		m := r.Msg.(*basketapi.Basket)
		v.Baskets[m.Id] = m
		v.BasketByDenom[m.BasketDenom] = m
		v.BasketByName[m.Name] = m
		v.BasketList = append(v.BasketList, m)
	}
	for _, r := range rows(TBasketClass) {
		m := r.Msg.(*basketapi.BasketClass)
		if v.BasketClasses[m.BasketId] == nil {
			v.BasketClasses[m.BasketId] = map[string]bool{}
		}
		v.BasketClasses[m.BasketId][m.ClassId] = true
	}
	for _, r := range rows(TBasketBalance) {
		m := r.Msg.(*basketapi.BasketBalance)
		v.BasketBals[BBKey{m.BasketId, m.BatchDenom}] = m
		v.BasketBalList = append(v.BasketBalList, m)
	}
	for _, r := range rows(TBasketFee) {
		v.BasketFee = r.Msg.(*basketapi.BasketFee)
	}
	for _, r := range rows(TSellOrder) {
		m := r.Msg.(*marketapi.SellOrder)
		v.Orders[m.Id] = m
		v.OrderList = append(v.OrderList, m)
	}
	for _, r := range rows(TAllowedDenom) {
		m := r.Msg.(*marketapi.AllowedDenom)
		v.AllowedDenoms[m.BankDenom] = m
	}
	for _, r := range rows(TMarket) {
		m := r.Msg.(*marketapi.Market)
		v.Markets[m.Id] = m
	}
	for _, r := range rows(TFeeParams) {
		v.FeeParams = r.Msg.(*marketapi.FeeParams)
	}
	for _, r := range rows(TDataID) {
		m := r.Msg.(*dataapi.DataID)
		v.DataIDs = append(v.DataIDs, m)
		v.IRIByID[string(m.Id)] = m.Iri
		v.IDByIRI[m.Iri] = string(m.Id)
	}
	for _, r := range rows(TDataAnchor) {
		m := r.Msg.(*dataapi.DataAnchor)
		v.Anchors[string(m.Id)] = m
	}
	for _, r := range rows(TDataAttestor) {
		v.Attestors = append(v.Attestors, r.Msg.(*dataapi.DataAttestor))
	}
	for _, r := range rows(TResolver) {
		m := r.Msg.(*dataapi.Resolver)
		v.Resolvers[m.Id] = m
		v.ResolverList = append(v.ResolverList, m)
	}
	for _, r := range rows(TDataResolver) {
		v.DataResolver = append(v.DataResolver, r.Msg.(*dataapi.DataResolver))
	}
	s.view = v
	return v
}

var zeroRat = new(big.Rat)

// BalOf returns the (T,R,E) of an account in a batch; an absent row is all zeros.
func (v *View) BalOf(addr string, batchKey uint64) (t, r, e *big.Rat) {
	if b, ok := v.Balances[BalKey{addr, batchKey}]; ok {
		return nz(b.T), nz(b.R), nz(b.E)
	}
	return zeroRat, zeroRat, zeroRat
}

func nz(r *big.Rat) *big.Rat {
	if r == nil {
		return zeroRat
	}
	return r
}

// SortedBatchKeys returns batch keys in ascending order.
func (v *View) SortedBatchKeys() []uint64 {
	var k []uint64
	for x := range v.Batches {
		k = append(k, x)
	}
	sort.Slice(k, func(i, j int) bool { return k[i] < k[j] })
	return k
}

// ClassOfBatch returns the class of a batch through its project (nil if dangling).
func (v *View) ClassOfBatch(b *baseapi.Batch) *baseapi.Class {
	if c, ok := v.Classes[b.ClassKey]; ok && b.ClassKey != 0 {
		return c
	}
	p := v.Projects[b.ProjectKey]
	if p == nil {
		return nil
	}
	return v.Classes[p.ClassKey]
}
