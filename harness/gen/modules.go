package gen

import (
	"crypto/sha256"
	"fmt"
	"math/big"
	"os"
	"sort"
	"strings"
	"time"

	sdk "github.com/cosmos/cosmos-sdk/types"
	gogotypes "github.com/cosmos/gogoproto/types"

	basketapi "github.com/regen-network/regen-ledger/api/v2/regen/ecocredit/basket/v1"
	marketapi "github.com/regen-network/regen-ledger/api/v2/regen/ecocredit/marketplace/v1"
	baseapi "github.com/regen-network/regen-ledger/api/v2/regen/ecocredit/v1"
	"github.com/regen-network/regen-ledger/x/data/v3"
	"github.com/regen-network/regen-ledger/x/ecocredit/v3/base"
	basetypes "github.com/regen-network/regen-ledger/x/ecocredit/v3/base/types/v1"
	baskettypes "github.com/regen-network/regen-ledger/x/ecocredit/v3/basket/types/v1"
	markettypes "github.com/regen-network/regen-ledger/x/ecocredit/v3/marketplace/types/v1"

	"verifharness/eng"
	"verifharness/obs"
	"verifharness/ref"
)

func (g *Gen) register() {
	g.registerBase()
	g.add("basket_create", g.genBasketCreate)
	g.add("prefix_basket", g.genPrefixBasket)
	g.add("basket_combo", g.genBasketCombo)
	g.add("put", g.genPut)
	g.add("take", g.genTake)
	g.add("basket_fee", g.genBasketFee)
	g.add("update_curator", g.genUpdateCurator)
	g.add("update_date_criteria", g.genUpdateDateCriteria)
	g.add("sell", g.genSell)
	g.add("update_sell", g.genUpdateSell)
	g.add("cancel_sell", g.genCancelSell)
	g.add("buy", g.genBuy)
	g.add("basket_token_market", g.genBasketTokenMarket)
	g.add("allowed_denom", g.genAllowedDenom)
	g.add("fee_params", g.genFeeParams)
	g.add("fee_pool_send", g.genFeePoolSend)
	g.add("anchor", g.genAnchor)
	g.add("attest", g.genAttest)
	g.add("define_resolver", g.genDefineResolver)
	g.add("register_resolver", g.genRegisterResolver)
	g.add("resolver_combo", g.genResolverCombo)
	g.add("batch_combo", g.genBatchCombo)
	g.add("market_combo", g.genMarketCombo)
	g.add("sell_all_then_buy", g.genSellAllThenBuy)
}

// ---------- basket ----------

func (g *Gen) dateCriteria() *baskettypes.DateCriteria {
	switch g.R.Intn(5) {
	case 0:
		return nil
	case 1:
		d := g.date()
		// aim the criterion at an existing batch's start date (exactly, or a nanosecond / second off)
		if len(g.V.BatchList) > 0 && g.chance(0.5) {
			b := g.V.BatchList[g.R.Intn(len(g.V.BatchList))]
			if b.StartDate != nil {
				d = b.StartDate.AsTime().Add([]time.Duration{0, time.Nanosecond, -time.Nanosecond, time.Second, -time.Second}[g.R.Intn(5)])
			}
		}
		if d.Year() < 1900 && !g.hostile() {
			d = time.Date(1900, 1, 1, 0, 0, 0, 0, time.UTC)
		}
		if g.chance(0.12) {
			// the Unix epoch: a set criterion whose protobuf timestamp is all zero
			d = time.Unix(0, int64(g.R.Intn(2)*g.R.Intn(2))).UTC()
		}
		ts, err := gogotypes.TimestampProto(d)
		if err != nil {
			return nil
		}
		return &baskettypes.DateCriteria{MinStartDate: ts}
	case 2:
		// up to 600 years: beyond ~292 years the window no longer fits a Go Duration (it is stored as
		// seconds, which do) — whatever the chain stores must be what the message said
		days := []int64{1, 365, 3650, 365 * 50, 365 * 200, 365 * 300, 365 * 600}[g.R.Intn(7)]
		secs := days * 86400
		if g.hostile() && g.chance(0.3) {
			secs = 3600
		}
		return &baskettypes.DateCriteria{StartDateWindow: &gogotypes.Duration{Seconds: secs, Nanos: int32(g.R.Intn(2) * g.R.Intn(1000000000))}}
	default:
		return &baskettypes.DateCriteria{YearsInThePast: uint32([]int{1, 2, 10, 55, 100, 3000}[g.R.Intn(6)])}
	}
}

func (g *Gen) basketName() string {
	g.basketSeq++
	n := fmt.Sprintf("B%d", g.basketSeq)
	for len(n) < 3 {
		n += "x"
	}
	if g.hostile() {
		switch g.R.Intn(4) {
		case 0:
			return "ab"
		case 1:
			return "1abc"
		case 2:
			return "toolongname"
		case 3:
			if len(g.V.BasketList) > 0 {
				return g.V.BasketList[0].Name
			}
		}
	}
	return n
}

func (g *Gen) genBasketCreate() *eng.Tx {
	if len(g.V.BasketList) >= g.P.MaxBaskets && !g.hostile() {
		return nil
	}
	ct := g.creditTypeAbbrev()
	var classes []string
	for _, c := range g.V.ClassList {
		if (c.CreditTypeAbbrev == ct && g.chance(0.7)) || (g.hostile() && g.chance(0.1)) {
			classes = append(classes, c.Id)
		}
	}
	if len(classes) == 0 {
		if c := g.class(); c != nil {
			classes = []string{c.Id}
			if !g.hostile() {
				ct = c.CreditTypeAbbrev
			}
		} else {
			return nil
		}
	}
	m := &baskettypes.MsgCreate{Curator: g.actor(), Name: g.basketName(), Description: "basket", DisableAutoRetire: g.chance(0.5), CreditTypeAbbrev: ct, AllowedClasses: classes, DateCriteria: g.dateCriteria()}
	if g.V.BasketFee != nil && g.V.BasketFee.Fee != nil {
		d, a := apiCoin(g.V.BasketFee.Fee)
		if f := g.feeFor(a, d); f != nil {
			m.Fee = sdk.Coins{*f}
		}
	} else if f := g.feeFor(nil, ""); f != nil {
		m.Fee = sdk.Coins{*f}
	}
	return tx(m)
}

// genPrefixBasket: two classes of one credit type whose ids are string prefixes of each other (C10 /
// C100, B10 / B100). A basket that allows only ONE of them is created, then a batch of the OTHER class is
// issued to an actor who puts it into that basket (must be refused: the class is not on the list), then a
// batch of the allowed class is put (must be admitted).
func (g *Gen) genPrefixBasket() *eng.Tx {
	type pair struct{ listed, other *baseapi.Class }
	var ps []pair
	hasProj := map[uint64]*baseapi.Project{}
	for _, p := range g.V.ProjectList {
		if hasProj[p.ClassKey] == nil {
			hasProj[p.ClassKey] = p
		}
	}
	for _, x := range g.V.ClassList {
		for _, y := range g.V.ClassList {
			if x.Key != y.Key && strings.HasPrefix(y.Id, x.Id) && x.CreditTypeAbbrev == y.CreditTypeAbbrev && hasProj[x.Key] != nil && hasProj[y.Key] != nil &&
				len(g.V.Issuers[x.Key]) > 0 && len(g.V.Issuers[y.Key]) > 0 {
				ps = append(ps, pair{y, x}, pair{x, y})
			}
		}
	}
	if len(ps) == 0 {
		return g.genPrefixProject()
	}
	pr := ps[g.R.Intn(len(ps))]
	g.basketSeq++
	name := fmt.Sprintf("PB%d", g.basketSeq)
	denom := "eco.u" + pr.listed.CreditTypeAbbrev + "." + name
	holder := g.actor()
	s, e := time.Date(2020, 1, 1, 0, 0, 0, 0, time.UTC), time.Date(2021, 1, 1, 0, 0, 0, 0, time.UTC)
	issue := func(c *baseapi.Class, tag string) func() *eng.Tx {
		return func() *eng.Tx {
			iss := sortedKeys(g.V.Issuers[c.Key])
			p := hasProj[c.Key]
			if len(iss) == 0 || p == nil {
				return nil
			}
			return &eng.Tx{Msgs: []sdk.Msg{&basetypes.MsgCreateBatch{Issuer: iss[0], ProjectId: p.Id, Metadata: "prefix-basket", StartDate: &s, EndDate: &e,
				Issuance: []*basetypes.BatchIssuance{{Recipient: holder, TradableAmount: "50"}}}}, Tag: tag}
		}
	}
	put := func(c *baseapi.Class, tag string) func() *eng.Tx {
		return func() *eng.Tx {
			// the newest batch of that class the holder has credits of
			var bd string
			for _, b := range g.V.BatchList {
				if p := g.V.Projects[b.ProjectKey]; p != nil && p.ClassKey == c.Key {
					if t, _, _ := g.V.BalOf(holder, b.Key); t != nil && t.Sign() > 0 {
						bd = b.Denom
					}
				}
			}
			if bd == "" {
				return nil
			}
			return &eng.Tx{Msgs: []sdk.Msg{&baskettypes.MsgPut{Owner: holder, BasketDenom: denom, Credits: []*baskettypes.BasketCredit{{BatchDenom: bd, Amount: "7.5"}}}}, Tag: tag}
		}
	}
	g.script = append(g.script,
		issue(pr.other, "prefix_basket/issue-unlisted"),
		put(pr.other, "prefix_basket/put-unlisted"),
		issue(pr.listed, "prefix_basket/issue-listed"),
		put(pr.listed, "prefix_basket/put-listed"))
	m := &baskettypes.MsgCreate{Curator: g.actor(), Name: name, Description: "prefix", DisableAutoRetire: g.chance(0.5), CreditTypeAbbrev: pr.listed.CreditTypeAbbrev, AllowedClasses: []string{pr.listed.Id}}
	if g.V.BasketFee != nil && g.V.BasketFee.Fee != nil {
		if f := storedFee(g.V.BasketFee.Fee); f != nil {
			m.Fee = sdk.Coins{*f}
		}
	}
	return &eng.Tx{Msgs: []sdk.Msg{m}, Tag: "prefix_basket"}
}

func (g *Gen) basket() *basketapi.Basket {
	b, _ := pick(g, g.V.BasketList)
	return b
}

// nearBoundaryPut looks for a (basket, batch, holder) whose batch start is within a second of the
// basket's date criterion evaluated now.
// QueueBoundaryPuts: the block-time policy has just placed the block on a window boundary; the next n
// transactions are puts at that boundary (if there still is one when they are generated).
func (g *Gen) QueueBoundaryPuts(n int) {
	for i := 0; i < n; i++ {
		g.script = append(g.script, func() *eng.Tx {
			g.windowOnly = true
			defer func() { g.windowOnly = false }()
			return g.nearBoundaryPut()
		})
	}
}

func (g *Gen) nearBoundaryPut() *eng.Tx {
	type cand struct {
		bk    *basketapi.Basket
		denom string
		key   uint64
	}
	var cs []cand
	for _, bk := range g.V.BasketList {
		c := bk.DateCriteria
		if c == nil || (g.windowOnly && c.StartDateWindow == nil) {
			continue
		}
		var min time.Time
		switch {
		case c.MinStartDate != nil:
			min = c.MinStartDate.AsTime()
		case c.StartDateWindow != nil:
			if c.StartDateWindow.Seconds > 9_000_000_000 {
				continue
			}
			min = g.Now.Add(-c.StartDateWindow.AsDuration())
		case c.YearsInThePast != 0:
			min = time.Date(g.Now.Year()-int(c.YearsInThePast), 1, 1, 0, 0, 0, 0, time.UTC)
		default:
			continue
		}
		for _, b := range g.V.BatchList {
			if b.StartDate == nil {
				continue
			}
			if cl := g.V.ClassOfBatch(b); cl == nil || !g.V.BasketClasses[bk.Id][cl.Id] || cl.CreditTypeAbbrev != bk.CreditTypeAbbrev {
				continue
			}
			// (time comparisons, not Sub: a Duration saturates beyond ~292 years)
			st := b.StartDate.AsTime()
			if !st.Before(min) && !st.After(min.Add(time.Second)) {
				cs = append(cs, cand{bk, b.Denom, b.Key})
				cs = append(cs, cand{bk, b.Denom, b.Key}) // at-or-after candidates twice as likely
			} else if st.Before(min) && !st.Before(min.Add(-time.Second)) {
				cs = append(cs, cand{bk, b.Denom, b.Key})
			}
		}
	}
	if len(cs) == 0 {
		return nil
	}
	c := cs[g.R.Intn(len(cs))]
	if os.Getenv("VERIF_DEBUG") != "" && c.bk.DateCriteria.StartDateWindow != nil {
		fmt.Printf("# DEBUG nearBoundaryPut window candidate %s %s now=%s\n", c.bk.BasketDenom, c.denom, g.Now)
	}
	for _, a := range g.A {
		t, _, _ := g.V.BalOf(a, c.key)
		if t.Sign() > 0 {
			g.quiet = true
			amt := g.amountUpTo(new(big.Rat).Quo(t, big.NewRat(4, 1)))
			g.quiet = false
			return tx(&baskettypes.MsgPut{Owner: a, BasketDenom: c.bk.BasketDenom, Credits: []*baskettypes.BasketCredit{{BatchDenom: c.denom, Amount: amt}}})
		}
	}
	return nil
}

// mixedAdmissionPut: one message listing, for one owner and one allowed class, a batch that satisfies
// the basket's date criterion and a batch that does not (in either order).
func (g *Gen) mixedAdmissionPut() *eng.Tx {
	for try := 0; try < 6; try++ {
		bk := g.basket()
		if bk == nil || bk.DateCriteria == nil {
			continue
		}
		c := bk.DateCriteria
		var min time.Time
		switch {
		case c.MinStartDate != nil:
			min = c.MinStartDate.AsTime()
		case c.StartDateWindow != nil:
			if c.StartDateWindow.Seconds > 9_000_000_000 {
				continue
			}
			min = g.Now.Add(-c.StartDateWindow.AsDuration())
		case c.YearsInThePast != 0:
			min = time.Date(g.Now.Year()-int(c.YearsInThePast), 1, 1, 0, 0, 0, 0, time.UTC)
		default:
			continue
		}
		for _, a := range g.A {
			var good, bad *baskettypes.BasketCredit
			var goodClass, badClass string
			for _, b := range g.V.BatchList {
				cl := g.V.ClassOfBatch(b)
				if cl == nil || !g.V.BasketClasses[bk.Id][cl.Id] || b.StartDate == nil {
					continue
				}
				t, _, _ := g.V.BalOf(a, b.Key)
				if t.Sign() <= 0 {
					continue
				}
				cr := &baskettypes.BasketCredit{BatchDenom: b.Denom, Amount: g.amountUpTo(new(big.Rat).Quo(t, big.NewRat(8, 1)))}
				if b.StartDate.AsTime().Before(min) {
					if bad == nil || g.chance(0.3) {
						bad, badClass = cr, cl.Id
					}
				} else if good == nil || g.chance(0.3) {
					good, goodClass = cr, cl.Id
				}
			}
			if good != nil && bad != nil && goodClass == badClass {
				cs := []*baskettypes.BasketCredit{good, bad}
				if g.chance(0.3) {
					cs = []*baskettypes.BasketCredit{bad, good}
				}
				return tx(&baskettypes.MsgPut{Owner: a, BasketDenom: bk.BasketDenom, Credits: cs})
			}
		}
	}
	return nil
}

func (g *Gen) genPut() *eng.Tx {
	if g.chance(g.P.Boundary) {
		if t := g.nearBoundaryPut(); t != nil {
			return t
		}
	}
	if g.chance(g.P.Boundary / 2) {
		g.quiet = true
		t := g.mixedAdmissionPut()
		g.quiet = false
		if t != nil {
			return t
		}
	}
	bk := g.basket()
	if bk == nil {
		return nil
	}
	m := &baskettypes.MsgPut{BasketDenom: bk.BasketDenom}
	if g.hostile() && g.chance(0.1) {
		m.BasketDenom = bk.BasketDenom + "x"
	}
	// prefer holdings of allowed classes
	var h *obs.Bal
	for i := 0; i < 10; i++ {
		c := g.holding()
		if c == nil {
			return nil
		}
		h = c
		b := g.V.Batches[c.Row.BatchKey]
		if b == nil {
			continue
		}
		cl := g.V.ClassOfBatch(b)
		if cl != nil && g.V.BasketClasses[bk.Id][cl.Id] && c.T.Sign() > 0 {
			break
		}
	}
	if g.chance(g.P.Extreme * 4) {
		// the largest holding of an admissible class (very large amounts)
		var bestKey obs.BalKey
		for k, bal := range g.V.Balances {
			if bal.T == nil || h.T == nil || !g.isActor(k.Addr) {
				continue
			}
			c := bal.T.Cmp(h.T)
			// strictly larger, or equal with a smaller key: independent of map iteration order
			if c < 0 || (c == 0 && !(k.BatchKey < bestKey.BatchKey || (k.BatchKey == bestKey.BatchKey && k.Addr < bestKey.Addr))) {
				continue
			}
			if bb := g.V.Batches[k.BatchKey]; bb != nil {
				if cl := g.V.ClassOfBatch(bb); cl != nil && g.V.BasketClasses[bk.Id][cl.Id] {
					h, bestKey = bal, k
				}
			}
		}
	}
	owner := obs.Addr(h.Row.Address)
	m.Owner = g.owner(owner)
	b := g.V.Batches[h.Row.BatchKey]
	if b == nil {
		return nil
	}
	if h.T != nil && h.T.Cmp(new(big.Rat).SetInt(ref.Pow10(30))) > 0 && g.chance(0.3) {
		// one long amount written with a trailing zero: 30+ integer digits and five significant
		// decimals, i.e. more than 34 significant digits even after the zero is dropped
		f := new(big.Rat).Mul(h.T, big.NewRat(int64(10+g.R.Intn(85)), 100))
		a := ratToDec(f, 0)
		if i := strings.IndexByte(a, '.'); i >= 0 {
			a = a[:i]
		}
		a += fmt.Sprintf(".%04d%d0", g.R.Intn(10000), 1+g.R.Intn(9))
		m.Credits = append(m.Credits, &baskettypes.BasketCredit{BatchDenom: b.Denom, Amount: a})
		return tx(m)
	}
	if h.T != nil && h.T.Cmp(new(big.Rat).SetInt(ref.Pow10(28))) > 0 && g.chance(0.5) {
		// wide-sum put: a very large entry and a smallest-unit entry of the same batch in one message
		// (the sum of the entries needs more than 34 significant digits)
		f := new(big.Rat).Mul(h.T, big.NewRat(int64(50+g.R.Intn(45)), 100))
		if f.Cmp(new(big.Rat).SetInt(ref.Pow10(28))) < 0 {
			f = new(big.Rat).SetInt(ref.Pow10(28))
		}
		large := &baskettypes.BasketCredit{BatchDenom: b.Denom, Amount: trimDec(ratToDec(f, 0))}
		small := &baskettypes.BasketCredit{BatchDenom: b.Denom, Amount: []string{"0.000001", "0.000007", "1.000003", "0.5"}[g.R.Intn(4)]}
		if g.chance(0.5) {
			m.Credits = append(m.Credits, large, small)
		} else {
			m.Credits = append(m.Credits, small, large)
		}
		return tx(m)
	}
	m.Credits = append(m.Credits, &baskettypes.BasketCredit{BatchDenom: g.batchDenom(b), Amount: g.amountUpTo(h.T)})
	if g.chance(0.25) {
		if h2 := g.holding(); h2 != nil && obs.Addr(h2.Row.Address) == owner {
			if b2 := g.V.Batches[h2.Row.BatchKey]; b2 != nil {
				m.Credits = append(m.Credits, &baskettypes.BasketCredit{BatchDenom: b2.Denom, Amount: g.amountUpTo(third(h2.T))})
			}
		}
	}
	return tx(m)
}

func (g *Gen) genTake() *eng.Tx {
	bk := g.basket()
	if bk == nil {
		return nil
	}
	// an owner with tokens
	var owner string
	bal := new(big.Int)
	for _, a := range g.A {
		if x := g.S.BankOf(a, bk.BasketDenom); x.Sign() > 0 && (owner == "" || g.chance(0.5)) {
			owner, bal = a, x
		}
	}
	if owner == "" {
		if !g.hostile() {
			return nil
		}
		owner = g.actor()
	}
	amt := new(big.Int).Set(bal)
	switch g.R.Intn(6) {
	case 0: // everything
	case 1:
		amt = big.NewInt(1)
	case 2:
		amt.Quo(amt, big.NewInt(2))
	case 3:
		if g.hostile() {
			amt.Add(amt, big.NewInt(1))
		}
	default:
		amt.Quo(amt, big.NewInt(int64(2+g.R.Intn(50))))
	}
	as := amt.String()
	if amt.Sign() <= 0 {
		as = "1"
	}
	if g.hostile() && g.chance(0.3) {
		as = []string{"0", "-1", "1.5", "1e3", ""}[g.R.Intn(5)]
	}
	retire := !bk.DisableAutoRetire || g.chance(0.4)
	flipped := false
	if g.hostile() && g.chance(0.4) {
		retire = !retire
		flipped = true
	}
	m := &baskettypes.MsgTake{Owner: g.owner(owner), BasketDenom: bk.BasketDenom, Amount: as, RetireOnTake: retire}
	if retire || g.chance(0.2) || (flipped && g.chance(0.6)) {
		if g.chance(0.5) {
			m.RetirementJurisdiction = g.jurisdiction()
		} else {
			m.RetirementLocation = g.jurisdiction()
		}
		m.RetirementReason = g.reason()
	}
	return tx(m)
}

func (g *Gen) genBasketFee() *eng.Tx {
	var cur *sdk.Coin
	if g.V.BasketFee != nil && g.V.BasketFee.Fee != nil {
		cur = storedFee(g.V.BasketFee.Fee)
	}
	return tx(&baskettypes.MsgUpdateBasketFee{Authority: g.govSigner(), Fee: g.feeValue(cur)})
}

func (g *Gen) genUpdateCurator() *eng.Tx {
	bk := g.basket()
	if bk == nil {
		return nil
	}
	right := obs.Addr(bk.Curator)
	signer := right
	if g.hostile() {
		signer = g.wrongSigner(right, g.formerCurators[bk.BasketDenom])
	}
	if signer == right {
		remember(g.formerCurators, bk.BasketDenom, right)
	}
	nc := g.actor()
	if g.hostile() && g.chance(0.15) {
		nc = strings.ToUpper(signer) // a hand-over to oneself, spelled differently
	}
	return tx(&baskettypes.MsgUpdateCurator{Curator: signer, Denom: bk.BasketDenom, NewCurator: nc})
}

func (g *Gen) genUpdateDateCriteria() *eng.Tx {
	bk := g.basket()
	if bk == nil {
		return nil
	}
	signer := g.govSigner()
	if g.hostile() && g.chance(0.5) {
		signer = obs.Addr(bk.Curator) // the curator is NOT allowed to change it
	}
	dc := g.dateCriteria()
	// transitions between "no criterion" and criteria whose encoded value is all zero (the Unix epoch)
	epoch := &baskettypes.DateCriteria{MinStartDate: &gogotypes.Timestamp{}}
	switch {
	case bk.DateCriteria == nil && g.chance(0.3):
		dc = epoch
	case bk.DateCriteria != nil && bk.DateCriteria.MinStartDate != nil && bk.DateCriteria.MinStartDate.Seconds == 0 && bk.DateCriteria.MinStartDate.Nanos == 0 && g.chance(0.6):
		dc = nil
		if g.chance(0.3) {
			dc = &baskettypes.DateCriteria{}
		}
	}
	return tx(&baskettypes.MsgUpdateDateCriteria{Authority: signer, Denom: bk.BasketDenom, NewDateCriteria: dc})
}

// ---------- marketplace ----------

func (g *Gen) askDenom() string {
	// uregen is special (its fees are burned instead of kept): a quarter of the asks
	if g.V.AllowedDenoms["uregen"] != nil && g.chance(0.25) {
		return "uregen"
	}
	ks := sortedKeys(g.V.AllowedDenoms)
	if len(ks) > 0 && g.hostile() && g.chance(0.25) {
		// a strict prefix (or an extension) of an allowed denom: not on the list
		d := ks[g.R.Intn(len(ks))]
		if len(d) > 4 && g.chance(0.7) {
			return d[:len(d)-1-g.R.Intn(len(d)-4)]
		}
		return d + "x"
	}
	if len(ks) == 0 || (g.hostile() && g.chance(0.3)) {
		return g.bankDenom()
	}
	return ks[g.R.Intn(len(ks))]
}

func (g *Gen) askAmount() *big.Int {
	switch g.R.Intn(8) {
	case 0:
		return big.NewInt(1)
	case 1:
		return big.NewInt(int64(1 + g.R.Intn(10)))
	case 2:
		return big.NewInt(1000000)
	case 3:
		return big.NewInt(int64(1 + g.R.Intn(1000000000)))
	case 4:
		if g.chance(g.P.Extreme * 5) {
			return ref.Pow10(28 + g.R.Intn(6))
		}
	case 5:
		return big.NewInt(3)
	}
	return big.NewInt(int64(1 + g.R.Intn(100000)))
}

// expiration: boundary-heavy relative to block time.
func (g *Gen) expiration() *time.Time {
	var t time.Time
	switch g.R.Intn(10) {
	case 0, 1, 2:
		return nil
	case 3:
		t = g.Now.Add(time.Nanosecond)
	case 4:
		t = g.Now.Add(time.Duration(1+g.R.Intn(5)) * time.Second)
	case 5:
		if g.hostile() {
			t = g.Now // not in the future
		} else {
			t = g.Now.Add(time.Minute)
		}
	case 6:
		if g.hostile() {
			t = g.Now.Add(-time.Duration(1+g.R.Intn(100)) * time.Second)
		} else {
			t = g.Now.Add(time.Hour * 24 * 30)
		}
	case 7: // shared expiry bucket: many orders with equal expirations
		t = g.Now.Truncate(time.Hour).Add(time.Hour)
	default:
		t = g.Now.Add(time.Duration(1+g.R.Intn(3600*24*20)) * time.Second)
	}
	if g.chance(0.1) {
		// non-UTC location on the wire is impossible (stdtime encodes seconds/nanos); keep UTC
		t = t.UTC()
	}
	return &t
}

func (g *Gen) genSell() *eng.Tx {
	if len(g.V.OrderList) >= g.P.MaxOrders && !g.hostile() {
		return nil
	}
	h := g.holding()
	if h == nil {
		return nil
	}
	owner := obs.Addr(h.Row.Address)
	b := g.V.Batches[h.Row.BatchKey]
	if b == nil {
		return nil
	}
	m := &markettypes.MsgSell{Seller: g.owner(owner)}
	n := 1 + g.R.Intn(3)
	avail := new(big.Rat).Quo(half(h.T), big.NewRat(int64(n), 1))
	sameDenom := ""
	if n > 1 && g.chance(0.3) {
		sameDenom = g.askDenom() // every order of the message asks in one denom
	}
	for i := 0; i < n; i++ {
		d := g.askDenom()
		if sameDenom != "" {
			d = sameDenom
		}
		c := g.coin(d, g.askAmount())
		m.Orders = append(m.Orders, &markettypes.MsgSell_Order{BatchDenom: g.batchDenom(b), Quantity: g.amountUpTo(avail), AskPrice: &c, DisableAutoRetire: g.chance(0.5), Expiration: g.expiration()})
		if i+1 < n && g.chance(0.5) {
			// the next order sells another batch of the same owner, preferably of ANOTHER credit type
			var other, otherType *obs.Bal
			for k, bal := range g.V.Balances {
				if k.Addr != owner || k.BatchKey == b.Key || bal.T == nil || bal.T.Sign() <= 0 {
					continue
				}
				if other == nil || k.BatchKey < other.Row.BatchKey {
					other = bal
				}
				if b2 := g.V.Batches[k.BatchKey]; b2 != nil {
					c1, c2 := g.V.ClassOfBatch(b), g.V.ClassOfBatch(b2)
					if c1 != nil && c2 != nil && c1.CreditTypeAbbrev != c2.CreditTypeAbbrev && (otherType == nil || k.BatchKey < otherType.Row.BatchKey) {
						otherType = bal
					}
				}
			}
			if otherType != nil {
				other = otherType
			}
			if other != nil {
				if b2 := g.V.Batches[other.Row.BatchKey]; b2 != nil {
					b, avail = b2, new(big.Rat).Quo(other.T, big.NewRat(int64(n), 1))
				}
			}
		}
	}
	return tx(m)
}

// genMarketCombo: the first use of a (credit type, ask denom) pair creates its market. Governance
// allows two fresh denoms; a Sell lists two orders in the first one (creating the market, then finding
// it again) and a third, failing entry — the transaction is reverted and the market id rolled back.
// Scripted follow-up: a Sell in the SECOND fresh denom (its market gets the rolled-back id), then
// a Sell and an update in the first denom again, then a purchase attempt.
func (g *Gen) genMarketCombo() *eng.Tx {
	h := g.holding()
	if h == nil || h.T == nil || h.T.Cmp(big.NewRat(10, 1)) < 0 || len(g.V.Markets) > 60 {
		return nil
	}
	b := g.V.Batches[h.Row.BatchKey]
	if b == nil {
		return nil
	}
	seller := obs.Addr(h.Row.Address)
	g.refSeq++
	d1, d2 := fmt.Sprintf("ucombo%da", g.refSeq), fmt.Sprintf("ucombo%db", g.refSeq)
	one := func(d string, q string, amt int64) *markettypes.MsgSell_Order {
		c := sdk.NewInt64Coin(d, amt)
		return &markettypes.MsgSell_Order{BatchDenom: b.Denom, Quantity: q, AskPrice: &c, DisableAutoRetire: true}
	}
	over := trimDec(ratToDec(new(big.Rat).Add(h.T, big.NewRat(1, 1)), 6)) // more than the seller holds: fails
	g.script = append(g.script,
		func() *eng.Tx {
			return &eng.Tx{Msgs: []sdk.Msg{&markettypes.MsgAddAllowedDenom{Authority: g.Gov, BankDenom: d2, DisplayDenom: d2, Exponent: 6}}, Tag: "market_combo/allow"}
		},
		func() *eng.Tx {
			return &eng.Tx{Msgs: []sdk.Msg{&markettypes.MsgSell{Seller: seller, Orders: []*markettypes.MsgSell_Order{one(d1, "1", 5), one(d1, "1.5", 6), one(d1, over, 7)}}}, Tag: "market_combo/reverted-sell"}
		},
		func() *eng.Tx {
			return &eng.Tx{Msgs: []sdk.Msg{&markettypes.MsgSell{Seller: seller, Orders: []*markettypes.MsgSell_Order{one(d2, "1", 8)}}}, Tag: "market_combo/other-denom"}
		},
		func() *eng.Tx {
			return &eng.Tx{Msgs: []sdk.Msg{&markettypes.MsgSell{Seller: seller, Orders: []*markettypes.MsgSell_Order{one(d1, "2", 9), one(d1, "0.5", 10)}}}, Tag: "market_combo/first-denom-again"}
		},
		func() *eng.Tx {
			// buy the newest order of the seller priced in d1 (the buyer is funded by nobody: the
			// purchase fails for lack of funds on a correct chain — what matters is the binding)
			var last *marketapi.SellOrder
			for _, o := range g.V.OrderList {
				if obs.Addr(o.Seller) == seller && (last == nil || o.Id > last.Id) {
					last = o
				}
			}
			if last == nil {
				return nil
			}
			c := sdk.NewInt64Coin(d1, 10)
			return &eng.Tx{Msgs: []sdk.Msg{&markettypes.MsgBuyDirect{Buyer: g.otherActor(seller), Orders: []*markettypes.MsgBuyDirect_Order{{SellOrderId: last.Id, Quantity: "0.5", BidPrice: &c, DisableAutoRetire: true}}}}, Tag: "market_combo/buy"}
		})
	return &eng.Tx{Msgs: []sdk.Msg{&markettypes.MsgAddAllowedDenom{Authority: g.Gov, BankDenom: d1, DisplayDenom: d1, Exponent: 6}}, Tag: "market_combo/allow"}
}

// genSellAllThenBuy: an account whose balance row of a batch holds NOTHING but escrow (it has put its
// whole tradable balance on sale and never retired any of that batch) buys credits of that same batch
// from someone else. Scripted: another holder lists one credit, the account lists everything it has,
// then buys half a credit of the other listing (tradable, then auto-retired).
func (g *Gen) genSellAllThenBuy() *eng.Tx {
	ks := sortedKeys(g.V.AllowedDenoms)
	if len(ks) == 0 {
		return nil
	}
	den := ks[g.R.Intn(len(ks))]
	type cand struct {
		a, c string
		key  uint64
		t    *big.Rat
	}
	var cs []cand
	for k, bal := range g.V.Balances {
		if !g.isActor(k.Addr) || bal.T == nil || bal.T.Sign() <= 0 || (bal.R != nil && bal.R.Sign() != 0) || (bal.E != nil && bal.E.Sign() != 0) || bal.T.Cmp(new(big.Rat).SetInt(ref.Pow10(20))) > 0 {
			continue
		}
		for k2, b2 := range g.V.Balances {
			if k2.BatchKey == k.BatchKey && k2.Addr != k.Addr && g.isActor(k2.Addr) && b2.T != nil && b2.T.Cmp(big.NewRat(2, 1)) >= 0 {
				cs = append(cs, cand{k.Addr, k2.Addr, k.BatchKey, bal.T})
			}
		}
	}
	if len(cs) == 0 {
		return nil
	}
	sort.Slice(cs, func(i, j int) bool {
		if cs[i].key != cs[j].key {
			return cs[i].key < cs[j].key
		}
		if cs[i].a != cs[j].a {
			return cs[i].a < cs[j].a
		}
		return cs[i].c < cs[j].c
	})
	c := cs[g.R.Intn(len(cs))]
	b := g.V.Batches[c.key]
	if b == nil {
		return nil
	}
	price := sdk.NewInt64Coin(den, 10)
	all := trimDec(ratToDec(c.t, 6))
	buy := func(retire bool) func() *eng.Tx {
		return func() *eng.Tx {
			var last *marketapi.SellOrder
			for _, o := range g.V.OrderList {
				if obs.Addr(o.Seller) == c.c && o.BatchKey == c.key && (last == nil || o.Id > last.Id) {
					last = o
				}
			}
			if last == nil {
				return nil
			}
			mf := sdk.NewInt64Coin(den, 1000)
			return &eng.Tx{Msgs: []sdk.Msg{&markettypes.MsgBuyDirect{Buyer: c.a, Orders: []*markettypes.MsgBuyDirect_Order{{SellOrderId: last.Id, Quantity: "0.25", BidPrice: &price,
				DisableAutoRetire: !retire, RetirementJurisdiction: "US", MaxFeeAmount: &mf}}}}, Tag: "sell_all_then_buy/buy"}
		}
	}
	g.script = append(g.script,
		func() *eng.Tx {
			return &eng.Tx{Msgs: []sdk.Msg{&markettypes.MsgSell{Seller: c.a, Orders: []*markettypes.MsgSell_Order{{BatchDenom: b.Denom, Quantity: all, AskPrice: &price, DisableAutoRetire: true}}}}, Tag: "sell_all_then_buy/sell-all"}
		},
		buy(false), buy(true))
	return &eng.Tx{Msgs: []sdk.Msg{&markettypes.MsgSell{Seller: c.c, Orders: []*markettypes.MsgSell_Order{{BatchDenom: b.Denom, Quantity: "1", AskPrice: &price, DisableAutoRetire: true}}}}, Tag: "sell_all_then_buy/other-lists"}
}

func (g *Gen) order() *marketapi.SellOrder {
	o, _ := pick(g, g.V.OrderList)
	return o
}

func (g *Gen) genUpdateSell() *eng.Tx {
	o := g.order()
	if o == nil {
		return nil
	}
	// orders whose ask denom has since been removed from the allowed list are preferred targets
	// (re-pricing them in their own denom must be rejected)
	keepDenom := false
	if g.chance(0.5) {
		var stale []*marketapi.SellOrder
		for _, x := range g.V.OrderList {
			if mk := g.V.Markets[x.MarketId]; mk != nil && g.V.AllowedDenoms[mk.BankDenom] == nil {
				stale = append(stale, x)
			}
		}
		if len(stale) > 0 {
			o = stale[g.R.Intn(len(stale))]
			keepDenom = true
			g.quiet = true
			defer func() { g.quiet = false }()
		}
	}
	seller := obs.Addr(o.Seller)
	m := &markettypes.MsgUpdateSellOrders{Seller: g.owner(seller)}
	if g.chance(0.12) {
		// own order, the same own order again, then SOMEONE ELSE's order (every entry must be checked for
		// ownership, wherever it stands and whatever precedes it)
		var foreign, sameBatch *marketapi.SellOrder
		for _, x := range g.V.OrderList {
			if obs.Addr(x.Seller) != seller && (foreign == nil || g.chance(0.3)) {
				foreign = x
			}
			if obs.Addr(x.Seller) != seller && x.BatchKey == o.BatchKey && (sameBatch == nil || g.chance(0.3)) {
				sameBatch = x
			}
		}
		if sameBatch == nil {
			// look for a pair (own order, someone else's order of the SAME batch) anywhere in the book
			for _, a := range g.V.OrderList {
				for _, b := range g.V.OrderList {
					if sameBatch == nil && a.BatchKey == b.BatchKey && obs.Addr(a.Seller) != obs.Addr(b.Seller) {
						o, seller, sameBatch = a, obs.Addr(a.Seller), b
					}
				}
			}
		}
		if sameBatch != nil && g.chance(0.7) {
			foreign = sameBatch
		}
		if foreign != nil {
			up := func(x *marketapi.SellOrder) *markettypes.MsgUpdateSellOrders_Update {
				den := "stake"
				if mk := g.V.Markets[x.MarketId]; mk != nil {
					den = mk.BankDenom
				}
				c := sdk.NewInt64Coin(den, int64(1+g.R.Intn(1000)))
				nq := x.Quantity
				if q := ref.MustDec(x.Quantity); q != nil && obs.Addr(x.Seller) != seller {
					// someone else's order: also try to move its owner's credits (escrow -> tradable, tradable -> escrow)
					switch g.R.Intn(3) {
					case 0:
						nq = trimDec(ratToDec(new(big.Rat).Quo(q, big.NewRat(2, 1)), 6))
					case 1:
						if t, _, _ := g.V.BalOf(obs.Addr(x.Seller), x.BatchKey); t != nil && t.Sign() > 0 {
							nq = trimDec(ratToDec(new(big.Rat).Add(q, new(big.Rat).Quo(t, big.NewRat(2, 1))), 6))
						}
					}
					if ref.MustDec(nq) == nil || ref.MustDec(nq).Sign() <= 0 {
						nq = x.Quantity
					}
				}
				return &markettypes.MsgUpdateSellOrders_Update{SellOrderId: x.Id, NewQuantity: nq, NewAskPrice: &c, DisableAutoRetire: x.DisableAutoRetire}
			}
			m.Seller = seller
			m.Updates = []*markettypes.MsgUpdateSellOrders_Update{up(o), up(o), up(foreign)}
			if g.chance(0.5) {
				m.Updates = []*markettypes.MsgUpdateSellOrders_Update{up(o), up(foreign)}
			}
			if g.chance(0.3) {
				m.Updates = append(m.Updates, up(foreign))
			}
			return tx(m)
		}
	}
	n := 1 + g.R.Intn(2)
	for i := 0; i < n; i++ {
		q := ref.MustDec(o.Quantity)
		if q == nil {
			q = big.NewRat(1, 1)
		}
		t, _, _ := g.V.BalOf(seller, o.BatchKey)
		var nq string
		switch g.R.Intn(5) {
		case 0:
			nq = o.Quantity // same
		case 1: // up, within tradable
			inc := ref.MustDec(g.amountUpTo(t))
			if inc == nil {
				inc = big.NewRat(1, 1000000)
			}
			nq = trimDec(ratToDec(new(big.Rat).Add(q, inc), 6))
			if ref.MustDec(nq) == nil {
				nq = o.Quantity
			}
		case 2: // up beyond tradable
			nq = trimDec(ratToDec(new(big.Rat).Add(new(big.Rat).Add(q, t), big.NewRat(1, 1000000)), 6))
		default: // down
			nq = g.amountUpTo(q)
		}
		if g.hostile() && g.chance(0.35) {
			// one decimal place more than the credit type allows, on a quantity that is otherwise fine (a
			// little above or below the current one): must be refused in either direction
			d := big.NewRat(1234567, 10000000)
			if g.chance(0.5) && q.Cmp(d) > 0 {
				nq = ratToDec(new(big.Rat).Sub(q, d), 7)
			} else if t != nil && t.Cmp(d) > 0 {
				nq = ratToDec(new(big.Rat).Add(q, d), 7)
			}
		}
		den := g.askDenom()
		if mk := g.V.Markets[o.MarketId]; mk != nil && (keepDenom || g.chance(0.6)) {
			den = mk.BankDenom
		}
		c := g.coin(den, g.askAmount())
		m.Updates = append(m.Updates, &markettypes.MsgUpdateSellOrders_Update{SellOrderId: o.Id, NewQuantity: nq, NewAskPrice: &c, DisableAutoRetire: g.chance(0.5), NewExpiration: g.expiration()})
		if g.chance(0.5) {
			// another order of the same seller, or the same order twice
			for _, o2 := range g.V.OrderList {
				if obs.Addr(o2.Seller) == seller && g.chance(0.3) {
					o = o2
					break
				}
			}
		} else if g.chance(0.3) {
			// a later entry naming SOMEONE ELSE's order (must be rejected)
			if o2 := g.order(); o2 != nil {
				o = o2
			}
		}
	}
	if g.hostile() && g.chance(0.2) {
		m.Updates[0].SellOrderId = o.Id + 1000
	}
	return tx(m)
}

func (g *Gen) genCancelSell() *eng.Tx {
	o := g.order()
	if o == nil {
		return nil
	}
	id := o.Id
	if g.hostile() && g.chance(0.2) {
		id += 1000
	}
	signer := g.owner(obs.Addr(o.Seller))
	if signer != obs.Addr(o.Seller) && g.chance(0.6) {
		// a wrong signer who has escrowed credits of the same batch (another seller of that batch)
		for _, o2 := range g.V.OrderList {
			if o2.BatchKey == o.BatchKey && obs.Addr(o2.Seller) != obs.Addr(o.Seller) {
				signer = obs.Addr(o2.Seller)
				break
			}
		}
	}
	return tx(&markettypes.MsgCancelSellOrder{Seller: signer, SellOrderId: id})
}

func (g *Gen) feeRate(s string) *big.Rat {
	r, err := ref.DecOrZero(s)
	if err != nil {
		return new(big.Rat)
	}
	return r
}

// buyMaxFeeOmitted: one message, two orders of one market from sellers other than the buyer; the first
// entry states a generous max fee, the second states none although its buyer fee is at least one base
// unit — otherwise both entries are in order (exact bids, quantities within the orders, a funded buyer).
// The second entry's own (absent = zero) max fee does not cover its fee: the purchase must be refused.
func (g *Gen) buyMaxFeeOmitted() *eng.Tx {
	if g.V.FeeParams == nil {
		return nil
	}
	bf := g.feeRate(g.V.FeeParams.BuyerPercentageFee)
	if bf.Sign() <= 0 {
		return nil
	}
	type cand struct {
		o    *marketapi.SellOrder
		ask  *big.Int
		q    *big.Rat
		fee  *big.Int
		cost *big.Rat
	}
	byMarket := map[uint64][]cand{}
	var mids []uint64
	for _, o := range g.V.OrderList {
		ask, _ := new(big.Int).SetString(o.AskAmount, 10)
		q := ref.MustDec(o.Quantity)
		if ask == nil || q == nil || q.Sign() <= 0 {
			continue
		}
		if o.Expiration != nil && !time.Unix(o.Expiration.Seconds, int64(o.Expiration.Nanos)).After(g.Now) {
			continue
		}
		sub := new(big.Rat).Mul(q, new(big.Rat).SetInt(ask))
		if len(sub.Num().String()) > 30 {
			continue
		}
		fee := ref.Trunc(new(big.Rat).Mul(sub, bf))
		if len(byMarket[o.MarketId]) == 0 {
			mids = append(mids, o.MarketId)
		}
		byMarket[o.MarketId] = append(byMarket[o.MarketId], cand{o, ask, q, fee, new(big.Rat).Mul(sub, new(big.Rat).Add(big.NewRat(1, 1), bf))})
	}
	sort.Slice(mids, func(i, j int) bool { return mids[i] < mids[j] })
	for _, mid := range mids {
		cs := byMarket[mid]
		mk := g.V.Markets[mid]
		if mk == nil || len(cs) < 2 {
			continue
		}
		for i := range cs {
			for j := range cs {
				a, b := cs[i], cs[j]
				if i == j || b.fee.Sign() <= 0 {
					continue
				}
				total := new(big.Rat).Add(a.cost, b.cost)
				for _, buyer := range g.A {
					if buyer == obs.Addr(a.o.Seller) || buyer == obs.Addr(b.o.Seller) {
						continue
					}
					if new(big.Rat).SetInt(g.S.BankOf(buyer, mk.BankDenom)).Cmp(total) <= 0 {
						continue
					}
					mf := g.coin(mk.BankDenom, new(big.Int).Add(new(big.Int).Add(new(big.Int).Mul(a.fee, big.NewInt(2)), b.fee), big.NewInt(10)))
					bidA, bidB := g.coin(mk.BankDenom, a.ask), g.coin(mk.BankDenom, b.ask)
					return &eng.Tx{Msgs: []sdk.Msg{&markettypes.MsgBuyDirect{Buyer: buyer, Orders: []*markettypes.MsgBuyDirect_Order{
						{SellOrderId: a.o.Id, Quantity: a.o.Quantity, BidPrice: &bidA, DisableAutoRetire: a.o.DisableAutoRetire, RetirementJurisdiction: "US", MaxFeeAmount: &mf},
						{SellOrderId: b.o.Id, Quantity: b.o.Quantity, BidPrice: &bidB, DisableAutoRetire: b.o.DisableAutoRetire, RetirementJurisdiction: "US"},
					}}}, Tag: "buy/max-fee-omitted-in-second-entry"}
				}
			}
		}
	}
	return nil
}

func (g *Gen) genBuy() *eng.Tx {
	if g.chance(0.06) {
		if t := g.buyMaxFeeOmitted(); t != nil {
			return t
		}
	}
	o := g.order()
	if o == nil {
		return nil
	}
	seller := obs.Addr(o.Seller)
	buyer := g.otherActor(seller)
	if mk0 := g.V.Markets[o.MarketId]; mk0 != nil && g.chance(0.5) {
		// prefer the richest actor in the order's ask denom (basket tokens and scarce denoms are
		// held by few accounts)
		best := new(big.Int)
		for _, a := range g.A {
			if a == seller {
				continue
			}
			if b := g.S.BankOf(a, mk0.BankDenom); b.Cmp(best) > 0 {
				best, buyer = b, a
			}
		}
	}
	if g.hostile() && g.chance(0.2) {
		// buying one's own order (must be refused) — more often than not with the buyer's address in
		// bech32's upper-case spelling: the same account, but not the same string as the stored seller
		buyer = seller
		if g.chance(0.6) {
			buyer = strings.ToUpper(seller)
		}
	}
	m := &markettypes.MsgBuyDirect{Buyer: buyer}
	prevDenom := ""
	crossMarket := false
	var prevOrderID uint64
	prevQty := ""
	n := 1
	if g.chance(0.3) {
		n = 2 + g.R.Intn(2)
		if g.chance(0.6) {
			g.quiet = true
			defer func() { g.quiet = false }()
		}
	}
	for i := 0; i < n; i++ {
		mk := g.V.Markets[o.MarketId]
		if mk == nil {
			return nil
		}
		q := ref.MustDec(o.Quantity)
		if q == nil {
			return nil
		}
		ask, _ := new(big.Int).SetString(o.AskAmount, 10)
		if ask == nil {
			return nil
		}
		var qty string
		switch g.R.Intn(6) {
		case 0:
			qty = o.Quantity // full
		case 1:
			qty = trimDec(ratToDec(q, 6))
		case 2:
			if g.hostile() { // over-asking
				qty = trimDec(ratToDec(new(big.Rat).Add(q, big.NewRat(1, 1000000)), 6))
			} else {
				qty = "0.000001"
			}
		default:
			qty = g.amountUpTo(q)
		}
		if prevOrderID == o.Id && prevQty != "" && g.chance(0.5) {
			qty = prevQty // the same order again for the same quantity (e.g. twice the full order)
		}
		prevOrderID, prevQty = o.Id, qty
		if ask.Cmp(big.NewInt(20)) <= 0 && g.chance(0.35) {
			// unit-scale purchase: a subtotal of one to two base units (every settlement amount is then
			// next to the truncation boundaries 0/1/2)
			f := new(big.Rat).SetFrac(big.NewInt(int64(1000000+g.R.Intn(1000000))), new(big.Int).Mul(ask, big.NewInt(1000000)))
			if f.Cmp(q) <= 0 {
				qty = trimDec(ratToDec(f, 6))
			}
		}
		bid := new(big.Int).Set(ask)
		switch g.R.Intn(6) {
		case 0:
			bid.Add(bid, big.NewInt(int64(1+g.R.Intn(1000))))
		case 1:
			if g.hostile() {
				bid.Sub(bid, big.NewInt(1))
				if bid.Sign() <= 0 {
					bid.SetInt64(1)
				}
			}
		}
		den := mk.BankDenom
		if crossMarket && prevDenom != "" && prevDenom != mk.BankDenom && g.chance(0.5) {
			den = prevDenom // the client keeps bidding in the previous entry's denom
			if g.chance(0.6) {
				qty = o.Quantity // a material purchase: the whole order
			}
		} else if g.hostile() && g.chance(0.35) {
			// bid in a foreign denom: the denom of the previous entry of this message (a plausible
			// client-side confusion) or a random one
			if prevDenom != "" && prevDenom != mk.BankDenom && g.chance(0.7) {
				den = prevDenom
			} else {
				den = g.bankDenom()
			}
		}
		prevDenom = mk.BankDenom
		bc := g.coin(den, bid)
		ord := &markettypes.MsgBuyDirect_Order{SellOrderId: o.Id, Quantity: qty, BidPrice: &bc}
		ord.DisableAutoRetire = o.DisableAutoRetire && g.chance(0.6)
		if g.hostile() && g.chance(0.2) {
			ord.DisableAutoRetire = !ord.DisableAutoRetire
		}
		if !ord.DisableAutoRetire || g.chance(0.2) {
			ord.RetirementJurisdiction = g.jurisdiction()
			ord.RetirementReason = g.reason()
		}
		// max fee: computed from the fee params so that most purchases clear; sometimes too small/absent
		var bf *big.Rat
		if g.V.FeeParams != nil {
			bf = g.feeRate(g.V.FeeParams.BuyerPercentageFee)
		} else {
			bf = new(big.Rat)
		}
		if qr := ref.MustDec(qty); qr != nil {
			fee := new(big.Rat).Mul(new(big.Rat).Mul(qr, new(big.Rat).SetInt(ask)), bf)
			fi := ref.Trunc(fee)
			switch g.R.Intn(8) {
			case 0:
				// absent
			case 1:
				if fi.Sign() > 0 {
					c := g.coin(mk.BankDenom, new(big.Int).Sub(fi, big.NewInt(1))) // one unit too small
					ord.MaxFeeAmount = &c
				}
			case 2:
				c := g.coin(mk.BankDenom, fi) // exactly the floor
				ord.MaxFeeAmount = &c
			case 3:
				if g.hostile() {
					c := g.coin(g.bankDenom(), new(big.Int).Add(fi, big.NewInt(5))) // possibly a foreign denom
					ord.MaxFeeAmount = &c
				} else {
					c := g.coin(mk.BankDenom, new(big.Int).Add(fi, big.NewInt(1)))
					ord.MaxFeeAmount = &c
				}
			default:
				c := g.coin(mk.BankDenom, new(big.Int).Add(new(big.Int).Mul(fi, big.NewInt(2)), big.NewInt(10)))
				ord.MaxFeeAmount = &c
			}
		}
		if den != mk.BankDenom && g.chance(0.8) {
			// a client that believes the order is priced in `den` also states its max fee in `den`
			if g.chance(0.3) {
				ord.MaxFeeAmount = nil
			} else {
				c := g.coin(den, new(big.Int).Mul(bid, big.NewInt(1000000)))
				ord.MaxFeeAmount = &c
			}
		}
		m.Orders = append(m.Orders, ord)
		// next order: same order again, or another order (possibly another seller); sometimes
		// deliberately an order of the same credit type in a DIFFERENT market (other ask denom)
		if g.chance(0.6) {
			var pickd *marketapi.SellOrder
			if g.chance(0.4) {
				for k := 0; k < 10; k++ {
					o2 := g.order()
					if o2 == nil {
						break
					}
					m2 := g.V.Markets[o2.MarketId]
					if m2 != nil && m2.CreditTypeAbbrev == mk.CreditTypeAbbrev && m2.BankDenom != mk.BankDenom && obs.Addr(o2.Seller) != buyer {
						pickd = o2
						crossMarket = true
						break
					}
				}
			}
			if pickd == nil {
				if o2 := g.order(); o2 != nil && obs.Addr(o2.Seller) != buyer {
					pickd = o2
				}
			}
			if pickd != nil {
				o = pickd
			}
		}
	}
	return tx(m)
}

func (g *Gen) genAllowedDenom() *eng.Tx {
	d := g.bankDenom()
	// basket tokens are bank denoms too: governance may allow them as ask denoms
	if len(g.V.BasketList) > 0 && g.chance(0.25) {
		d = g.V.BasketList[g.R.Intn(len(g.V.BasketList))].BasketDenom
	}
	if g.chance(0.65) {
		return tx(&markettypes.MsgAddAllowedDenom{Authority: g.govSigner(), BankDenom: d, DisplayDenom: strings.TrimPrefix(d, "u"), Exponent: 6})
	}
	return tx(&markettypes.MsgRemoveAllowedDenom{Authority: g.govSigner(), Denom: d})
}

var FeeRates = []string{"", "0", "0.0", "0.000001", "0.01", "0.02", "0.05", "0.5", "0.333333333333333333333333333333333333", "1"}

// randomRate: a fee rate in [0, 1) with 1..24 decimal places (the number of decimal places of the rate
// decides the number of decimal places of every settlement amount before it is truncated to coins).
func (g *Gen) randomRate() string {
	n := 1 + g.R.Intn(24)
	lead := g.R.Intn(n) // leading zeros after the point
	if g.chance(0.5) && n > 2 {
		lead = 1 + g.R.Intn(2) // a realistic rate: a few per cent, many decimals
	}
	b := make([]byte, n)
	for i := range b {
		switch {
		case i < lead:
			b[i] = '0'
		case i == n-1:
			b[i] = byte('1' + g.R.Intn(9)) // no trailing zero: exactly n decimal places
		default:
			b[i] = byte('0' + g.R.Intn(10))
		}
	}
	return "0." + string(b)
}

func (g *Gen) genFeeParams() *eng.Tx {
	b := FeeRates[g.R.Intn(len(FeeRates))]
	s := FeeRates[g.R.Intn(len(FeeRates))]
	if g.chance(0.4) {
		b = g.randomRate()
	}
	if g.chance(0.4) {
		s = g.randomRate()
	}
	if g.chance(0.12) {
		// one rate left unset ("": accepted, means no fee) while the other is a real rate
		if g.chance(0.5) {
			b = ""
			if ref.MustDec(s) == nil || ref.MustDec(s).Sign() == 0 {
				s = "0.05"
			}
		} else {
			s = ""
			if ref.MustDec(b) == nil || ref.MustDec(b).Sign() == 0 {
				b = "0.05"
			}
		}
	}
	if g.hostile() && g.chance(0.3) {
		b = []string{"-0.1", "abc", "1.5", " 0.02", "0.02 ", " ", "+0.02", ".02", "2E-2", "0.020"}[g.R.Intn(10)]
		if g.chance(0.5) {
			b, s = s, b // the odd spelling in the seller rate instead
		}
	}
	return tx(&markettypes.MsgGovSetFeeParams{Authority: g.govSigner(), Fees: &markettypes.FeeParams{BuyerPercentageFee: b, SellerPercentageFee: s}})
}

func (g *Gen) genFeePoolSend() *eng.Tx {
	pool := sdk.AccAddress(nil)
	_ = pool
	poolAddr := feePoolAddr()
	bal := g.S.Bank[poolAddr]
	ds := sortedKeys(bal)
	var coins sdk.Coins
	if len(ds) > 0 {
		d := ds[g.R.Intn(len(ds))]
		amt := new(big.Int).Set(bal[d])
		if g.chance(0.5) {
			amt.Quo(amt, big.NewInt(2))
		}
		if g.hostile() && g.chance(0.3) {
			amt.Add(amt, big.NewInt(1))
		}
		if amt.Sign() > 0 {
			coins = sdk.Coins{g.coin(d, amt)}
		}
	}
	if coins == nil {
		coins = sdk.Coins{g.coin("stake", big.NewInt(1))}
	}
	return tx(&markettypes.MsgGovSendFromFeePool{Authority: g.govSigner(), Recipient: g.recipient(), Coins: coins})
}

// ---------- data ----------

func (g *Gen) contentBytes() []byte {
	// heavy repetition of earlier hashes
	if len(g.contentPool) > 0 && g.chance(0.55) {
		return g.contentPool[g.R.Intn(len(g.contentPool))]
	}
	if len(g.contentPool) > 0 && g.chance(0.25) {
		// a sibling of an earlier hash: last or first byte changed, one byte shorter or longer
		o := g.contentPool[g.R.Intn(len(g.contentPool))]
		b := append([]byte(nil), o...)
		switch g.R.Intn(4) {
		case 0:
			b[len(b)-1] ^= byte(1 + g.R.Intn(255))
		case 1:
			b[0] ^= byte(1 + g.R.Intn(255))
		case 2:
			if len(b) > 20 {
				b = b[:len(b)-1]
			}
		default:
			if len(b) < 64 {
				b = append(b, byte(g.R.Intn(256)))
			}
		}
		g.contentPool = append(g.contentPool, b)
		return b
	}
	h := sha256.Sum256([]byte(fmt.Sprintf("content-%d", g.R.Intn(1<<30))))
	n := []int{32, 20, 64, 32, 63, 48, 64, 21}[g.R.Intn(8)]
	b := append([]byte(nil), h[:]...)
	for len(b) < n {
		b = append(b, h[:]...)
	}
	b = b[:n]
	g.contentPool = append(g.contentPool, b)
	if len(g.contentPool) > 400 {
		g.contentPool = g.contentPool[200:]
	}
	return b
}

func (g *Gen) graphHash() *data.ContentHash_Graph {
	h := &data.ContentHash_Graph{Hash: g.contentBytes(), DigestAlgorithm: 1, CanonicalizationAlgorithm: 1}
	if g.chance(0.2) {
		h.MerkleTree = uint32(g.R.Intn(3))
	}
	if g.chance(0.15) {
		h.DigestAlgorithm = uint32(1 + g.R.Intn(3))
	}
	if g.hostile() && g.chance(0.3) {
		switch g.R.Intn(3) {
		case 0:
			h.Hash = h.Hash[:10]
		case 1:
			h.DigestAlgorithm = 0
		case 2:
			h.CanonicalizationAlgorithm = 0
		}
	}
	return h
}

func (g *Gen) rawHash() *data.ContentHash_Raw {
	h := &data.ContentHash_Raw{Hash: g.contentBytes(), DigestAlgorithm: 1, FileExtension: []string{"csv", "json", "pdf", "txt", "bin", "jp2", "tar7z", "rdf"}[g.R.Intn(8)]}
	if g.hostile() && g.chance(0.3) {
		h.FileExtension = []string{"CSV", "x", "toolong7", "a.b", ".abc", "ab."}[g.R.Intn(6)]
	}
	return h
}

func (g *Gen) contentHash() *data.ContentHash {
	if g.chance(0.5) {
		return &data.ContentHash{Graph: g.graphHash()}
	}
	return &data.ContentHash{Raw: g.rawHash()}
}

func (g *Gen) genAnchor() *eng.Tx {
	return tx(&data.MsgAnchor{Sender: g.actor(), ContentHash: g.contentHash()})
}

func (g *Gen) genAttest() *eng.Tx {
	m := &data.MsgAttest{Attestor: g.actor()}
	n := 1 + g.R.Intn(3)
	for i := 0; i < n; i++ {
		h := g.graphHash()
		m.ContentHashes = append(m.ContentHashes, h)
		if g.chance(0.3) {
			m.ContentHashes = append(m.ContentHashes, h) // duplicate inside one message
		}
	}
	return tx(m)
}

func (g *Gen) genDefineResolver() *eng.Tx {
	if len(g.V.ResolverList) > 40 {
		return nil
	}
	u := fmt.Sprintf("https://resolver-%d.example/data", g.R.Intn(6)) // duplicate URLs happen
	if g.hostile() && g.chance(0.3) {
		u = []string{"", "not a url", "://x"}[g.R.Intn(3)]
	}
	return tx(&data.MsgDefineResolver{Definer: g.actor(), ResolverUrl: u, Public: g.chance(0.3)})
}

// genBatchCombo: issue a batch, put some of it into a basket and take it out again in ONE transaction
// (the batch denom is predictable from the batch sequence and the dates). Half of the time a later
// message fails, the transaction is reverted, and — scripted follow-up — a batch of ANOTHER project is
// issued first (it gets the rolled-back table key), then the original batch is issued again (same
// denom, since the sequence was rolled back too, but another key), put into the basket and taken out.
// The batch is made the oldest of the basket so that the Take really draws from it.
// genBasketCombo: a basket is created and taken from in ONE transaction; the take fails (nobody holds its
// tokens yet) and everything is reverted. Another basket is created next (it receives the rolled-back
// table id), then the first name is created for real; credits of one batch go into both and the owner
// takes from each — every take must draw on the basket it names.
func (g *Gen) genBasketCombo() *eng.Tx {
	if len(g.V.BasketList) >= g.P.MaxBaskets+10 {
		return nil
	}
	// a holder with tradable credits in a class
	var h *obs.Bal
	var keys []obs.BalKey
	for k := range g.V.Balances {
		keys = append(keys, k)
	}
	sort.Slice(keys, func(i, j int) bool {
		if keys[i].BatchKey != keys[j].BatchKey {
			return keys[i].BatchKey < keys[j].BatchKey
		}
		return keys[i].Addr < keys[j].Addr
	})
	for _, k := range keys {
		bal := g.V.Balances[k]
		if bal.T != nil && bal.T.Cmp(big.NewRat(40, 1)) > 0 && bal.T.Cmp(big.NewRat(1000000000, 1)) < 0 && (h == nil || g.chance(0.2)) {
			h = bal
		}
	}
	if h == nil {
		return nil
	}
	b := g.V.Batches[h.Row.BatchKey]
	if b == nil {
		return nil
	}
	pr := g.V.Projects[b.ProjectKey]
	if pr == nil {
		return nil
	}
	c := g.V.Classes[pr.ClassKey]
	if c == nil {
		return nil
	}
	owner := obs.Addr(h.Row.Address)
	g.basketSeq++
	n1, n2 := fmt.Sprintf("KA%d", g.basketSeq), fmt.Sprintf("KB%d", g.basketSeq)
	d1, d2 := "eco.u"+c.CreditTypeAbbrev+"."+n1, "eco.u"+c.CreditTypeAbbrev+"."+n2
	create := func(name string) *baskettypes.MsgCreate {
		m := &baskettypes.MsgCreate{Curator: owner, Name: name, Description: "combo", DisableAutoRetire: true, CreditTypeAbbrev: c.CreditTypeAbbrev, AllowedClasses: []string{c.Id}}
		if g.V.BasketFee != nil && g.V.BasketFee.Fee != nil {
			if f := storedFee(g.V.BasketFee.Fee); f != nil {
				m.Fee = sdk.Coins{*f}
			}
		}
		return m
	}
	one := func(tag string, m func() sdk.Msg) func() *eng.Tx {
		return func() *eng.Tx { return &eng.Tx{Msgs: []sdk.Msg{m()}, Tag: tag} }
	}
	put := func(d, amt string) func() sdk.Msg {
		return func() sdk.Msg {
			return &baskettypes.MsgPut{Owner: owner, BasketDenom: d, Credits: []*baskettypes.BasketCredit{{BatchDenom: b.Denom, Amount: amt}}}
		}
	}
	take := func(d, amt string) func() sdk.Msg {
		return func() sdk.Msg {
			return &baskettypes.MsgTake{Owner: owner, BasketDenom: d, Amount: amt, RetireOnTake: false}
		}
	}
	g.script = append(g.script,
		one("basket_combo/other", func() sdk.Msg { return create(n2) }),
		one("basket_combo/recreate", func() sdk.Msg { return create(n1) }),
		one("basket_combo/put-other", put(d2, "10")),
		one("basket_combo/put", put(d1, "6")),
		one("basket_combo/take", take(d1, "4000000")),
		one("basket_combo/take-other", take(d2, "3000000")))
	return &eng.Tx{Msgs: []sdk.Msg{create(n1), &baskettypes.MsgTake{Owner: owner, BasketDenom: d1, Amount: "1000000", RetireOnTake: false}}, Tag: "basket_combo"}
}

func (g *Gen) genBatchCombo() *eng.Tx {
	if len(g.V.BatchList) >= g.P.MaxBatches+20 || len(g.V.ProjectList) < 2 {
		return nil
	}
	var bk *basketapi.Basket
	for _, b := range g.V.BasketList {
		if b.DateCriteria == nil && b.DisableAutoRetire {
			bk = b
			break
		}
	}
	if bk == nil {
		return nil
	}
	// a project whose class the basket accepts, and another project
	var p, p2 *baseapi.Project
	for _, x := range g.V.ProjectList {
		c := g.V.Classes[x.ClassKey]
		if c == nil || len(g.V.Issuers[c.Key]) == 0 {
			continue
		}
		if p == nil && c.CreditTypeAbbrev == bk.CreditTypeAbbrev && g.V.BasketClasses[bk.Id][c.Id] {
			p = x
		} else if p2 == nil {
			p2 = x
		}
	}
	if p == nil || p2 == nil {
		return nil
	}
	iss := sortedKeys(g.V.Issuers[p.ClassKey])[0]
	iss2 := sortedKeys(g.V.Issuers[p2.ClassKey])[0]
	g.refSeq++
	start := time.Date(1850, 1, 1, 0, 0, 0, 0, time.UTC).AddDate(0, 0, -g.refSeq) // older than everything else
	end := start.AddDate(1, 0, 0)
	seq := g.V.BatchSeq[p.Key]
	if seq == 0 {
		seq = 1
	}
	denom, err := base.FormatBatchDenom(p.Id, seq, &start, &end)
	if err != nil || g.V.BatchByDenom[denom] != nil {
		return nil
	}
	create := func() sdk.Msg {
		s, e := start, end
		return &basetypes.MsgCreateBatch{Issuer: iss, ProjectId: p.Id, Metadata: "combo", StartDate: &s, EndDate: &e,
			Issuance: []*basetypes.BatchIssuance{{Recipient: iss, TradableAmount: "100"}}}
	}
	put := func() sdk.Msg {
		return &baskettypes.MsgPut{Owner: iss, BasketDenom: bk.BasketDenom, Credits: []*baskettypes.BasketCredit{{BatchDenom: denom, Amount: "4"}}}
	}
	take := func() sdk.Msg {
		return &baskettypes.MsgTake{Owner: iss, BasketDenom: bk.BasketDenom, Amount: "4000000", RetireOnTake: false}
	}
	msgs := []sdk.Msg{create(), put(), take()}
	if g.chance(0.5) {
		msgs = append(msgs, &baskettypes.MsgTake{Owner: iss, BasketDenom: bk.BasketDenom + "x", Amount: "1"}) // unknown basket: fails
		s2, e2 := time.Date(2019, 1, 1, 0, 0, 0, 0, time.UTC), time.Date(2019, 6, 1, 0, 0, 0, 0, time.UTC)
		g.script = append(g.script,
			func() *eng.Tx {
				return &eng.Tx{Msgs: []sdk.Msg{&basetypes.MsgCreateBatch{Issuer: iss2, ProjectId: p2.Id, Metadata: "combo-other", StartDate: &s2, EndDate: &e2,
					Issuance: []*basetypes.BatchIssuance{{Recipient: iss2, TradableAmount: "100"}}}}, Tag: "batch_combo/other-project"}
			},
			func() *eng.Tx { return &eng.Tx{Msgs: []sdk.Msg{create()}, Tag: "batch_combo/reissue"} },
			func() *eng.Tx { return &eng.Tx{Msgs: []sdk.Msg{put()}, Tag: "batch_combo/put"} },
			func() *eng.Tx { return &eng.Tx{Msgs: []sdk.Msg{take()}, Tag: "batch_combo/take"} })
	}
	return &eng.Tx{Msgs: msgs, Tag: "batch_combo"}
}

// genResolverCombo: a client defines a resolver and registers data to it in ONE transaction (the new
// id is predictable: auto-increment). Half of the time a later message of the transaction fails, so the
// whole transaction is reverted and the id is handed out again — scripted follow-up: another account
// defines a resolver (gets that id), the reverted definer tries to register to it (must be refused:
// it never became the manager), the real manager registers (must be accepted).
func (g *Gen) genResolverCombo() *eng.Tx {
	if len(g.V.ResolverList) > 60 {
		return nil
	}
	var next uint64 = 1
	for _, r := range g.V.ResolverList {
		if r.Id >= next {
			next = r.Id + 1
		}
	}
	g.refSeq++
	definer := g.actor()
	other := g.otherActor(definer)
	url := fmt.Sprintf("https://combo-%d.example/a", g.refSeq)
	url2 := fmt.Sprintf("https://combo-%d.example/b", g.refSeq)
	public := g.chance(0.3)
	msgs := []sdk.Msg{
		&data.MsgDefineResolver{Definer: definer, ResolverUrl: url, Public: public},
		&data.MsgRegisterResolver{Signer: definer, ResolverId: next, ContentHashes: []*data.ContentHash{g.contentHash()}},
	}
	if g.chance(0.5) {
		// unknown resolver: this message fails and the transaction is reverted
		msgs = append(msgs, &data.MsgRegisterResolver{Signer: definer, ResolverId: next + 100000, ContentHashes: []*data.ContentHash{g.contentHash()}})
		h1, h2 := g.contentHash(), g.contentHash()
		g.script = append(g.script,
			func() *eng.Tx {
				return &eng.Tx{Msgs: []sdk.Msg{&data.MsgDefineResolver{Definer: other, ResolverUrl: url2, Public: false}}, Tag: "resolver_combo/redefine"}
			},
			func() *eng.Tx {
				return &eng.Tx{Msgs: []sdk.Msg{&data.MsgRegisterResolver{Signer: definer, ResolverId: next, ContentHashes: []*data.ContentHash{h1}}}, Tag: "resolver_combo/reverted-definer"}
			},
			func() *eng.Tx {
				return &eng.Tx{Msgs: []sdk.Msg{&data.MsgRegisterResolver{Signer: other, ResolverId: next, ContentHashes: []*data.ContentHash{h2}}}, Tag: "resolver_combo/manager"}
			})
	}
	return &eng.Tx{Msgs: msgs, Tag: "resolver_combo"}
}

func (g *Gen) genRegisterResolver() *eng.Tx {
	if len(g.V.ResolverList) == 0 {
		return nil
	}
	r := g.V.ResolverList[g.R.Intn(len(g.V.ResolverList))]
	signer := obs.Addr(r.Manager)
	if signer == "" || g.hostile() {
		signer = g.actor()
	}
	id := r.Id
	if g.hostile() && g.chance(0.2) {
		id += 500
	}
	m := &data.MsgRegisterResolver{Signer: signer, ResolverId: id}
	n := 1 + g.R.Intn(3)
	for i := 0; i < n; i++ {
		m.ContentHashes = append(m.ContentHashes, g.contentHash())
	}
	return tx(m)
}

// genBasketTokenMarket: basket tokens used as a marketplace ask denomination — governance allows a
// basket denom, a holder sells credits priced in it, a basket-token holder buys (fees are then paid
// in basket tokens, which must stay fully backed).
func (g *Gen) genBasketTokenMarket() *eng.Tx {
	if len(g.V.BasketList) == 0 {
		return nil
	}
	var allowed []string
	for _, bk := range g.V.BasketList {
		if g.V.AllowedDenoms[bk.BasketDenom] != nil {
			allowed = append(allowed, bk.BasketDenom)
		}
	}
	if len(allowed) == 0 || g.chance(0.1) {
		bk := g.V.BasketList[g.R.Intn(len(g.V.BasketList))]
		return tx(&markettypes.MsgAddAllowedDenom{Authority: g.Gov, BankDenom: bk.BasketDenom, DisplayDenom: "eco." + bk.CreditTypeAbbrev + "." + bk.Name, Exponent: 6})
	}
	// an open order priced in basket tokens?
	var orders []*marketapi.SellOrder
	for _, o := range g.V.OrderList {
		if mk := g.V.Markets[o.MarketId]; mk != nil && strings.HasPrefix(mk.BankDenom, "eco.") {
			orders = append(orders, o)
		}
	}
	if len(orders) == 0 || g.chance(0.35) {
		h := g.holding()
		if h == nil || h.T.Sign() <= 0 {
			return nil
		}
		b := g.V.Batches[h.Row.BatchKey]
		if b == nil {
			return nil
		}
		g.quiet = true
		defer func() { g.quiet = false }()
		c := g.coin(allowed[g.R.Intn(len(allowed))], big.NewInt(int64(1+g.R.Intn(5000))))
		return tx(&markettypes.MsgSell{Seller: obs.Addr(h.Row.Address), Orders: []*markettypes.MsgSell_Order{{BatchDenom: b.Denom, Quantity: g.amountUpTo(new(big.Rat).Quo(h.T, big.NewRat(5, 1))), AskPrice: &c, DisableAutoRetire: true}}})
	}
	o := orders[g.R.Intn(len(orders))]
	mk := g.V.Markets[o.MarketId]
	ask, ok := new(big.Int).SetString(o.AskAmount, 10)
	q := ref.MustDec(o.Quantity)
	if !ok || q == nil {
		return nil
	}
	buyer, best := "", new(big.Int)
	for _, a := range g.A {
		if a != obs.Addr(o.Seller) {
			if bal := g.S.BankOf(a, mk.BankDenom); bal.Cmp(best) > 0 {
				best, buyer = bal, a
			}
		}
	}
	if buyer == "" {
		return nil
	}
	// buy what the buyer can afford (at most the whole order)
	afford := new(big.Rat).Quo(new(big.Rat).SetInt(best), new(big.Rat).Mul(new(big.Rat).SetInt(ask), big.NewRat(2, 1)))
	if afford.Cmp(q) > 0 {
		afford = q
	}
	g.quiet = true
	qty := g.amountUpTo(afford)
	g.quiet = false
	bid := g.coin(mk.BankDenom, ask)
	mf := g.coin(mk.BankDenom, best)
	return tx(&markettypes.MsgBuyDirect{Buyer: buyer, Orders: []*markettypes.MsgBuyDirect_Order{{SellOrderId: o.Id, Quantity: qty, BidPrice: &bid, DisableAutoRetire: true, MaxFeeAmount: &mf}}})
}

func (g *Gen) isActor(a string) bool {
	for _, x := range g.A {
		if x == a {
			return true
		}
	}
	return false
}
