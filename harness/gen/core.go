// Package gen is the hostile, state-aware workload generator. All choices derive from one seeded
// PRNG; it reads the actual chain state (through obs snapshots) to pick targets and then damages a
// configurable fraction of what it produces.
package gen

import (
	"crypto/sha256"
	"fmt"
	"math/big"
	"math/rand"
	"sort"
	"strings"
	"time"

	sdk "github.com/cosmos/cosmos-sdk/types"
	authtypes "github.com/cosmos/cosmos-sdk/x/auth/types"
	basketapi "github.com/regen-network/regen-ledger/api/v2/regen/ecocredit/basket/v1"

	"verifharness/chain"
	"verifharness/eng"
	"verifharness/obs"
	"verifharness/ref"
)

const NActors = 8

// Actor addresses are deterministic.
func ActorAddr(i int) sdk.AccAddress {
	h := sha256.Sum256([]byte(fmt.Sprintf("verif-actor-%d", i)))
	if i == LongActor {
		// a 32-byte account address, the length of every derived account (group policy accounts — which
		// hold class admin and issuer roles on the real chain —, module sub-accounts, interchain accounts)
		return sdk.AccAddress(h[:])
	}
	return sdk.AccAddress(h[:20])
}

// LongActor is the index of the actor whose address is 32 bytes long instead of 20.
const LongActor = 3

func Actors() []string {
	var out []string
	for i := 0; i < NActors; i++ {
		out = append(out, ActorAddr(i).String())
	}
	return out
}

func GovAddr() string { return authtypes.NewModuleAddress(chain.GovModule).String() }

var BankDenoms = []string{"stake", "uregen", "uatom", "ibc/27394FB092D2ECCD56123C74F36E4C1F926001CEADA9CA97EA622B25F41E5EB2"}

// Profile tilts the message mix.
type Profile struct {
	Name     string
	Weights  map[string]int // generator name → weight
	Hostile  float64        // probability of damaging a generated message
	Extreme  float64        // probability of an extreme-magnitude amount where amounts are free
	Boundary float64        // probability of aiming a batch start date at a basket criterion boundary
	// MaxBatches etc. bound the state size.
	MaxClasses, MaxProjects, MaxBatches, MaxBaskets, MaxOrders int
	BlockEvery                                                 int // average txs per block
}

type Gen struct {
	R   *rand.Rand
	P   Profile
	S   *obs.Snapshot // latest state
	V   *obs.View
	Now time.Time // current block time
	Gov string
	A   []string // actor addresses

	// memory of former role holders, for hostile signer choice
	formerClassAdmins   map[string][]string
	formerProjectAdmins map[string][]string
	formerIssuers       map[string][]string
	formerCurators      map[string][]string
	usedOrigin          []originRef
	usedContracts       []string
	basketSeq           int
	refSeq              int
	gens                []namedGen
	total               int
	contentPool         [][]byte
	resolverURLs        []string
	modules             map[string]bool
	Panics              int
	boundaryStartUsed   bool
	boundaryBasket      *basketapi.Basket // the basket the last boundaryStart() aimed at
	quiet               bool              // suppress per-field hostility (multi-entry messages must have a chance to succeed)
	windowOnly          bool              // nearBoundaryPut considers moving-window criteria only
	related             []string          // role holders on the entities the current generator looked at (see noteRelated)
	script              []func() *eng.Tx  // follow-up steps queued by a scenario generator; drained before random choice
}

type originRef struct{ ClassID, ID, Source string }

type namedGen struct {
	name string
	w    int
	f    func() *eng.Tx
}

func New(seed int64, p Profile) *Gen {
	g := &Gen{R: rand.New(rand.NewSource(seed)), P: p, Gov: GovAddr(), A: Actors(),
		formerClassAdmins: map[string][]string{}, formerProjectAdmins: map[string][]string{},
		formerIssuers: map[string][]string{}, formerCurators: map[string][]string{}}
	g.register()
	return g
}

func (g *Gen) Observe(s *obs.Snapshot, now time.Time) {
	g.S = s
	g.V = s.V()
	g.Now = now
}

func (g *Gen) add(name string, f func() *eng.Tx) {
	w := g.P.Weights[name]
	if w == 0 {
		if d, ok := g.P.Weights["*"]; ok {
			w = d
		}
	}
	if w <= 0 {
		return
	}
	g.gens = append(g.gens, namedGen{name, w, f})
	g.total += w
}

// Next proposes the next transaction (possibly multi-message).
func (g *Gen) Next() *eng.Tx {
	for len(g.script) > 0 {
		f := g.script[0]
		g.script = g.script[1:]
		if tx := g.safe(f); tx != nil {
			return tx
		}
	}
	for tries := 0; tries < 50; tries++ {
		n := g.R.Intn(g.total)
		var ng namedGen
		for _, c := range g.gens {
			if n < c.w {
				ng = c
				break
			}
			n -= c.w
		}
		g.related = g.related[:0]
		tx := g.safe(ng.f)
		if tx == nil {
			continue
		}
		if tx.Tag == "" {
			tx.Tag = ng.name
		}
		// multi-message transactions: sometimes append a second (possibly failing) message
		if g.R.Float64() < 0.06 {
			for k := 0; k < 5; k++ {
				o := g.gens[g.R.Intn(len(g.gens))]
				t2 := g.safe(o.f)
				if t2 != nil {
					tx.Msgs = append(tx.Msgs, t2.Msgs...)
					tx.Tag += "+" + o.name
					break
				}
			}
		}
		// address spellings: sometimes one address field of the transaction is sent in bech32's
		// all-upper-case spelling (same account, different string)
		if !g.quiet && g.R.Float64() < 0.04 {
			if fs := eng.AddrFields(tx.Msgs); len(fs) > 0 {
				p := fs[g.R.Intn(len(fs))]
				*p = strings.ToUpper(*p)
			}
		}
		return tx
	}
	return nil
}

// safe shields the run from a generator bug (counted, visible in the evidence).
func (g *Gen) safe(f func() *eng.Tx) (tx *eng.Tx) {
	defer func() {
		if r := recover(); r != nil {
			g.Panics++
			tx = nil
		}
	}()
	return f()
}

// ---------- helpers ----------

func (g *Gen) chance(p float64) bool { return g.R.Float64() < p }
func (g *Gen) hostile() bool         { return !g.quiet && g.R.Float64() < g.P.Hostile }
func (g *Gen) actor() string         { return g.A[g.R.Intn(len(g.A))] }

func (g *Gen) otherActor(not string) string {
	for i := 0; i < 10; i++ {
		a := g.actor()
		if a != not {
			return a
		}
	}
	return g.actor()
}

// recipient: usually an actor, sometimes a fresh address, a module account.
func (g *Gen) recipient() string {
	switch x := g.R.Intn(20); {
	case x == 0:
		h := sha256.Sum256([]byte(fmt.Sprintf("fresh-%d", g.R.Intn(6))))
		return sdk.AccAddress(h[:20]).String()
	case x == 1:
		names := chain.ModuleAccountNames()
		return authtypes.NewModuleAddress(names[g.R.Intn(len(names))]).String()
	case x == 2:
		h := sha256.Sum256([]byte(fmt.Sprintf("fresh32-%d", g.R.Intn(3))))
		return sdk.AccAddress(h[:32]).String()
	}
	return g.actor()
}

func pick[T any](g *Gen, l []T) (T, bool) {
	var z T
	if len(l) == 0 {
		return z, false
	}
	return l[g.R.Intn(len(l))], true
}

// wrongSigner picks a signer that should NOT be authorised: former holders first.
func (g *Gen) wrongSigner(right string, former []string) string {
	switch g.R.Intn(5) {
	case 4, 3:
		// the holder of another role on the same or a related entity
		var c []string
		for _, a := range g.related {
			if a != right {
				c = append(c, a)
			}
		}
		if len(c) > 0 {
			return c[g.R.Intn(len(c))]
		}
	case 0:
		if len(former) > 0 {
			f := former[g.R.Intn(len(former))]
			if f != right {
				return f
			}
		}
	case 1:
		return g.Gov
	}
	return g.otherActor(right)
}

func remember(m map[string][]string, k, v string) {
	for _, x := range m[k] {
		if x == v {
			return
		}
	}
	m[k] = append(m[k], v)
}

// ---------- amounts ----------

func ratToDec(r *big.Rat, places int) string {
	// truncates to places
	s := r.FloatString(places + 2)
	if i := strings.IndexByte(s, '.'); i >= 0 {
		s = s[:i+1+places]
		if places == 0 {
			s = s[:i]
		}
	}
	return s
}

func trimDec(s string) string {
	if strings.Contains(s, ".") {
		s = strings.TrimRight(s, "0")
		s = strings.TrimRight(s, ".")
	}
	if s == "" {
		return "0"
	}
	return s
}

var junkAmounts = []string{".-5", "1.-5", ".-000001", "+.-12", "0.-5", "", "abc", "1.2.3", "NaN", "Infinity", "-1", "-0.000001", "0.0000001", "1.0000005", "+5", " 1", "1 ", "0x10", "١٢٣", "1e-7", "1_000", ".5", "5.", "-0", "1e400", "1e-400", "00", "0e0"}

// amountUpTo generates a credit amount relative to an available balance.
func (g *Gen) amountUpTo(avail *big.Rat) string {
	if avail == nil {
		avail = new(big.Rat)
	}
	if g.hostile() {
		switch g.R.Intn(7) {
		case 6:
			return g.overPrecise()
		case 0:
			return junkAmounts[g.R.Intn(len(junkAmounts))]
		case 1: // overdraw by the smallest unit
			return trimDec(ratToDec(new(big.Rat).Add(avail, big.NewRat(1, 1000000)), 6))
		case 2:
			return "0"
		case 3: // overdraw a lot
			return trimDec(ratToDec(new(big.Rat).Mul(avail, big.NewRat(3, 1)), 6)) + "1"
		case 4: // scientific notation of a small value
			// scientific notation, including exponents that end in a zero digit and mantissas with a point
			return []string{"1e0", "1E+1", "1.5e1", "2e-3", "1e-6", "25E-1", "1.5e10", "2.5E+10", "1.25e20", "1.0e1", "3.50e0", "1.5E1"}[g.R.Intn(12)]
		default:
			return trimDec(ratToDec(avail, 6)) + "0" // trailing zero form of the exact balance
		}
	}
	if avail.Sign() <= 0 {
		return []string{"1", "0.5", "0.000001", "10"}[g.R.Intn(4)]
	}
	switch g.R.Intn(10) {
	case 0: // exact
		return trimDec(ratToDec(avail, 6))
	case 1:
		return "0.000001"
	case 2: // balance minus one unit
		x := new(big.Rat).Sub(avail, big.NewRat(1, 1000000))
		if x.Sign() > 0 {
			return trimDec(ratToDec(x, 6))
		}
		return trimDec(ratToDec(avail, 6))
	case 3, 4: // integer part fraction
		f := new(big.Rat).Mul(avail, big.NewRat(int64(1+g.R.Intn(9)), 10))
		s := trimDec(ratToDec(f, 0))
		if s == "0" {
			return trimDec(ratToDec(f, 6))
		}
		return s
	default:
		f := new(big.Rat).Mul(avail, big.NewRat(int64(1+g.R.Intn(99)), int64(100+g.R.Intn(400))))
		s := trimDec(ratToDec(f, g.R.Intn(7)))
		if s == "0" {
			s = "0.000001"
		}
		return s
	}
}

// issueAmount generates an issuance amount (free magnitude).
// overPrecise: one decimal place more than the credit type allows (accepted by ValidateBasic, which
// cannot know the precision; must be rejected by every handler).
func (g *Gen) overPrecise() string {
	return fmt.Sprintf("%d.%06d%d", g.R.Intn(50), g.R.Intn(1000000), 1+g.R.Intn(9))
}

func (g *Gen) issueAmount() string {
	if g.hostile() && g.chance(0.5) {
		if g.chance(0.4) {
			return g.overPrecise()
		}
		return junkAmounts[g.R.Intn(len(junkAmounts))]
	}
	if g.chance(g.P.Extreme) {
		return []string{"9999999999999999999999999999.999999", "1000000000000000000000000000000", "123456789012345678901234567890.123456", "99999999999999999999999999999999999", "5000000000000000000000000000"}[g.R.Intn(5)]
	}
	switch g.R.Intn(8) {
	case 0:
		return "0.000001"
	case 1:
		return fmt.Sprintf("%d.%06d", g.R.Intn(1000), g.R.Intn(1000000))
	case 2:
		return fmt.Sprintf("%d", 1+g.R.Intn(1000000))
	case 3:
		return fmt.Sprintf("%d.%d", g.R.Intn(100000), g.R.Intn(1000))
	case 4:
		return "1000000000000000000000000" // 1e24
	case 5:
		return "0"
	default:
		return fmt.Sprintf("%d", 10+g.R.Intn(5000))
	}
}

func (g *Gen) metadata() string {
	switch g.R.Intn(12) {
	case 0, 4:
		return strings.Repeat("m", 256) // exactly the maximal length
	case 5:
		return strings.Repeat("é", 128) // 256 bytes in 128 characters
	case 6:
		return strings.Repeat("é", 200) // 200 characters but 400 bytes: too long, the limit counts bytes
	case 1:
		if g.hostile() {
			return strings.Repeat("m", 257)
		}
		return "regen:13toVgf5UjYBz6J29ZiSiVQB3Mz3uhSQvUuyT1Yy4zRZ5Vg5R7qRo9N.rdf"
	case 2:
		if g.hostile() {
			return ""
		}
		return "x"
	case 3:
		return "metadata with unicode ✓ é 漢字"
	}
	return fmt.Sprintf("meta-%d", g.R.Intn(1000))
}

var jurisdictions = []string{"US", "US-WA", "US-WA 98225", "KE", "FR-75", "AU-NSW 2000", "BR-AM"}
var badJurisdictions = []string{"", "us", "USA", "US-", "US-WASH", "U", "US WA"}

func (g *Gen) jurisdiction() string {
	if g.hostile() && g.chance(0.3) {
		return badJurisdictions[g.R.Intn(len(badJurisdictions))]
	}
	return jurisdictions[g.R.Intn(len(jurisdictions))]
}

func (g *Gen) reason() string {
	switch g.R.Intn(10) {
	case 0:
		return strings.Repeat("r", 512)
	case 1:
		if g.hostile() {
			return strings.Repeat("r", 513)
		}
	case 2:
		return ""
	}
	return "offsetting"
}

// dates: boundaries the property lists.
var specialDates = []time.Time{
	time.Date(1, 1, 1, 0, 0, 0, 0, time.UTC),
	time.Date(1900, 1, 1, 0, 0, 0, 0, time.UTC),
	time.Date(1969, 12, 31, 23, 59, 59, 999999999, time.UTC),
	time.Date(1970, 1, 1, 0, 0, 0, 0, time.UTC),
	time.Date(1970, 1, 1, 0, 0, 0, 1, time.UTC),
	time.Date(1965, 6, 15, 12, 0, 0, 500, time.UTC),
	time.Date(2000, 1, 1, 0, 0, 0, 0, time.UTC),
	time.Date(2020, 1, 1, 0, 0, 0, 0, time.UTC),
	time.Date(2019, 12, 31, 23, 59, 59, 0, time.UTC),
	time.Date(9999, 12, 31, 23, 59, 59, 0, time.UTC),
}

func (g *Gen) date() time.Time {
	switch g.R.Intn(10) {
	case 0, 1:
		return specialDates[g.R.Intn(len(specialDates))]
	case 2: // around block time
		return g.Now.Add(time.Duration(g.R.Intn(7)-3) * time.Second)
	case 3: // 1 Jan of some year near block year
		return time.Date(g.Now.Year()-g.R.Intn(12), 1, 1, 0, 0, 0, 0, time.UTC)
	case 4:
		return time.Date(g.Now.Year()-g.R.Intn(12), 1, 1, 0, 0, 0, 0, time.UTC).Add(-time.Nanosecond)
	}
	y := 1990 + g.R.Intn(45)
	return time.Date(y, time.Month(1+g.R.Intn(12)), 1+g.R.Intn(28), g.R.Intn(24), g.R.Intn(60), g.R.Intn(60), g.R.Intn(2)*g.R.Intn(1000000000), time.UTC)
}

func (g *Gen) coin(denom string, amt *big.Int) sdk.Coin {
	return sdk.Coin{Denom: denom, Amount: sdk.NewIntFromBigInt(amt)}
}

func (g *Gen) bankDenom() string { return BankDenoms[g.R.Intn(len(BankDenoms))] }

// sorted key helpers (map iteration must not leak into PRNG-determined choices)
func sortedKeys[M ~map[string]V, V any](m M) []string {
	var k []string
	for x := range m {
		k = append(k, x)
	}
	sort.Strings(k)
	return k
}

func sortedU64[M ~map[uint64]V, V any](m M) []uint64 {
	var k []uint64
	for x := range m {
		k = append(k, x)
	}
	sort.Slice(k, func(i, j int) bool { return k[i] < k[j] })
	return k
}

var _ = ref.Pow10
