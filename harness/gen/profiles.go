package gen

// Profiles: the same engine with the message mix tilted towards what each property needs.

func baseWeights() map[string]int {
	return map[string]int{
		"add_credit_type": 2, "create_class": 6, "create_project": 8, "create_batch": 12, "mint": 8, "seal": 3,
		"send": 14, "retire": 8, "cancel": 6,
		"update_class_admin": 3, "update_class_issuers": 4, "update_class_metadata": 2,
		"update_project_admin": 2, "update_project_metadata": 2, "update_batch_metadata": 3,
		"bridge": 5, "bridge_receive": 6, "bridge_receive_bound": 4, "bridge_combo": 1, "mint_replay": 3, "create_batch_replay": 2, "allowlist": 2, "class_creator": 3, "class_fee": 2, "bridge_chain": 3,
		"burn_regen": 2, "unimplemented": 1, "bank_send": 8,
		"basket_create": 4, "put": 14, "take": 12, "basket_fee": 2, "update_curator": 2, "update_date_criteria": 3,
		"sell": 14, "update_sell": 10, "cancel_sell": 5, "buy": 16, "basket_token_market": 4, "allowed_denom": 3, "fee_params": 3, "fee_pool_send": 3,
		"anchor": 3, "attest": 3, "define_resolver": 2, "register_resolver": 3, "resolver_combo": 1, "class_combo": 1, "creator_combo": 1, "batch_combo": 2, "market_combo": 2, "prefix_project": 1, "prefix_basket": 1, "basket_combo": 1, "sell_all_then_buy": 2,
	}
}

func tilt(name string, mult map[string]int) Profile {
	w := baseWeights()
	for k, m := range mult {
		w[k] = w[k] * m
	}
	return Profile{Name: name, Weights: w, Hostile: 0.18, Extreme: 0.02, Boundary: 0.1,
		MaxClasses: 14, MaxProjects: 24, MaxBatches: 60, MaxBaskets: 12, MaxOrders: 300, BlockEvery: 5}
}

func ProfileFor(prop string) Profile {
	switch prop {
	case "C05", "C11":
		p := tilt("basket-heavy", map[string]int{"put": 4, "take": 4, "basket_create": 2, "update_date_criteria": 4, "bank_send": 3, "create_batch": 2, "sell": 0, "update_sell": 0, "cancel_sell": 0, "buy": 0, "anchor": 0, "attest": 0, "define_resolver": 0, "register_resolver": 0, "resolver_combo": 0})
		p.Weights["sell"], p.Weights["buy"], p.Weights["update_sell"], p.Weights["cancel_sell"] = 4, 4, 2, 1
		p.Weights["basket_token_market"], p.Weights["fee_params"] = 14, 6
		p.Weights["prefix_basket"], p.Weights["prefix_project"], p.Weights["basket_combo"] = 6, 3, 6
		p.Boundary = 0.5
		return p
	case "C06", "C07", "C12":
		p := tilt("market-heavy", map[string]int{"sell": 4, "update_sell": 4, "cancel_sell": 3, "buy": 5, "allowed_denom": 3, "fee_params": 3, "fee_pool_send": 2, "anchor": 0, "attest": 0, "define_resolver": 0, "register_resolver": 0, "resolver_combo": 0})
		p.BlockEvery = 4
		return p
	case "C04":
		// permanence: every handler that rewrites a balance row, with more minting into open batches
		return tilt("all-message+mint", map[string]int{"mint": 4, "create_batch": 2, "send": 2, "retire": 2, "take": 2, "cancel": 2, "bridge": 2, "bridge_receive_bound": 3})
	case "C03":
		// ownership: the all-message mix with more marketplace traffic (the fill exception) and more
		// multi-entry purchases
		return tilt("all-message+market", map[string]int{"sell": 2, "buy": 4, "update_sell": 2, "cancel_sell": 2, "fee_pool_send": 2})
	case "C08":
		p := tilt("role-churn", map[string]int{"update_class_admin": 6, "update_class_issuers": 6, "update_class_metadata": 4, "update_project_admin": 6, "update_project_metadata": 4,
			"update_batch_metadata": 4, "seal": 3, "mint": 3, "bridge_receive_bound": 3, "update_curator": 8, "allowlist": 4, "class_creator": 4, "class_fee": 3, "bridge_chain": 3, "basket_fee": 4, "update_date_criteria": 3,
			"allowed_denom": 3, "fee_params": 3, "fee_pool_send": 3, "add_credit_type": 3, "update_sell": 2, "cancel_sell": 3, "register_resolver": 5, "define_resolver": 3, "resolver_combo": 6, "class_combo": 5, "creator_combo": 4, "create_class": 2, "create_project": 2})
		p.Hostile = 0.45
		return p
	case "C13":
		p := tilt("bridge-heavy", map[string]int{"bridge_combo": 3, "bridge": 8, "bridge_receive": 8, "bridge_receive_bound": 4, "mint_replay": 5, "create_batch_replay": 5, "mint": 4, "create_batch": 3, "bridge_chain": 5, "anchor": 0, "attest": 0, "define_resolver": 0, "register_resolver": 0, "resolver_combo": 0})
		return p
	case "C14", "C17":
		p := tilt("creation-heavy", map[string]int{"create_class": 6, "create_project": 8, "create_batch": 5, "bridge_receive": 3, "add_credit_type": 5, "basket_create": 3,
			// messages that delete or re-key parent rows while children exist (references must keep resolving)
			"allowed_denom": 4, "bridge_chain": 2, "update_class_issuers": 2, "class_creator": 2, "prefix_project": 6, "class_combo": 4})
		p.MaxClasses, p.MaxProjects, p.MaxBatches, p.MaxBaskets = 130, 260, 320, 30
		return p
	case "C16":
		p := Profile{Name: "data-only", Weights: map[string]int{"anchor": 10, "attest": 10, "define_resolver": 3, "register_resolver": 8, "resolver_combo": 1}, Hostile: 0.15,
			MaxClasses: 1, MaxProjects: 1, MaxBatches: 1, MaxBaskets: 1, MaxOrders: 1, BlockEvery: 4}
		return p
	}
	return tilt("all-message", nil)
}
