package gen

import (
	"encoding/json"
	"fmt"
	"github.com/cosmos/btcutil/base58"
	"math/big"
	"time"

	sdk "github.com/cosmos/cosmos-sdk/types"
	authtypes "github.com/cosmos/cosmos-sdk/x/auth/types"
	banktypes "github.com/cosmos/cosmos-sdk/x/bank/types"
	gogotypes "github.com/cosmos/gogoproto/types"

	"github.com/regen-network/regen-ledger/x/data/v3"
	basetypes "github.com/regen-network/regen-ledger/x/ecocredit/v3/base/types/v1"
	baskettypes "github.com/regen-network/regen-ledger/x/ecocredit/v3/basket/types/v1"
	"github.com/regen-network/regen-ledger/x/ecocredit/v3/marketplace"
	markettypes "github.com/regen-network/regen-ledger/x/ecocredit/v3/marketplace/types/v1"

	"verifharness/chain"
	"verifharness/eng"
	"verifharness/obs"
	"verifharness/ref"
)

func feePoolAddr() string { return authtypes.NewModuleAddress(marketplace.FeePoolName).String() }

// GenesisTime is the time of every chain's genesis: far from the wall clock on purpose.
var GenesisTime = time.Date(2031, 12, 31, 23, 0, 0, 0, time.UTC)

// ActorFunds: actors 0..5 are whales, 6 is moderate, 7 is poor.
func ActorFunds(i int) *big.Int {
	switch {
	case i <= 5:
		return ref.Pow10(45)
	case i == 6:
		return ref.Pow10(10)
	}
	return big.NewInt(1000)
}

// Genesis builds a genesis document. variant: "default", "open", "prefix".
func Genesis(app *chain.App, variant string) map[string]json.RawMessage {
	gs := app.DefaultGenesis()
	var bg banktypes.GenesisState
	app.Cdc.MustUnmarshalJSON(gs[banktypes.ModuleName], &bg)
	for i := 0; i < NActors; i++ {
		var coins sdk.Coins
		for _, d := range BankDenoms {
			coins = append(coins, sdk.Coin{Denom: d, Amount: sdk.NewIntFromBigInt(ActorFunds(i))})
		}
		bg.Balances = append(bg.Balances, banktypes.Balance{Address: ActorAddr(i).String(), Coins: coins.Sort()})
	}
	gs[banktypes.ModuleName] = app.Cdc.MustMarshalJSON(&bg)

	var eco map[string]json.RawMessage
	if err := json.Unmarshal(gs["ecocredit"], &eco); err != nil {
		panic(err)
	}
	set := func(table string, v interface{}) {
		bz, err := json.Marshal(v)
		if err != nil {
			panic(err)
		}
		eco[table] = bz
	}
	type m = map[string]interface{}
	switch variant {
	case "default":
	case "open":
		set("regen.ecocredit.v1.ClassFee", m{})
		set("regen.ecocredit.basket.v1.BasketFee", m{})
		set("regen.ecocredit.marketplace.v1.AllowedDenom", []m{
			{"bank_denom": "stake", "display_denom": "stake", "exponent": 6},
			{"bank_denom": "uregen", "display_denom": "regen", "exponent": 6},
			{"bank_denom": "uatom", "display_denom": "atom", "exponent": 6}})
		set("regen.ecocredit.marketplace.v1.FeeParams", m{"buyer_percentage_fee": "0.02", "seller_percentage_fee": "0.01"})
		set("regen.ecocredit.v1.AllowedBridgeChain", []m{{"chain_name": "polygon"}})
		set("regen.ecocredit.v1.CreditType", []m{
			{"abbreviation": "C", "name": "carbon", "unit": "metric ton CO2 equivalent", "precision": 6},
			{"abbreviation": "BIO", "name": "biodiversity", "unit": "ha", "precision": 6}})
	case "prefix", "underbacked":
		// sequence tables advanced so that identifiers become string prefixes of each other
		admin := ActorAddr(0)
		set("regen.ecocredit.v1.ClassFee", m{})
		set("regen.ecocredit.basket.v1.BasketFee", m{"fee": m{"denom": "uregen", "amount": "1000"}})
		set("regen.ecocredit.marketplace.v1.AllowedDenom", []m{
			{"bank_denom": "stake", "display_denom": "stake", "exponent": 6},
			{"bank_denom": "uregen", "display_denom": "regen", "exponent": 6}})
		set("regen.ecocredit.marketplace.v1.FeeParams", m{"buyer_percentage_fee": "0.333333", "seller_percentage_fee": "0.000001"})
		set("regen.ecocredit.v1.AllowedBridgeChain", []m{{"chain_name": "polygon"}, {"chain_name": "ethereum"}})
		set("regen.ecocredit.v1.CreditType", []m{
			{"abbreviation": "C", "name": "carbon", "unit": "metric ton CO2 equivalent", "precision": 6},
			{"abbreviation": "CC", "name": "carbon2", "unit": "t", "precision": 6},
			{"abbreviation": "B", "name": "bio", "unit": "ha", "precision": 6}})
		// B10 has no project yet while B100 (whose id it is a prefix of) has one; the B sequence stands at 101
		set("regen.ecocredit.v1.Class", []interface{}{3, m{"key": 1, "id": "C09", "admin": admin.Bytes(), "metadata": "g", "credit_type_abbrev": "C"},
			m{"key": 2, "id": "B10", "admin": ActorAddr(5).Bytes(), "metadata": "g", "credit_type_abbrev": "B"},
			m{"key": 3, "id": "B100", "admin": ActorAddr(6).Bytes(), "metadata": "g", "credit_type_abbrev": "B"}})
		set("regen.ecocredit.v1.ClassIssuer", []m{{"class_key": 1, "issuer": admin.Bytes()}, {"class_key": 1, "issuer": ActorAddr(1).Bytes()}, {"class_key": 2, "issuer": ActorAddr(5).Bytes()}, {"class_key": 3, "issuer": ActorAddr(6).Bytes()}})
		set("regen.ecocredit.v1.ClassSequence", []m{{"credit_type_abbrev": "C", "next_sequence": 10}, {"credit_type_abbrev": "CC", "next_sequence": 99}, {"credit_type_abbrev": "B", "next_sequence": 101}})
		// two projects carry a reference id LONGER than the 32 bytes a message may use (the state validator
		// has no such limit: only a genesis file can bring one in), and they share it
		longRef := "urn:registry:verra:VCS-000000000000000001234"
		set("regen.ecocredit.v1.Project", []interface{}{4, m{"key": 1, "id": "C09-099", "admin": admin.Bytes(), "class_key": 1, "jurisdiction": "US", "metadata": "p", "reference_id": ""},
			m{"key": 2, "id": "B100-001", "admin": ActorAddr(6).Bytes(), "class_key": 3, "jurisdiction": "US", "metadata": "p", "reference_id": ""},
			m{"key": 3, "id": "C09-050", "admin": ActorAddr(1).Bytes(), "class_key": 1, "jurisdiction": "KE", "metadata": "p", "reference_id": longRef},
			m{"key": 4, "id": "C09-051", "admin": ActorAddr(LongActor).Bytes(), "class_key": 1, "jurisdiction": "KE", "metadata": "p", "reference_id": longRef}})
		set("regen.ecocredit.v1.ProjectSequence", []m{{"class_key": 1, "next_sequence": 100}, {"class_key": 3, "next_sequence": 2}})
		set("regen.ecocredit.v1.BatchSequence", []m{{"project_key": 1, "next_sequence": 999}})
		// a batch that exists only through the genesis file, with the zero columns of its supply and balance
		// rows left EMPTY (accepted by the module's ValidateGenesis; no message writes rows like these)
		set("regen.ecocredit.v1.Batch", []interface{}{1, m{"key": 1, "issuer": admin.Bytes(), "project_key": 1, "denom": "C09-099-20200101-20210101-998", "metadata": "g",
			"start_date": "2020-01-01T00:00:00Z", "end_date": "2021-01-01T00:00:00Z", "issuance_date": "2021-06-01T00:00:00Z", "open": true}})
		set("regen.ecocredit.v1.BatchSupply", []m{{"batch_key": 1, "tradable_amount": "170", "retired_amount": "30", "cancelled_amount": ""}})
		set("regen.ecocredit.v1.BatchBalance", []m{
			{"batch_key": 1, "address": ActorAddr(3).Bytes(), "tradable_amount": "100", "retired_amount": "", "escrowed_amount": ""},
			{"batch_key": 1, "address": ActorAddr(4).Bytes(), "tradable_amount": "70", "retired_amount": "30", "escrowed_amount": ""}})
		// a basket that exists through the genesis file, holding a ZERO balance row of that batch (legal
		// for the state validators; Take deletes rows that reach zero, so no message leaves one behind)
		set("regen.ecocredit.basket.v1.Basket", []interface{}{1, m{"id": 1, "basket_denom": "eco.uC.GEN", "name": "GEN", "disable_auto_retire": true, "credit_type_abbrev": "C", "exponent": 6, "curator": ActorAddr(2).Bytes()}})
		set("regen.ecocredit.basket.v1.BasketClass", []m{{"basket_id": 1, "class_id": "C09"}})
		set("regen.ecocredit.basket.v1.BasketBalance", []m{{"basket_id": 1, "batch_denom": "C09-099-20200101-20210101-998", "balance": "0", "batch_start_date": "2020-01-01T00:00:00Z"}})
		if variant == "underbacked" {
			// a sell order whose quantity (12) exceeds what its seller has in escrow (5): the state validators do
			// not compare the two tables, so the module's ValidateGenesis accepts it; no message history leads here
			set("regen.ecocredit.v1.BatchBalance", []m{
				{"batch_key": 1, "address": ActorAddr(3).Bytes(), "tradable_amount": "100", "retired_amount": "", "escrowed_amount": ""},
				{"batch_key": 1, "address": ActorAddr(4).Bytes(), "tradable_amount": "65", "retired_amount": "30", "escrowed_amount": "5"}})
			set("regen.ecocredit.marketplace.v1.Market", []interface{}{1, m{"id": 1, "credit_type_abbrev": "C", "bank_denom": "stake", "precision_modifier": 0}})
			set("regen.ecocredit.marketplace.v1.SellOrder", []interface{}{1, m{"id": 1, "seller": ActorAddr(4).Bytes(), "batch_key": 1, "quantity": "12", "market_id": 1, "ask_amount": "10", "disable_auto_retire": true, "maker": true}})
		}
	default:
		panic("unknown genesis variant " + variant)
	}
	bz, err := json.Marshal(eco)
	if err != nil {
		panic(err)
	}
	gs["ecocredit"] = bz
	if variant == "prefix" || variant == "underbacked" {
		// data anchored by an earlier binary: the IRI is well formed, but its content hash (digest
		// algorithm byte 0) is one that today's message validation would refuse — such a record can only
		// come with a genesis file, and must stay reachable by its IRI
		var d map[string]json.RawMessage
		if err := json.Unmarshal(gs["data"], &d); err == nil {
			payload := make([]byte, 34)
			for i := 2; i < 34; i++ {
				payload[i] = byte(7 * i)
			}
			iri := "regen:" + base58.CheckEncode(payload, 0) + ".bin"
			id := []byte{0xfe, 0xed, 0xbe, 0xef}
			b1, _ := json.Marshal([]m{{"id": id, "iri": iri}})
			b2, _ := json.Marshal([]m{{"id": id, "timestamp": "2021-03-03T03:03:03Z"}})
			d["regen.data.v1.DataID"] = b1
			d["regen.data.v1.DataAnchor"] = b2
			if bz, err := json.Marshal(d); err == nil {
				gs["data"] = bz
			}
		}
	}
	return gs
}

// Bootstrap is the short deterministic prefix that guarantees every monitor's coverage floor:
// credit types, classes, projects, batches (with a retired amount for every actor), baskets, funded
// buyers and open orders. It is executed through the same monitored path as everything else.
func (g *Gen) Bootstrap(e *eng.Engine, refresh func()) {
	A := g.A
	gov := g.Gov
	ex := func(tag string, msgs ...sdk.Msg) bool {
		r := e.Exec(eng.Tx{Msgs: msgs, Tag: "bootstrap/" + tag})
		refresh()
		return r != nil && r.OK
	}
	coin := func(d string, n int64) *sdk.Coin { c := sdk.NewInt64Coin(d, n); return &c }
	// parameters
	ex("denom", &markettypes.MsgAddAllowedDenom{Authority: gov, BankDenom: "uregen", DisplayDenom: "regen", Exponent: 6})
	ex("denom", &markettypes.MsgAddAllowedDenom{Authority: gov, BankDenom: "uatom", DisplayDenom: "atom", Exponent: 6})
	ex("chain", &basetypes.MsgAddAllowedBridgeChain{Authority: gov, ChainName: "polygon"})
	ex("ctype", &basetypes.MsgAddCreditType{Authority: gov, CreditType: &basetypes.CreditType{Abbreviation: "BIO", Name: "biodiversity", Unit: "ha", Precision: 6}})
	if g.V.FeeParams == nil || (g.V.FeeParams.BuyerPercentageFee == "" && g.V.FeeParams.SellerPercentageFee == "") {
		ex("feeparams", &markettypes.MsgGovSetFeeParams{Authority: gov, Fees: &markettypes.FeeParams{BuyerPercentageFee: "0.02", SellerPercentageFee: "0.013"}})
	}
	var classFee *sdk.Coin
	if g.V.ClassFee != nil && g.V.ClassFee.Fee != nil {
		d, a := apiCoin(g.V.ClassFee.Fee)
		if a != nil {
			c := sdk.Coin{Denom: d, Amount: sdk.NewIntFromBigInt(a)}
			classFee = &c
		}
	}
	// classes
	for i, ct := range []string{"C", "C", "BIO"} {
		ex("class", &basetypes.MsgCreateClass{Admin: A[i], Issuers: []string{A[i], A[(i+1)%4]}, Metadata: "class", CreditTypeAbbrev: ct, Fee: classFee})
	}
	refresh()
	// projects + batches
	dates := [][2]time.Time{
		{time.Date(2020, 1, 1, 0, 0, 0, 0, time.UTC), time.Date(2021, 1, 1, 0, 0, 0, 0, time.UTC)},
		{time.Date(1969, 6, 1, 17, 30, 0, 250, time.UTC), time.Date(1970, 6, 1, 0, 0, 0, 0, time.UTC)}, // before 1970 and not at midnight: negative, non-day-aligned Unix seconds
		{time.Date(2031, 1, 1, 0, 0, 0, 0, time.UTC), time.Date(2031, 6, 1, 0, 0, 0, 0, time.UTC)},
		{time.Date(2010, 5, 5, 5, 5, 5, 5, time.UTC), time.Date(2011, 1, 1, 0, 0, 0, 0, time.UTC)},
	}
	for ci, c := range g.V.ClassList {
		if ci >= 4 {
			break
		}
		iss := sortedKeys(g.V.Issuers[c.Key])
		if len(iss) == 0 {
			continue
		}
		ex("project", &basetypes.MsgCreateProject{Admin: iss[0], ClassId: c.Id, Metadata: "project", Jurisdiction: "US-WA", ReferenceId: fmt.Sprintf("BOOT-%d", ci)})
	}
	refresh()
	bi := 0
	for _, p := range g.V.ProjectList {
		c := g.V.Classes[p.ClassKey]
		iss := sortedKeys(g.V.Issuers[c.Key])
		if len(iss) == 0 {
			continue
		}
		for k := 0; k < 2; k++ {
			d := dates[bi%len(dates)]
			bi++
			var issu []*basetypes.BatchIssuance
			for ai := 0; ai < NActors; ai++ {
				issu = append(issu, &basetypes.BatchIssuance{Recipient: A[ai], TradableAmount: fmt.Sprintf("%d.%06d", 1000*(ai+1), 100000*(ai%7)+ai), RetiredAmount: fmt.Sprintf("%d.5", ai+1), RetirementJurisdiction: "US"})
			}
			m := &basetypes.MsgCreateBatch{Issuer: iss[0], ProjectId: p.Id, Issuance: issu, Metadata: "batch", StartDate: &d[0], EndDate: &d[1], Open: k == 0}
			if k == 1 {
				m.OriginTx = &basetypes.OriginTx{Id: ethHash(1000 + bi), Source: "polygon", Contract: ethAddr(100 + bi)}
			}
			ex("batch", m)
		}
	}
	// deterministic witness of F-C09a: a batch whose start date equals its end date
	if len(g.V.ProjectList) > 0 {
		p := g.V.ProjectList[0]
		if c := g.V.Classes[p.ClassKey]; c != nil {
			if iss := sortedKeys(g.V.Issuers[c.Key]); len(iss) > 0 {
				d := time.Date(2021, 10, 1, 11, 4, 15, 0, time.UTC)
				ex("batch-equal-dates", &basetypes.MsgCreateBatch{Issuer: iss[0], ProjectId: p.Id, Issuance: []*basetypes.BatchIssuance{{Recipient: A[0], TradableAmount: "1"}}, Metadata: "equal dates", StartDate: &d, EndDate: &d})
			}
		}
	}
	refresh()
	// baskets
	var basketFee sdk.Coins
	if g.V.BasketFee != nil && g.V.BasketFee.Fee != nil {
		d, a := apiCoin(g.V.BasketFee.Fee)
		if a != nil {
			basketFee = sdk.Coins{{Denom: d, Amount: sdk.NewIntFromBigInt(a)}}
		}
	}
	var cIDs, bioIDs []string
	for _, c := range g.V.ClassList {
		if c.CreditTypeAbbrev == "C" {
			cIDs = append(cIDs, c.Id)
		} else if c.CreditTypeAbbrev == "BIO" {
			bioIDs = append(bioIDs, c.Id)
		}
	}
	if len(cIDs) > 0 {
		ex("basket", &baskettypes.MsgCreate{Curator: A[0], Name: "NCT", CreditTypeAbbrev: "C", AllowedClasses: cIDs, DisableAutoRetire: true, Fee: basketFee})
		ex("basket", &baskettypes.MsgCreate{Curator: A[1], Name: "RET", CreditTypeAbbrev: "C", AllowedClasses: cIDs[:1], DisableAutoRetire: false, Fee: basketFee, DateCriteria: &baskettypes.DateCriteria{YearsInThePast: 20}})
	}
	if len(cIDs) > 0 {
		// a moving start-date window (10 years) and a fixed minimum date
		ex("basket", &baskettypes.MsgCreate{Curator: A[3], Name: "WIN", CreditTypeAbbrev: "C", AllowedClasses: cIDs, DisableAutoRetire: true, Fee: basketFee,
			DateCriteria: &baskettypes.DateCriteria{StartDateWindow: &gogotypes.Duration{Seconds: 3650 * 86400}}})
		md, _ := gogotypes.TimestampProto(time.Date(2010, 5, 5, 5, 5, 5, 5, time.UTC))
		ex("basket", &baskettypes.MsgCreate{Curator: A[4], Name: "MIN", CreditTypeAbbrev: "C", AllowedClasses: cIDs, DisableAutoRetire: false, Fee: basketFee,
			DateCriteria: &baskettypes.DateCriteria{MinStartDate: md}})
	}
	if len(bioIDs) > 0 {
		ex("basket", &baskettypes.MsgCreate{Curator: A[2], Name: "BIOB", CreditTypeAbbrev: "BIO", AllowedClasses: bioIDs, DisableAutoRetire: true, Fee: basketFee})
	}
	refresh()
	// puts, sells
	for _, b := range g.V.BatchList {
		for ai := 0; ai < 3; ai++ {
			for _, bk := range g.V.BasketList {
				ex("put", &baskettypes.MsgPut{Owner: A[ai], BasketDenom: bk.BasketDenom, Credits: []*baskettypes.BasketCredit{{BatchDenom: b.Denom, Amount: fmt.Sprintf("%d.25", 10+ai)}}})
			}
		}
		for ai := 3; ai < 6; ai++ {
			exp := e.App.Header.Time.Add(time.Duration(ai) * time.Hour)
			ex("sell", &markettypes.MsgSell{Seller: A[ai], Orders: []*markettypes.MsgSell_Order{
				{BatchDenom: b.Denom, Quantity: "7.5", AskPrice: coin("stake", 3), DisableAutoRetire: true},
				{BatchDenom: b.Denom, Quantity: "2.000001", AskPrice: coin("uregen", 1000001), DisableAutoRetire: false, Expiration: &exp},
			}})
		}
	}
	// the issuer of the oldest batch mints one credit to an account that has credits of that batch in
	// escrow (a third party's row is rewritten while it backs open sell orders)
	if len(g.V.BatchList) > 0 {
		first := g.V.BatchList[0]
		if first.Open {
			ex("mint-to-seller", &basetypes.MsgMintBatchCredits{Issuer: obs.Addr(first.Issuer), BatchDenom: first.Denom,
				Issuance: []*basetypes.BatchIssuance{{Recipient: A[3], TradableAmount: "1"}}, OriginTx: &basetypes.OriginTx{Id: "boot-mint-1", Source: "polygon"}})
		}
	}
	// one auto-retiring purchase from the oldest batch of the chain (in the "prefix" genesis that is the
	// batch that only exists through the genesis file, with empty zero columns)
	if len(g.V.BatchList) > 0 {
		first := g.V.BatchList[0]
		for _, o := range g.V.OrderList {
			if o.BatchKey == first.Key && !o.DisableAutoRetire {
				if mk := g.V.Markets[o.MarketId]; mk != nil {
					ask, _ := new(big.Int).SetString(o.AskAmount, 10)
					if ask == nil {
						break
					}
					bid := sdk.Coin{Denom: mk.BankDenom, Amount: sdk.NewIntFromBigInt(ask)}
					mf := sdk.Coin{Denom: mk.BankDenom, Amount: sdk.NewIntFromBigInt(new(big.Int).Mul(ask, big.NewInt(2)))}
					ex("buy-auto-retire", &markettypes.MsgBuyDirect{Buyer: A[6], Orders: []*markettypes.MsgBuyDirect_Order{{SellOrderId: o.Id, Quantity: "1", BidPrice: &bid, DisableAutoRetire: false, RetirementJurisdiction: "US", MaxFeeAmount: &mf}}})
				}
				break
			}
		}
	}
	// a batch whose whole supply sits in a basket: every account balance of it is zero, nothing retired
	if len(g.V.ProjectList) > 0 && len(cIDs) > 0 {
		p := g.V.ProjectList[0]
		if c := g.V.Classes[p.ClassKey]; c != nil && c.CreditTypeAbbrev == "C" {
			if iss := sortedKeys(g.V.Issuers[c.Key]); len(iss) > 0 {
				s, en := time.Date(2022, 2, 2, 0, 0, 0, 0, time.UTC), time.Date(2022, 12, 2, 0, 0, 0, 0, time.UTC)
				r := e.Exec(eng.Tx{Msgs: []sdk.Msg{&basetypes.MsgCreateBatch{Issuer: iss[0], ProjectId: p.Id, Issuance: []*basetypes.BatchIssuance{{Recipient: A[2], TradableAmount: "40"}}, Metadata: "all in basket", StartDate: &s, EndDate: &en}}, Tag: "bootstrap/batch-all-in-basket"})
				refresh()
				if r != nil && r.OK {
					d := r.Resps[0].(*basetypes.MsgCreateBatchResponse).BatchDenom
					ex("put-all", &baskettypes.MsgPut{Owner: A[2], BasketDenom: "eco.uC.NCT", Credits: []*baskettypes.BasketCredit{{BatchDenom: d, Amount: "15"}}})
					ex("put-all", &baskettypes.MsgPut{Owner: A[2], BasketDenom: "eco.uC.NCT", Credits: []*baskettypes.BasketCredit{{BatchDenom: d, Amount: "25"}}})
				}
			}
		}
	}
	// machine-word boundaries: retired holdings that are whole numbers just below 2^64 and 2^63 receive a
	// small whole-number purchase with auto-retire (balance and supply cross the word boundary), and a
	// tradable holding just below 2^64 receives a whole-number transfer
	if len(g.V.ProjectList) > 0 {
		p := g.V.ProjectList[0]
		if c := g.V.Classes[p.ClassKey]; c != nil {
			if iss := sortedKeys(g.V.Issuers[c.Key]); len(iss) > 0 {
				s, en := time.Date(2023, 3, 3, 0, 0, 0, 0, time.UTC), time.Date(2023, 12, 3, 0, 0, 0, 0, time.UTC)
				r := e.Exec(eng.Tx{Msgs: []sdk.Msg{&basetypes.MsgCreateBatch{Issuer: iss[0], ProjectId: p.Id, Metadata: "word boundary", StartDate: &s, EndDate: &en, Issuance: []*basetypes.BatchIssuance{
					{Recipient: A[6], RetiredAmount: "18446744073709551610", RetirementJurisdiction: "US"},
					{Recipient: A[7], RetiredAmount: "9223372036854775800", RetirementJurisdiction: "US"},
					{Recipient: A[4], TradableAmount: "18446744073709551610"},
					{Recipient: A[5], TradableAmount: "100"}}}}, Tag: "bootstrap/batch-word-boundary"})
				refresh()
				if r != nil && r.OK {
					d := r.Resps[0].(*basetypes.MsgCreateBatchResponse).BatchDenom
					rs := e.Exec(eng.Tx{Msgs: []sdk.Msg{&markettypes.MsgSell{Seller: A[5], Orders: []*markettypes.MsgSell_Order{{BatchDenom: d, Quantity: "40", AskPrice: coin("stake", 2), DisableAutoRetire: false}}}}, Tag: "bootstrap/sell-word-boundary"})
					refresh()
					if rs != nil && rs.OK {
						id := rs.Resps[0].(*markettypes.MsgSellResponse).SellOrderIds[0]
						bid, mf := coin("stake", 2), coin("stake", 1000)
						for _, buyer := range []string{A[6], A[7]} {
							ex("buy-word-boundary", &markettypes.MsgBuyDirect{Buyer: buyer, Orders: []*markettypes.MsgBuyDirect_Order{{SellOrderId: id, Quantity: "10", BidPrice: bid, DisableAutoRetire: false, RetirementJurisdiction: "US", MaxFeeAmount: mf}}})
						}
					}
					ex("send-word-boundary", &basetypes.MsgSend{Sender: A[5], Recipient: A[4], Credits: []*basetypes.MsgSend_SendCredits{{BatchDenom: d, TradableAmount: "10", RetiredAmount: "10", RetirementJurisdiction: "US"}}})
				}
			}
		}
	}
	// data
	h := &data.ContentHash{Graph: &data.ContentHash_Graph{Hash: make([]byte, 32), DigestAlgorithm: 1, CanonicalizationAlgorithm: 1}}
	ex("anchor", &data.MsgAnchor{Sender: A[0], ContentHash: h})
	ex("resolver", &data.MsgDefineResolver{Definer: A[0], ResolverUrl: "https://boot.example/a", Public: false})
	ex("resolver", &data.MsgDefineResolver{Definer: A[1], ResolverUrl: "https://boot.example/b", Public: true})
	refresh()
}

// BootstrapWhale adds the deterministic extreme-magnitude segment (very large totals): two puts of
// 9999999999999999999999999999.999999 credits into one basket (token total beyond 34 significant
// digits) and a sell order whose quantity × ask needs more than 34 significant digits, partially bought.
func (g *Gen) BootstrapWhale(e *eng.Engine, refresh func()) {
	A := g.A
	ex := func(tag string, msgs ...sdk.Msg) *eng.TxRec {
		r := e.Exec(eng.Tx{Msgs: msgs, Tag: "whale/" + tag})
		refresh()
		return r
	}
	if len(g.V.ProjectList) == 0 {
		return
	}
	p := g.V.ProjectList[0]
	c := g.V.Classes[p.ClassKey]
	if c == nil {
		return
	}
	iss := sortedKeys(g.V.Issuers[c.Key])
	if len(iss) == 0 {
		return
	}
	big1 := "9999999999999999999999999999.999999"
	var denoms []string
	for k := 0; k < 2; k++ {
		s := time.Date(2015+k, 3, 1, 0, 0, 0, 0, time.UTC)
		en := time.Date(2016+k, 3, 1, 0, 0, 0, 0, time.UTC)
		r := ex("batch", &basetypes.MsgCreateBatch{Issuer: iss[0], ProjectId: p.Id, Metadata: "whale", StartDate: &s, EndDate: &en, Open: true,
			Issuance: []*basetypes.BatchIssuance{{Recipient: A[0], TradableAmount: big1}, {Recipient: A[3], TradableAmount: "5000000000000000000000000000.5"}}})
		if r != nil && r.OK {
			denoms = append(denoms, r.Resps[0].(*basetypes.MsgCreateBatchResponse).BatchDenom)
		}
	}
	var bk string
	for _, b := range g.V.BasketList {
		if b.CreditTypeAbbrev == c.CreditTypeAbbrev && g.V.BasketClasses[b.Id][c.Id] && b.DateCriteria == nil {
			bk = b.BasketDenom
			break
		}
	}
	for _, d := range denoms {
		if bk != "" {
			ex("put", &baskettypes.MsgPut{Owner: A[0], BasketDenom: bk, Credits: []*baskettypes.BasketCredit{{BatchDenom: d, Amount: big1}}})
		}
	}
	// a third batch of 10^32 credits stays tradable (the random workload draws wide-sum puts from it);
	// one deterministic put whose entries sum to a value of 35 significant digits (10^28 + 0.000001)
	{
		s := time.Date(2017, 3, 1, 0, 0, 0, 0, time.UTC)
		en := time.Date(2018, 3, 1, 0, 0, 0, 0, time.UTC)
		r := ex("batch", &basetypes.MsgCreateBatch{Issuer: iss[0], ProjectId: p.Id, Metadata: "whale-wide", StartDate: &s, EndDate: &en, Open: false,
			Issuance: []*basetypes.BatchIssuance{{Recipient: A[0], TradableAmount: "100000000000000000000000000000000"}}})
		if r != nil && r.OK && bk != "" {
			d := r.Resps[0].(*basetypes.MsgCreateBatchResponse).BatchDenom
			ex("put-wide", &baskettypes.MsgPut{Owner: A[0], BasketDenom: bk, Credits: []*baskettypes.BasketCredit{{BatchDenom: d, Amount: "10000000000000000000000000000"}, {BatchDenom: d, Amount: "0.000001"}}})
			// single amounts whose token value needs more than 34 significant digits cannot be converted
			// exactly by the 34-digit context: refused today — if ever accepted, the backing oracle judges them
			ex("put-long", &baskettypes.MsgPut{Owner: A[0], BasketDenom: bk, Credits: []*baskettypes.BasketCredit{{BatchDenom: d, Amount: "12345678901234567890123456789012.345670"}}})
			ex("put-long", &baskettypes.MsgPut{Owner: A[0], BasketDenom: bk, Credits: []*baskettypes.BasketCredit{{BatchDenom: d, Amount: "1234567890123456789012345678901.234567"}}})
		}
	}
	if bk != "" {
		ex("take", &baskettypes.MsgTake{Owner: A[0], BasketDenom: bk, Amount: "1234567890123456789012345678901", RetireOnTake: false})
	}
	coin := func(d string, n int64) *sdk.Coin { c := sdk.NewInt64Coin(d, n); return &c }
	// a holding of 35 significant digits (10^28 + 0.000005): selling 0.000006 of it leaves 34 digits in the
	// tradable column; when the order expires (or is cancelled) the refund has to restore all 35 exactly
	{
		s := time.Date(2018, 3, 1, 0, 0, 0, 0, time.UTC)
		en := time.Date(2019, 3, 1, 0, 0, 0, 0, time.UTC)
		r := ex("batch-35-digits", &basetypes.MsgCreateBatch{Issuer: iss[0], ProjectId: p.Id, Metadata: "whale-35", StartDate: &s, EndDate: &en,
			Issuance: []*basetypes.BatchIssuance{{Recipient: A[5], TradableAmount: "10000000000000000000000000000.000005"}, {Recipient: A[6], TradableAmount: "20000000000000000000000000000"}}})
		if r != nil && r.OK {
			d := r.Resps[0].(*basetypes.MsgCreateBatchResponse).BatchDenom
			exp := e.App.Header.Time.Add(90 * time.Minute)
			ex("sell-35-digits", &markettypes.MsgSell{Seller: A[5], Orders: []*markettypes.MsgSell_Order{
				{BatchDenom: d, Quantity: "0.000006", AskPrice: coin("stake", 5), DisableAutoRetire: true, Expiration: &exp},
				{BatchDenom: d, Quantity: "0.000001", AskPrice: coin("stake", 5), DisableAutoRetire: true}}})
			rs := ex("sell-35-digits", &markettypes.MsgSell{Seller: A[6], Orders: []*markettypes.MsgSell_Order{{BatchDenom: d, Quantity: "20000000000000000000000000000", AskPrice: coin("stake", 1), DisableAutoRetire: true}}})
			if rs != nil && rs.OK {
				id := rs.Resps[0].(*markettypes.MsgSellResponse).SellOrderIds[0]
				bid, mf := coin("stake", 1), coin("stake", 1000)
				ex("buy-35-digits", &markettypes.MsgBuyDirect{Buyer: A[7], Orders: []*markettypes.MsgBuyDirect_Order{{SellOrderId: id, Quantity: "0.000006", BidPrice: bid, DisableAutoRetire: true, MaxFeeAmount: mf}}})
			}
		}
	}
	if len(denoms) > 0 {
		ask := sdk.Coin{Denom: "uatom", Amount: sdk.NewIntFromBigInt(ref.Pow10(28)).AddRaw(7)}
		r := ex("sell", &markettypes.MsgSell{Seller: A[3], Orders: []*markettypes.MsgSell_Order{{BatchDenom: denoms[0], Quantity: "1000000000000.000001", AskPrice: &ask, DisableAutoRetire: true}}})
		if r != nil && r.OK {
			id := r.Resps[0].(*markettypes.MsgSellResponse).SellOrderIds[0]
			mf := sdk.Coin{Denom: "uatom", Amount: sdk.NewIntFromBigInt(ref.Pow10(44))}
			ex("buy", &markettypes.MsgBuyDirect{Buyer: A[5], Orders: []*markettypes.MsgBuyDirect_Order{{SellOrderId: id, Quantity: "333333333333.333333", BidPrice: &ask, DisableAutoRetire: true, MaxFeeAmount: &mf}}})
		}
	}
}

// ExponentTail is a short deterministic segment run at the END of a workload (it leaves amounts with
// 100 000 digits in the state, which would only slow everything else down). The decimal library refuses
// to add operands whose exponents are more than 100 000 apart; the segment puts an issuance exactly on
// both sides of that limit for a recipient whose balance has one more decimal place than the batch
// supply, so that one of the additions of a mint fails while the other would succeed.
func (g *Gen) ExponentTail(e *eng.Engine, refresh func()) {
	A := g.A
	ex := func(tag string, msgs ...sdk.Msg) *eng.TxRec {
		r := e.Exec(eng.Tx{Msgs: msgs, Tag: "exponent-tail/" + tag})
		refresh()
		return r
	}
	if len(g.V.ProjectList) == 0 {
		return
	}
	p := g.V.ProjectList[0]
	c := g.V.Classes[p.ClassKey]
	if c == nil {
		return
	}
	iss := sortedKeys(g.V.Issuers[c.Key])
	if len(iss) == 0 {
		return
	}
	issuer, victim := iss[0], A[6]
	if victim == issuer {
		victim = A[7]
	}
	s, en := time.Date(2023, 1, 1, 0, 0, 0, 0, time.UTC), time.Date(2023, 7, 1, 0, 0, 0, 0, time.UTC)
	r := ex("batch", &basetypes.MsgCreateBatch{Issuer: issuer, ProjectId: p.Id, Metadata: "exponent tail", StartDate: &s, EndDate: &en, Open: true,
		Issuance: []*basetypes.BatchIssuance{{Recipient: issuer, TradableAmount: "100"}}})
	if r == nil || !r.OK {
		return
	}
	d := r.Resps[0].(*basetypes.MsgCreateBatchResponse).BatchDenom
	ex("send", &basetypes.MsgSend{Sender: issuer, Recipient: victim, Credits: []*basetypes.MsgSend_SendCredits{{BatchDenom: d, TradableAmount: "9.5"}}})
	mint := func(tag, amt string, retired bool, n int) {
		is := &basetypes.BatchIssuance{Recipient: victim, TradableAmount: amt}
		if retired {
			is = &basetypes.BatchIssuance{Recipient: victim, RetiredAmount: amt, RetirementJurisdiction: "US"}
		}
		ex(tag, &basetypes.MsgMintBatchCredits{Issuer: issuer, BatchDenom: d, Issuance: []*basetypes.BatchIssuance{is},
			OriginTx: &basetypes.OriginTx{Id: fmt.Sprintf("exp-tail-%d", n), Source: "polygon"}})
	}
	mint("mint-beyond-limit", "1e100000", false, 1)        // balance 9.5 + 1e100000: exponents 100001 apart
	mint("mint-beyond-limit-retired", "1e100000", true, 2) // retired column: empty/zero balance, supply 0
	mint("mint-at-limit", "1e99999", false, 3)             // 100000 apart: representable
	ex("send-small", &basetypes.MsgSend{Sender: victim, Recipient: issuer, Credits: []*basetypes.MsgSend_SendCredits{{BatchDenom: d, TradableAmount: "0.5"}}})
	ex("retire-small", &basetypes.MsgRetire{Owner: victim, Credits: []*basetypes.Credits{{BatchDenom: d, Amount: "1"}}, Jurisdiction: "US"})
	ex("cancel-small", &basetypes.MsgCancel{Owner: victim, Credits: []*basetypes.Credits{{BatchDenom: d, Amount: "1"}}, Reason: "tail"})
}
