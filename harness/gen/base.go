package gen

import (
	"fmt"
	"math/big"
	"os"
	"sort"
	"strings"
	"time"

	sdk "github.com/cosmos/cosmos-sdk/types"
	authtypes "github.com/cosmos/cosmos-sdk/x/auth/types"
	banktypes "github.com/cosmos/cosmos-sdk/x/bank/types"

	baseapi "github.com/regen-network/regen-ledger/api/v2/regen/ecocredit/v1"
	"github.com/regen-network/regen-ledger/x/ecocredit/v3/base"
	basetypes "github.com/regen-network/regen-ledger/x/ecocredit/v3/base/types/v1"
	baskettypes "github.com/regen-network/regen-ledger/x/ecocredit/v3/basket/types/v1"

	"verifharness/chain"
	"verifharness/eng"
	"verifharness/obs"
)

func tx(msgs ...sdk.Msg) *eng.Tx { return &eng.Tx{Msgs: msgs} }

var CreditTypeAbbrevs = []string{"C", "CC", "CCC", "B", "BIO", "BI", "KSH", "X"}

func (g *Gen) registerBase() {
	g.add("add_credit_type", g.genAddCreditType)
	g.add("create_class", g.genCreateClass)
	g.add("class_combo", g.genClassCombo)
	g.add("creator_combo", g.genCreatorCombo)
	g.add("prefix_project", g.genPrefixProject)
	g.add("create_project", g.genCreateProject)
	g.add("create_batch", g.genCreateBatch)
	g.add("mint", g.genMint)
	g.add("seal", g.genSeal)
	g.add("send", g.genSend)
	g.add("retire", g.genRetire)
	g.add("cancel", g.genCancel)
	g.add("update_class_admin", g.genUpdateClassAdmin)
	g.add("update_class_issuers", g.genUpdateClassIssuers)
	g.add("update_class_metadata", g.genUpdateClassMetadata)
	g.add("update_project_admin", g.genUpdateProjectAdmin)
	g.add("update_project_metadata", g.genUpdateProjectMetadata)
	g.add("update_batch_metadata", g.genUpdateBatchMetadata)
	g.add("bridge", g.genBridge)
	g.add("bridge_receive", g.genBridgeReceive)
	g.add("bridge_combo", g.genBridgeCombo)
	g.add("bridge_receive_bound", g.genBridgeReceiveBound)
	g.add("mint_replay", g.genMintReplay)
	g.add("create_batch_replay", g.genCreateBatchReplay)
	g.add("allowlist", g.genAllowlist)
	g.add("class_creator", g.genClassCreator)
	g.add("class_fee", g.genClassFee)
	g.add("bridge_chain", g.genBridgeChain)
	g.add("burn_regen", g.genBurnRegen)
	g.add("unimplemented", g.genUnimplemented)
	g.add("bank_send", g.genBankSend)
}

func (g *Gen) govSigner() string {
	if g.hostile() {
		return g.actor()
	}
	return g.Gov
}

func (g *Gen) genAddCreditType() *eng.Tx {
	ab := CreditTypeAbbrevs[g.R.Intn(len(CreditTypeAbbrevs))]
	if g.hostile() {
		ab = []string{"c", "CCCC", "", "C1", ab}[g.R.Intn(5)]
	}
	prec := uint32(6)
	if g.hostile() && g.chance(0.3) {
		prec = uint32(g.R.Intn(9))
	}
	name := "type-" + strings.ToLower(ab)
	if g.chance(0.1) {
		name = "carbon" // collides with the default credit type's name
	}
	return tx(&basetypes.MsgAddCreditType{Authority: g.govSigner(), CreditType: &basetypes.CreditType{Abbreviation: ab, Name: name, Unit: "ton", Precision: prec}})
}

func (g *Gen) creditTypeAbbrev() string {
	ks := sortedKeys(g.V.CreditTypes)
	if len(ks) == 0 || (g.hostile() && g.chance(0.3)) {
		return []string{"ZZZ", "Q", "c"}[g.R.Intn(3)]
	}
	return ks[g.R.Intn(len(ks))]
}

func (g *Gen) feeFor(required *big.Int, denom string) *sdk.Coin {
	// offers: exact, more, less by one, other denom, nil
	if required == nil {
		switch g.R.Intn(4) {
		case 0:
			c := g.coin(g.bankDenom(), big.NewInt(int64(1+g.R.Intn(1000))))
			return &c
		}
		return nil
	}
	if g.hostile() {
		switch g.R.Intn(4) {
		case 0:
			return nil
		case 1:
			c := g.coin(denom, new(big.Int).Sub(required, big.NewInt(1)))
			if c.Amount.IsPositive() {
				return &c
			}
			return nil
		case 2:
			c := g.coin(g.bankDenom(), required)
			return &c
		}
	}
	off := new(big.Int).Set(required)
	if g.chance(0.4) {
		off.Add(off, big.NewInt(int64(g.R.Intn(1000000))))
	}
	c := g.coin(denom, off)
	return &c
}

func apiCoin(c interface {
	GetDenom() string
	GetAmount() string
}) (string, *big.Int) {
	if c == nil {
		return "", nil
	}
	n, ok := new(big.Int).SetString(c.GetAmount(), 10)
	if !ok {
		return c.GetDenom(), nil
	}
	return c.GetDenom(), n
}

// genClassCombo: create a class and a project in it in ONE transaction (the class id is predictable
// from the class sequence); half of the time a later message fails and everything is reverted, after
// which another admin creates a class of that credit type (gets the same id) — scripted follow-up:
// the reverted admin tries to create a project in / transfer that class (must be refused), the real
// admin's issuer creates a project (must be accepted).
func (g *Gen) genClassCombo() *eng.Tx {
	if len(g.V.ClassList) >= g.P.MaxClasses+4 || g.V.Allowlist {
		return nil
	}
	ab := "C"
	if g.V.CreditTypes["BIO"] != nil && g.chance(0.4) {
		ab = "BIO"
	}
	seq := g.V.ClassSeq[ab]
	if seq == 0 {
		seq = 1
	}
	classID := base.FormatClassID(ab, seq)
	if g.V.ClassByID[classID] != nil {
		return nil
	}
	admin := g.actor()
	other := g.otherActor(admin)
	fee := func() *sdk.Coin {
		if g.V.ClassFee != nil && g.V.ClassFee.Fee != nil {
			d, a := apiCoin(g.V.ClassFee.Fee)
			if a != nil && a.Sign() > 0 {
				c := sdk.Coin{Denom: d, Amount: sdk.NewIntFromBigInt(a)}
				return &c
			}
		}
		return nil
	}
	g.refSeq++
	msgs := []sdk.Msg{
		&basetypes.MsgCreateClass{Admin: admin, Issuers: []string{admin}, Metadata: "combo", CreditTypeAbbrev: ab, Fee: fee()},
		&basetypes.MsgCreateProject{Admin: admin, ClassId: classID, Metadata: "combo", Jurisdiction: "US", ReferenceId: fmt.Sprintf("CMB-%d", g.refSeq)},
	}
	if g.chance(0.5) {
		// a basket that allows the new class, created in the same transaction; after the revert neither the
		// class nor the basket exists, and a basket naming the vanished class id must be refused
		basketMsg := func(name string) *baskettypes.MsgCreate {
			m := &baskettypes.MsgCreate{Curator: admin, Name: name, Description: "combo", CreditTypeAbbrev: ab, AllowedClasses: []string{classID}}
			if g.V.BasketFee != nil && g.V.BasketFee.Fee != nil {
				if f := storedFee(g.V.BasketFee.Fee); f != nil {
					m.Fee = sdk.Coins{*f}
				}
			}
			return m
		}
		bn := fmt.Sprintf("CB%d", g.refSeq%100000)
		msgs = append(msgs, basketMsg(bn))
		msgs = append(msgs, &basetypes.MsgCreateProject{Admin: admin, ClassId: ab + "999999", Metadata: "x", Jurisdiction: "US"}) // unknown class: fails, reverting the transaction
		ref1, ref2 := fmt.Sprintf("CMB-%da", g.refSeq), fmt.Sprintf("CMB-%db", g.refSeq)
		g.script = append(g.script,
			func() *eng.Tx {
				return &eng.Tx{Msgs: []sdk.Msg{basketMsg(bn + "x")}, Tag: "class_combo/basket-of-vanished-class"}
			},
			func() *eng.Tx {
				return &eng.Tx{Msgs: []sdk.Msg{&basetypes.MsgCreateClass{Admin: other, Issuers: []string{other}, Metadata: "combo-2", CreditTypeAbbrev: ab, Fee: fee()}}, Tag: "class_combo/recreate"}
			},
			func() *eng.Tx {
				return &eng.Tx{Msgs: []sdk.Msg{&basetypes.MsgCreateProject{Admin: admin, ClassId: classID, Metadata: "combo", Jurisdiction: "US", ReferenceId: ref1}}, Tag: "class_combo/reverted-admin"}
			},
			func() *eng.Tx {
				return &eng.Tx{Msgs: []sdk.Msg{&basetypes.MsgUpdateClassAdmin{Admin: admin, ClassId: classID, NewAdmin: admin}}, Tag: "class_combo/reverted-admin"}
			},
			func() *eng.Tx {
				return &eng.Tx{Msgs: []sdk.Msg{&basetypes.MsgCreateProject{Admin: other, ClassId: classID, Metadata: "combo", Jurisdiction: "US", ReferenceId: ref2}}, Tag: "class_combo/issuer"}
			})
	}
	return &eng.Tx{Msgs: msgs, Tag: "class_combo"}
}

func (g *Gen) genCreateClass() *eng.Tx {
	if len(g.V.ClassList) >= g.P.MaxClasses && !g.hostile() {
		return nil
	}
	admin := g.actor()
	if g.V.Allowlist && !g.hostile() {
		ks := sortedKeys(g.V.Creators)
		if len(ks) > 0 {
			admin = ks[g.R.Intn(len(ks))]
		}
	}
	n := 1 + g.R.Intn(3)
	seen := map[string]bool{}
	var issuers []string
	for len(issuers) < n {
		a := g.actor()
		if seen[a] && !(g.hostile() && g.chance(0.2)) {
			continue
		}
		seen[a] = true
		issuers = append(issuers, a)
	}
	var fee *sdk.Coin
	if g.V.ClassFee != nil && g.V.ClassFee.Fee != nil {
		d, a := apiCoin(g.V.ClassFee.Fee)
		fee = g.feeFor(a, d)
	} else {
		fee = g.feeFor(nil, "")
	}
	return tx(&basetypes.MsgCreateClass{Admin: admin, Issuers: issuers, Metadata: g.metadata(), CreditTypeAbbrev: g.creditTypeAbbrev(), Fee: fee})
}

func (g *Gen) class() *baseapi.Class {
	c, _ := pick(g, g.V.ClassList)
	if c != nil {
		g.noteRelated(obs.Addr(c.Admin))
		for _, a := range sortedKeys(g.V.Issuers[c.Key]) {
			g.noteRelated(a)
		}
	}
	return c
}

// noteRelated remembers the holders of roles on the entities the current generator looked at (class
// admin, class issuers, project admin, batch issuer): a hostile signer choice uses them — the holder of
// a DIFFERENT role on the same or a related entity is the most plausible wrongly-authorised signer.
func (g *Gen) noteRelated(a string) {
	if a == "" {
		return
	}
	for _, x := range g.related {
		if x == a {
			return
		}
	}
	g.related = append(g.related, a)
}

// related id strings: absent, prefixes and extensions of present ids
func (g *Gen) mangleID(id string) string {
	switch g.R.Intn(6) {
	case 0:
		return id + "0"
	case 1:
		if len(id) > 1 {
			return id[:len(id)-1]
		}
	case 2:
		return strings.ToLower(id)
	case 3:
		return "C99"
	case 4:
		return id + "-001"
	}
	return "ZZZ01-001-20200101-20210101-001"
}

func (g *Gen) classIssuer(c *baseapi.Class) string {
	ks := sortedKeys(g.V.Issuers[c.Key])
	right := ""
	if len(ks) > 0 {
		right = ks[g.R.Intn(len(ks))]
	}
	if g.hostile() || right == "" {
		return g.wrongSigner(right, g.formerIssuers[c.Id])
	}
	return right
}

func (g *Gen) referenceID() string {
	switch g.R.Intn(6) {
	case 0:
		return ""
	case 1:
		return fmt.Sprintf("VCS-%d", g.R.Intn(5)) // likely duplicate
	case 2:
		return strings.Repeat("R", 32)
	case 3:
		if g.hostile() {
			return strings.Repeat("R", 33)
		}
	}
	g.refSeq++
	return fmt.Sprintf("REF-%d", g.refSeq)
}

func (g *Gen) genCreateProject() *eng.Tx {
	c := g.class()
	if c == nil {
		return nil
	}
	if len(g.V.ProjectList) >= g.P.MaxProjects && !g.hostile() {
		return nil
	}
	id := c.Id
	if g.hostile() && g.chance(0.3) {
		id = g.mangleID(id)
	}
	return tx(&basetypes.MsgCreateProject{Admin: g.classIssuer(c), ClassId: id, Metadata: g.metadata(), Jurisdiction: g.jurisdiction(), ReferenceId: g.referenceID()})
}

// genPrefixProject: identifiers that are string prefixes of each other (class C10 and classes C100…,
// project C01-001 and C01-0010…). Whenever a class id is a proper prefix of another class id, the longer
// one gets a project first and then the shorter one gets its first project — numbering, lookups and
// range scans of the shorter id must not see the rows of the longer one.
func (g *Gen) genPrefixProject() *eng.Tx {
	has := map[uint64]bool{}
	for _, p := range g.V.ProjectList {
		has[p.ClassKey] = true
	}
	mk := func(c *baseapi.Class) *eng.Tx {
		iss := sortedKeys(g.V.Issuers[c.Key])
		if len(iss) == 0 {
			a := obs.Addr(c.Admin)
			return &eng.Tx{Msgs: []sdk.Msg{&basetypes.MsgUpdateClassIssuers{Admin: a, ClassId: c.Id, AddIssuers: []string{a}}}, Tag: "prefix_project/add-issuer"}
		}
		g.refSeq++
		return &eng.Tx{Msgs: []sdk.Msg{&basetypes.MsgCreateProject{Admin: iss[0], ClassId: c.Id, Metadata: "prefix", Jurisdiction: "US", ReferenceId: fmt.Sprintf("PFX-%d", g.refSeq)}}, Tag: "prefix_project"}
	}
	for _, x := range g.V.ClassList {
		if has[x.Key] {
			continue
		}
		for _, y := range g.V.ClassList {
			if y.Key == x.Key || !strings.HasPrefix(y.Id, x.Id) {
				continue
			}
			if !has[y.Key] {
				return mk(y) // the longer id first
			}
			return mk(x)
		}
	}
	return nil
}

func (g *Gen) project() *baseapi.Project {
	p, _ := pick(g, g.V.ProjectList)
	if p != nil {
		g.noteRelated(obs.Addr(p.Admin))
	}
	return p
}

func (g *Gen) issuance(n int) []*basetypes.BatchIssuance {
	var out []*basetypes.BatchIssuance
	for i := 0; i < n; i++ {
		is := &basetypes.BatchIssuance{Recipient: g.recipient()}
		switch g.R.Intn(4) {
		case 0:
			is.TradableAmount = g.issueAmount()
		case 1:
			is.RetiredAmount = g.issueAmount()
			is.RetirementJurisdiction = g.jurisdiction()
			is.RetirementReason = g.reason()
		default:
			is.TradableAmount = g.issueAmount()
			is.RetiredAmount = g.issueAmount()
			is.RetirementJurisdiction = g.jurisdiction()
		}
		if i > 0 && g.chance(0.3) {
			is.Recipient = out[0].Recipient // duplicate recipient inside one message
		}
		out = append(out, is)
	}
	return out
}

var sources = []string{"polygon", "Polygon", "POLYGON", "ethereum", "celo", "unknown-chain", "polygon "}

func ethHash(n int) string {
	return fmt.Sprintf("0x%064x", n)
}
func ethAddr(n int) string {
	// contains hex letters so that letter-case variants of a contract are different strings
	return fmt.Sprintf("0x%032xabcd%04x", 0, n+1)
}

func (g *Gen) originTx(classID string, forBridge bool) *basetypes.OriginTx {
	// replay a used origin tx with some probability, preferably one consumed in the SAME class
	// (the exactly-once key is per class)
	if len(g.usedOrigin) > 0 && g.chance(0.35) {
		u := g.usedOrigin[g.R.Intn(len(g.usedOrigin))]
		if g.chance(0.8) {
			var same []originRef
			for _, x := range g.usedOrigin {
				if x.ClassID == classID {
					same = append(same, x)
				}
			}
			if len(same) > 0 {
				u = same[g.R.Intn(len(same))]
			}
		}
		src := u.Source
		if g.chance(0.3) {
			src = sources[g.R.Intn(len(sources))]
		}
		o := &basetypes.OriginTx{Id: u.ID, Source: src}
		if forBridge || g.chance(0.5) {
			o.Contract = g.contract()
		}
		return o
	}
	o := &basetypes.OriginTx{Source: sources[g.R.Intn(len(sources))]}
	if forBridge || g.chance(0.5) {
		o.Id = ethHash(g.R.Intn(40))
	} else {
		o.Id = fmt.Sprintf("tx-%d", g.R.Intn(40))
	}
	if forBridge || g.chance(0.5) {
		o.Contract = g.contract()
	}
	if g.chance(0.2) {
		o.Note = strings.Repeat("n", 512)
	}
	if g.hostile() && g.chance(0.2) {
		o.Id = []string{"", " x", strings.Repeat("a", 129), "ok id_-"}[g.R.Intn(4)]
	}
	g.usedOrigin = append(g.usedOrigin, originRef{classID, o.Id, o.Source})
	if len(g.usedOrigin) > 200 {
		g.usedOrigin = g.usedOrigin[100:]
	}
	return o
}

func (g *Gen) contract() string {
	c := ethAddr(g.R.Intn(8))
	if g.chance(0.2) {
		c = strings.ToUpper(c[2:])
		c = "0x" + c
	}
	return c
}

func (g *Gen) genCreateBatch() *eng.Tx {
	p := g.project()
	if p == nil {
		return nil
	}
	if len(g.V.BatchList) >= g.P.MaxBatches && !g.hostile() && !(g.P.Boundary >= 0.3 && len(g.V.BatchList) < g.P.MaxBatches+40 && g.chance(0.5)) {
		return nil
	}
	c := g.V.Classes[p.ClassKey]
	if c == nil {
		return nil
	}
	s := g.date()
	g.boundaryStartUsed = false
	if bs := g.boundaryStart(); bs != nil {
		s = *bs
		g.boundaryStartUsed = true
		// the batch must be admissible to the basket it is aimed at: a project of an allowed class
		if bk := g.boundaryBasket; bk != nil && !g.V.BasketClasses[bk.Id][c.Id] {
			for _, x := range g.V.ProjectList {
				if cx := g.V.Classes[x.ClassKey]; cx != nil && g.V.BasketClasses[bk.Id][cx.Id] && cx.CreditTypeAbbrev == bk.CreditTypeAbbrev && len(g.V.Issuers[cx.Key]) > 0 {
					p, c = x, cx
					break
				}
			}
		}
	}
	e := g.date()
	if bs := g.boundaryStartUsed; bs {
		// keep the aimed start date: the end date follows it
		e = s.Add(time.Duration(1+g.R.Intn(400)) * 24 * time.Hour)
		if e.Year() > 9999 {
			e = s
		}
	}
	switch g.R.Intn(5) {
	case 0:
		e = s // equal dates are accepted by message validation
	case 1, 2, 3:
		if e.Before(s) {
			s, e = e, s
		}
	}
	pid := p.Id
	if g.hostile() && g.chance(0.2) {
		pid = g.mangleID(pid)
	}
	m := &basetypes.MsgCreateBatch{Issuer: g.classIssuer(c), ProjectId: pid, Issuance: g.issuance(1 + g.R.Intn(3)), Metadata: g.metadata(), StartDate: &s, EndDate: &e, Open: g.chance(0.6)}
	if m.Metadata == "" && !g.hostile() {
		m.Metadata = "m"
	}
	if g.chance(0.35) {
		m.OriginTx = g.originTx(c.Id, false)
	}
	if g.chance(0.1) {
		// signed by the PROJECT admin (who may or may not be a class issuer — the role that counts), with
		// an origin transaction as a bridge service would send it
		m.Issuer = obs.Addr(p.Admin)
		// preferably a project whose admin is NOT an issuer of its class (the case that must be refused)
		for _, x := range g.V.ProjectList {
			if cx := g.V.Classes[x.ClassKey]; cx != nil && !g.V.Issuers[cx.Key][obs.Addr(x.Admin)] && g.chance(0.5) {
				m.ProjectId, m.Issuer, c = x.Id, obs.Addr(x.Admin), cx
				break
			}
		}
		if m.OriginTx == nil || g.chance(0.5) {
			m.OriginTx = g.originTx(c.Id, false)
		}
	}
	return tx(m)
}

func (g *Gen) batch() *baseapi.Batch {
	b, _ := pick(g, g.V.BatchList)
	if b != nil {
		g.noteRelated(obs.Addr(b.Issuer))
		if p := g.V.Projects[b.ProjectKey]; p != nil {
			g.noteRelated(obs.Addr(p.Admin))
			if c := g.V.Classes[p.ClassKey]; c != nil {
				g.noteRelated(obs.Addr(c.Admin))
			}
		}
	}
	return b
}

func (g *Gen) batchDenom(b *baseapi.Batch) string {
	if g.hostile() && g.chance(0.15) {
		switch g.R.Intn(6) {
		case 0:
			return b.Denom + "0"
		case 1:
			return b.Denom[:len(b.Denom)-1]
		case 2:
			return strings.ToLower(b.Denom) // identifiers are case-sensitive
		case 3:
			return b.Denom + " "
		case 4:
			return " " + b.Denom
		}
		return "C01-001-20200101-20210101-999"
	}
	return b.Denom
}

func (g *Gen) genMint() *eng.Tx {
	b := g.batch()
	if b == nil {
		return nil
	}
	issuer := obs.Addr(b.Issuer)
	if g.hostile() {
		// former class issuer / other class's issuer / random
		issuer = g.otherActor(issuer)
	}
	c := g.V.ClassOfBatch(b)
	cid := ""
	if c != nil {
		cid = c.Id
	}
	iss := g.issuance(1 + g.R.Intn(3))
	// retired mints smaller than what the recipient already holds retired (the row is rewritten while
	// its retired column is non-zero)
	for _, i := range iss {
		if g.chance(0.08) {
			// the rarely used directly-retired option with one decimal place too many
			i.RetiredAmount = g.overPrecise()
			if i.RetirementJurisdiction == "" {
				i.RetirementJurisdiction = "US"
			}
			continue
		}
		if g.chance(0.4) {
			_, r, _ := g.V.BalOf(i.Recipient, b.Key)
			if r.Sign() > 0 {
				i.RetiredAmount = g.amountUpTo(new(big.Rat).Quo(r, big.NewRat(2, 1)))
				if i.RetirementJurisdiction == "" {
					i.RetirementJurisdiction = "US"
				}
			}
		}
	}
	return tx(&basetypes.MsgMintBatchCredits{Issuer: issuer, BatchDenom: g.batchDenom(b), Issuance: iss, OriginTx: g.originTx(cid, false)})
}

func (g *Gen) genSeal() *eng.Tx {
	b := g.batch()
	if b == nil {
		return nil
	}
	issuer := obs.Addr(b.Issuer)
	if g.hostile() {
		issuer = g.otherActor(issuer)
	}
	return tx(&basetypes.MsgSealBatch{Issuer: issuer, BatchDenom: g.batchDenom(b)})
}

// holder picks a balance row with something tradable (or any row when hostile).
func (g *Gen) holding() *obs.Bal {
	if len(g.V.BalanceList) == 0 {
		return nil
	}
	var last *obs.Bal
	for i := 0; i < 12; i++ {
		b := g.V.BalanceList[g.R.Intn(len(g.V.BalanceList))]
		// module accounts cannot sign on a real chain: never use their holdings as a signer's
		if g.isModule(obs.Addr(b.Row.Address)) {
			continue
		}
		last = b
		if b.T != nil && b.T.Sign() > 0 {
			return b
		}
	}
	return last
}

func (g *Gen) isModule(a string) bool {
	if g.modules == nil {
		g.modules = map[string]bool{}
		for _, n := range chain.ModuleAccountNames() {
			g.modules[authtypes.NewModuleAddress(n).String()] = true
		}
	}
	return g.modules[a]
}

// owner returns the signer for an owner-gated message: the owner, or (hostile) someone else.
func (g *Gen) owner(right string) string {
	if g.hostile() && g.chance(0.5) {
		return g.otherActor(right)
	}
	return right
}

func (g *Gen) genSend() *eng.Tx {
	h := g.holding()
	if h == nil {
		return nil
	}
	owner := obs.Addr(h.Row.Address)
	b := g.V.Batches[h.Row.BatchKey]
	if b == nil {
		return nil
	}
	m := &basetypes.MsgSend{Sender: g.owner(owner), Recipient: g.recipient()}
	if m.Recipient == m.Sender && !g.hostile() {
		m.Recipient = g.otherActor(m.Sender)
	}
	if g.chance(0.06) {
		m.Recipient = strings.ToUpper(m.Sender) // a send to oneself under another spelling of the address
	}
	if g.chance(0.4) {
		// aim at a row another module also writes: a recipient with escrowed credits (open sell orders)
		// or a retired balance in the very batch that is sent
		var cands []string
		for k, bal := range g.V.Balances {
			if k.BatchKey == h.Row.BatchKey && k.Addr != owner && bal.E != nil && bal.E.Sign() > 0 {
				cands = append(cands, k.Addr)
				if bal.R == nil || bal.E.Cmp(bal.R) > 0 {
					cands = append(cands, k.Addr, k.Addr) // escrow larger than the retired column: three times as likely
				}
			}
		}
		if len(cands) > 0 {
			sort.Strings(cands)
			m.Recipient = cands[g.R.Intn(len(cands))]
		}
	}
	n := 1 + g.R.Intn(2)
	for i := 0; i < n; i++ {
		c := &basetypes.MsgSend_SendCredits{BatchDenom: g.batchDenom(b)}
		switch g.R.Intn(3) {
		case 0:
			c.TradableAmount = g.amountUpTo(half(h.T))
		case 1:
			c.RetiredAmount = g.amountUpTo(half(h.T))
			c.RetirementJurisdiction = g.jurisdiction()
			c.RetirementReason = g.reason()
		default:
			c.TradableAmount = g.amountUpTo(third(h.T))
			c.RetiredAmount = g.amountUpTo(third(h.T))
			c.RetirementJurisdiction = g.jurisdiction()
		}
		m.Credits = append(m.Credits, c)
		// second entry: same batch again (duplicate entries inside one message) or another holding
		if g.chance(0.5) {
			if h2 := g.holding(); h2 != nil && obs.Addr(h2.Row.Address) == owner {
				if b2 := g.V.Batches[h2.Row.BatchKey]; b2 != nil {
					b, h = b2, h2
				}
			}
		}
	}
	return tx(m)
}

func half(r *big.Rat) *big.Rat {
	if r == nil {
		return new(big.Rat)
	}
	return r
}
func third(r *big.Rat) *big.Rat {
	if r == nil {
		return new(big.Rat)
	}
	return new(big.Rat).Quo(r, big.NewRat(2, 1))
}

func (g *Gen) credits(owner string, h *obs.Bal) []*basetypes.Credits {
	b := g.V.Batches[h.Row.BatchKey]
	if b == nil {
		return nil
	}
	out := []*basetypes.Credits{{BatchDenom: g.batchDenom(b), Amount: g.amountUpTo(h.T)}}
	if g.chance(0.3) {
		// duplicate batch entry or another batch of the same owner
		if g.chance(0.5) {
			out = append(out, &basetypes.Credits{BatchDenom: b.Denom, Amount: g.amountUpTo(third(h.T))})
		} else {
			// another batch the same owner holds — preferably one of the SAME PROJECT (sibling batches share
			// project, class and credit type, but nothing else)
			var sib, any []*obs.Bal
			for k, bal := range g.V.Balances {
				if k.Addr != owner || k.BatchKey == h.Row.BatchKey || bal.T == nil || bal.T.Sign() <= 0 {
					continue
				}
				if b2 := g.V.Batches[k.BatchKey]; b2 != nil {
					any = append(any, bal)
					if b2.ProjectKey == b.ProjectKey {
						sib = append(sib, bal)
					}
				}
			}
			pickFrom := any
			if len(sib) > 0 && g.chance(0.7) {
				pickFrom = sib
			}
			sort.Slice(pickFrom, func(i, j int) bool { return pickFrom[i].Row.BatchKey < pickFrom[j].Row.BatchKey })
			if len(pickFrom) > 0 {
				h2 := pickFrom[g.R.Intn(len(pickFrom))]
				if b2 := g.V.Batches[h2.Row.BatchKey]; b2 != nil {
					out = append(out, &basetypes.Credits{BatchDenom: b2.Denom, Amount: g.amountUpTo(third(h2.T))})
				}
			}
		}
	}
	return out
}

func (g *Gen) genRetire() *eng.Tx {
	h := g.holding()
	if h == nil {
		return nil
	}
	owner := obs.Addr(h.Row.Address)
	cr := g.credits(owner, h)
	if cr == nil {
		return nil
	}
	return tx(&basetypes.MsgRetire{Owner: g.owner(owner), Credits: cr, Jurisdiction: g.jurisdiction(), Reason: g.reason()})
}

func (g *Gen) genCancel() *eng.Tx {
	h := g.holding()
	if h == nil {
		return nil
	}
	owner := obs.Addr(h.Row.Address)
	cr := g.credits(owner, h)
	if cr == nil {
		return nil
	}
	return tx(&basetypes.MsgCancel{Owner: g.owner(owner), Credits: cr, Reason: g.reason()})
}

func (g *Gen) classAdminSigner(c *baseapi.Class) string {
	right := obs.Addr(c.Admin)
	if g.hostile() {
		return g.wrongSigner(right, g.formerClassAdmins[c.Id])
	}
	return right
}

func (g *Gen) genUpdateClassAdmin() *eng.Tx {
	c := g.class()
	if c == nil {
		return nil
	}
	signer := g.classAdminSigner(c)
	na := g.actor()
	if g.chance(0.1) {
		na = signer // transfer to self
	}
	if signer == obs.Addr(c.Admin) {
		remember(g.formerClassAdmins, c.Id, signer)
	}
	id := c.Id
	if g.hostile() && g.chance(0.2) {
		id = g.mangleID(id)
	}
	if g.hostile() && g.chance(0.15) {
		na = strings.ToUpper(signer) // a transfer to oneself, spelled differently
	}
	return tx(&basetypes.MsgUpdateClassAdmin{Admin: signer, ClassId: id, NewAdmin: na})
}

func (g *Gen) genUpdateClassIssuers() *eng.Tx {
	c := g.class()
	if c == nil {
		return nil
	}
	m := &basetypes.MsgUpdateClassIssuers{Admin: g.classAdminSigner(c), ClassId: c.Id}
	cur := sortedKeys(g.V.Issuers[c.Key])
	if g.chance(0.6) {
		a := g.actor()
		m.AddIssuers = append(m.AddIssuers, a)
	}
	if len(cur) > 1 && g.chance(0.5) || g.hostile() {
		if len(cur) > 0 {
			r := cur[g.R.Intn(len(cur))]
			m.RemoveIssuers = append(m.RemoveIssuers, r)
			remember(g.formerIssuers, c.Id, r)
		} else {
			m.RemoveIssuers = append(m.RemoveIssuers, g.actor())
		}
	}
	if g.chance(0.25) {
		// a stale revocation list: an address that is not (or no longer) an issuer listed before a real one
		stale := g.actor()
		if fs := g.formerIssuers[c.Id]; len(fs) > 0 && g.chance(0.5) {
			stale = fs[g.R.Intn(len(fs))]
		}
		dup := false
		for _, r := range m.RemoveIssuers {
			if r == stale {
				dup = true
			}
		}
		if !dup {
			m.RemoveIssuers = append([]string{stale}, m.RemoveIssuers...)
			if len(cur) > 1 && len(m.RemoveIssuers) == 1 {
				m.RemoveIssuers = append(m.RemoveIssuers, cur[g.R.Intn(len(cur))])
			}
		}
	}
	if len(m.AddIssuers) == 0 && len(m.RemoveIssuers) == 0 {
		m.AddIssuers = []string{g.actor()}
	}
	return tx(m)
}

func (g *Gen) genUpdateClassMetadata() *eng.Tx {
	c := g.class()
	if c == nil {
		return nil
	}
	return tx(&basetypes.MsgUpdateClassMetadata{Admin: g.classAdminSigner(c), ClassId: c.Id, NewMetadata: g.metadata()})
}

func (g *Gen) projectAdminSigner(p *baseapi.Project) string {
	right := obs.Addr(p.Admin)
	if g.hostile() {
		return g.wrongSigner(right, g.formerProjectAdmins[p.Id])
	}
	return right
}

func (g *Gen) genUpdateProjectAdmin() *eng.Tx {
	p := g.project()
	if p == nil {
		return nil
	}
	signer := g.projectAdminSigner(p)
	if signer == obs.Addr(p.Admin) {
		remember(g.formerProjectAdmins, p.Id, signer)
	}
	npa := g.actor()
	if g.hostile() && g.chance(0.15) {
		npa = strings.ToUpper(signer) // a transfer to oneself, spelled differently
	}
	return tx(&basetypes.MsgUpdateProjectAdmin{Admin: signer, ProjectId: p.Id, NewAdmin: npa})
}

func (g *Gen) genUpdateProjectMetadata() *eng.Tx {
	p := g.project()
	if p == nil {
		return nil
	}
	return tx(&basetypes.MsgUpdateProjectMetadata{Admin: g.projectAdminSigner(p), ProjectId: p.Id, NewMetadata: g.metadata()})
}

func (g *Gen) genUpdateBatchMetadata() *eng.Tx {
	b := g.batch()
	if b == nil {
		return nil
	}
	issuer := obs.Addr(b.Issuer)
	if g.hostile() {
		issuer = g.otherActor(issuer)
	}
	md := g.metadata()
	if md == "" && !g.hostile() {
		md = "m2"
	}
	return tx(&basetypes.MsgUpdateBatchMetadata{Issuer: issuer, BatchDenom: g.batchDenom(b), NewMetadata: md})
}

func (g *Gen) genBridge() *eng.Tx {
	// prefer holdings in batches with a contract
	var h *obs.Bal
	for i := 0; i < 12; i++ {
		c := g.holding()
		if c == nil {
			return nil
		}
		h = c
		if _, ok := g.V.ContractOf[c.Row.BatchKey]; ok && c.T.Sign() > 0 {
			break
		}
	}
	owner := obs.Addr(h.Row.Address)
	cr := g.credits(owner, h)
	if cr == nil {
		return nil
	}
	if g.chance(0.3) {
		// longer lists over the owner's holdings, with repeated denoms and with bound and unbound
		// batches in any order (every entry must be checked, wherever it stands)
		var hs []*obs.Bal
		for k, bal := range g.V.Balances {
			if k.Addr == owner && bal.T != nil && bal.T.Sign() > 0 {
				hs = append(hs, bal)
			}
		}
		sort.Slice(hs, func(i, j int) bool { return hs[i].Row.BatchKey < hs[j].Row.BatchKey })
		if len(hs) > 0 {
			g.quiet = true
			cr = cr[:1]
			n := 2 + g.R.Intn(3)
			for i := 0; i < n; i++ {
				x := hs[g.R.Intn(len(hs))]
				if i == 0 && g.chance(0.6) {
					x = h // the first entry's batch again
				} else if g.chance(0.5) {
					// a bound batch of the same project as the first entry's batch
					if hb := g.V.Batches[h.Row.BatchKey]; hb != nil {
						for _, y := range hs {
							if yb := g.V.Batches[y.Row.BatchKey]; yb != nil && yb.ProjectKey == hb.ProjectKey && y.Row.BatchKey != h.Row.BatchKey {
								if _, bound := g.V.ContractOf[y.Row.BatchKey]; bound {
									x = y
								}
							}
						}
					}
				}
				if b := g.V.Batches[x.Row.BatchKey]; b != nil {
					cr = append(cr, &basetypes.Credits{BatchDenom: b.Denom, Amount: g.amountUpTo(new(big.Rat).Quo(x.T, big.NewRat(8, 1)))})
				}
			}
			g.quiet = false
		}
	}
	return tx(&basetypes.MsgBridge{Owner: g.owner(owner), Target: sources[g.R.Intn(len(sources))], Recipient: ethAddr(g.R.Intn(100)), Credits: cr})
}

// genBridgeCombo: the bridge-target allow list through its whole life around one holder of bridged
// credits — a chain is added INSIDE a transaction whose bridge-out then fails (everything reverted), the
// holder bridges out to that chain (must be refused), governance really adds it, the holder bridges out
// (accepted), governance removes it, the holder tries once more (must be refused).
func (g *Gen) genBridgeCombo() *eng.Tx {
	var h *obs.Bal
	var keys []obs.BalKey
	for k := range g.V.Balances {
		keys = append(keys, k)
	}
	sort.Slice(keys, func(i, j int) bool {
		if keys[i].BatchKey != keys[j].BatchKey {
			return keys[i].BatchKey < keys[j].BatchKey
		}
		return keys[i].Addr < keys[j].Addr
	})
	for _, k := range keys {
		bal := g.V.Balances[k]
		if _, ok := g.V.ContractOf[k.BatchKey]; ok && bal.T != nil && bal.T.Cmp(big.NewRat(1, 1)) > 0 && (h == nil || g.chance(0.3)) {
			h = bal
		}
	}
	if h == nil {
		return nil
	}
	b := g.V.Batches[h.Row.BatchKey]
	if b == nil {
		return nil
	}
	owner := obs.Addr(h.Row.Address)
	chain := []string{"celo", "Celo", "gnosis", "Optimism"}[g.R.Intn(4)]
	gov := g.Gov
	tooMuch := trimDec(ratToDec(new(big.Rat).Add(h.T, big.NewRat(1, 1)), 6))
	bridge := func(tag, amt string) func() *eng.Tx {
		return func() *eng.Tx {
			return &eng.Tx{Msgs: []sdk.Msg{&basetypes.MsgBridge{Owner: owner, Target: chain, Recipient: ethAddr(7), Credits: []*basetypes.Credits{{BatchDenom: b.Denom, Amount: amt}}}}, Tag: tag}
		}
	}
	one := func(tag string, m sdk.Msg) func() *eng.Tx {
		return func() *eng.Tx { return &eng.Tx{Msgs: []sdk.Msg{m}, Tag: tag} }
	}
	g.script = append(g.script,
		func() *eng.Tx {
			return &eng.Tx{Msgs: []sdk.Msg{
				&basetypes.MsgAddAllowedBridgeChain{Authority: gov, ChainName: chain},
				&basetypes.MsgBridge{Owner: owner, Target: chain, Recipient: ethAddr(7), Credits: []*basetypes.Credits{{BatchDenom: b.Denom, Amount: tooMuch}}}, // more than the owner has: fails, reverting the transaction
			}, Tag: "bridge_combo/reverted-add"}
		},
		bridge("bridge_combo/after-reverted-add", "0.25"),
		one("bridge_combo/add", &basetypes.MsgAddAllowedBridgeChain{Authority: gov, ChainName: chain}),
		bridge("bridge_combo/allowed", "0.25"),
		func() *eng.Tx {
			return &eng.Tx{Msgs: []sdk.Msg{&basetypes.MsgBridge{Owner: owner, Target: strings.ToUpper(chain), Recipient: ethAddr(7), Credits: []*basetypes.Credits{{BatchDenom: b.Denom, Amount: "0.125"}}}}, Tag: "bridge_combo/allowed-other-spelling"}
		},
		one("bridge_combo/remove", &basetypes.MsgRemoveAllowedBridgeChain{Authority: gov, ChainName: chain}),
		bridge("bridge_combo/removed", "0.25"))
	return &eng.Tx{Msgs: []sdk.Msg{&basetypes.MsgRemoveAllowedBridgeChain{Authority: gov, ChainName: chain}}, Tag: "bridge_combo"}
}

func (g *Gen) genBridgeReceive() *eng.Tx {
	c := g.class()
	if c == nil {
		return nil
	}
	if len(g.V.BatchList) >= g.P.MaxBatches+10 {
		return nil
	}
	s := g.date()
	e := g.date()
	if e.Before(s) && !g.hostile() {
		s, e = e, s
	}
	o := g.originTx(c.Id, true)
	issuer := g.classIssuer(c)
	// existing contract → the batch issuer must sign
	for _, bc := range g.V.Contracts {
		if bc.ClassKey == c.Key && strings.EqualFold(bc.Contract, o.Contract) && bc.Contract == o.Contract {
			if b := g.V.Batches[bc.BatchKey]; b != nil && !g.hostile() {
				issuer = obs.Addr(b.Issuer)
			}
		}
	}
	ref := g.referenceID()
	if ref == "" {
		ref = "BR-1"
	}
	if len(ref) > 32 {
		ref = ref[:32]
	}
	md := g.metadata()
	if md == "" {
		md = "pm"
	}
	bmd := g.metadata()
	if bmd == "" {
		bmd = "bm"
	}
	if g.chance(0.15) {
		// multi-byte characters around the limit: at most 256 characters but more than 256 bytes (the
		// batch is created by the keeper directly, this message's own validation is the only guard)
		bmd = strings.Repeat("é", 129+g.R.Intn(128))
		md = "pm"
	}
	amt := g.issueAmount()
	return tx(&basetypes.MsgBridgeReceive{Issuer: issuer, ClassId: c.Id,
		Project:  &basetypes.MsgBridgeReceive_Project{ReferenceId: ref, Jurisdiction: g.jurisdiction(), Metadata: md},
		Batch:    &basetypes.MsgBridgeReceive_Batch{Recipient: g.recipient(), Amount: amt, StartDate: &s, EndDate: &e, Metadata: bmd},
		OriginTx: o})
}

func (g *Gen) genAllowlist() *eng.Tx {
	return tx(&basetypes.MsgSetClassCreatorAllowlist{Authority: g.govSigner(), Enabled: g.chance(0.4)})
}

func (g *Gen) genClassCreator() *eng.Tx {
	if g.chance(0.5) {
		return tx(&basetypes.MsgAddClassCreator{Authority: g.govSigner(), Creator: g.actor()})
	}
	ks := sortedKeys(g.V.Creators)
	c := g.actor()
	if len(ks) > 0 && !g.hostile() {
		c = ks[g.R.Intn(len(ks))]
	}
	return tx(&basetypes.MsgRemoveClassCreator{Authority: g.govSigner(), Creator: c})
}

// feeValue draws a fee for a governance fee update. cur is the fee currently stored (nil if none): a
// third of the random draws keep the stored AMOUNT and change only the denom, another third keep the
// denom and change only the amount — an update that differs from the stored value in one component only.
func (g *Gen) feeValue(cur *sdk.Coin) *sdk.Coin {
	switch g.R.Intn(6) {
	case 0:
		return nil
	case 1:
		c := sdk.Coin{Denom: g.bankDenom(), Amount: sdk.NewInt(0)}
		return &c
	case 2:
		c := sdk.Coin{Denom: g.bankDenom(), Amount: sdk.NewInt(1)}
		return &c
	case 3:
		c := sdk.Coin{Denom: "stake", Amount: sdk.NewInt(20000000)}
		return &c
	}
	c := sdk.Coin{Denom: g.bankDenom(), Amount: sdk.NewInt(int64(1 + g.R.Intn(5000000)))}
	if cur != nil && cur.Amount.IsPositive() {
		switch c.Amount.Int64() % 3 {
		case 0:
			c.Amount = cur.Amount
			if c.Denom == cur.Denom {
				for i, d := range BankDenoms {
					if d == cur.Denom {
						c.Denom = BankDenoms[(i+1)%len(BankDenoms)]
					}
				}
			}
		case 1:
			c.Denom = cur.Denom
		}
	}
	return &c
}

func storedFee(c interface {
	GetDenom() string
	GetAmount() string
}) *sdk.Coin {
	d, a := apiCoin(c)
	if a == nil || a.Sign() <= 0 || d == "" {
		return nil
	}
	r := sdk.Coin{Denom: d, Amount: sdk.NewIntFromBigInt(a)}
	return &r
}

func (g *Gen) genClassFee() *eng.Tx {
	var cur *sdk.Coin
	if g.V.ClassFee != nil && g.V.ClassFee.Fee != nil {
		cur = storedFee(g.V.ClassFee.Fee)
	}
	return tx(&basetypes.MsgUpdateClassFee{Authority: g.govSigner(), Fee: g.feeValue(cur)})
}

// genCreatorCombo: the class-creator role through its whole life in consecutive transactions — the
// allowlist is switched on, X is put on it (half of the time first inside a transaction that a later
// message reverts, after which X must still be refused), X creates a class, governance removes X, X
// tries again (must be refused: a former role holder), then X is re-added or the allowlist is switched
// off and X creates once more.
func (g *Gen) genCreatorCombo() *eng.Tx {
	if len(g.V.ClassList) >= g.P.MaxClasses+8 {
		return nil
	}
	x := g.actor()
	gov := g.Gov
	fee := func() *sdk.Coin {
		if g.V.ClassFee != nil && g.V.ClassFee.Fee != nil {
			return storedFee(g.V.ClassFee.Fee)
		}
		return nil
	}
	create := func(tag string) func() *eng.Tx {
		return func() *eng.Tx {
			return &eng.Tx{Msgs: []sdk.Msg{&basetypes.MsgCreateClass{Admin: x, Issuers: []string{x}, Metadata: "creator-combo", CreditTypeAbbrev: "C", Fee: fee()}}, Tag: tag}
		}
	}
	one := func(tag string, m sdk.Msg) func() *eng.Tx {
		return func() *eng.Tx { return &eng.Tx{Msgs: []sdk.Msg{m}, Tag: tag} }
	}
	if g.chance(0.5) {
		g.script = append(g.script,
			func() *eng.Tx {
				return &eng.Tx{Msgs: []sdk.Msg{
					&basetypes.MsgAddClassCreator{Authority: gov, Creator: x},
					&basetypes.MsgCreateClass{Admin: x, Issuers: []string{x}, Metadata: "creator-combo", CreditTypeAbbrev: "C", Fee: fee()},
					&basetypes.MsgCreateProject{Admin: x, ClassId: "C999999", Metadata: "x", Jurisdiction: "US"}, // unknown class: reverts the transaction
				}, Tag: "creator_combo/reverted-add"}
			},
			create("creator_combo/after-reverted-add"))
	}
	g.script = append(g.script,
		one("creator_combo/add", &basetypes.MsgAddClassCreator{Authority: gov, Creator: x}),
		create("creator_combo/listed"),
		one("creator_combo/remove", &basetypes.MsgRemoveClassCreator{Authority: gov, Creator: x}),
		create("creator_combo/former"))
	if g.chance(0.5) {
		g.script = append(g.script, one("creator_combo/re-add", &basetypes.MsgAddClassCreator{Authority: gov, Creator: x}), create("creator_combo/listed-again"))
	} else {
		g.script = append(g.script, one("creator_combo/off", &basetypes.MsgSetClassCreatorAllowlist{Authority: gov, Enabled: false}), create("creator_combo/list-off"))
	}
	return &eng.Tx{Msgs: []sdk.Msg{&basetypes.MsgSetClassCreatorAllowlist{Authority: gov, Enabled: true}}, Tag: "creator_combo"}
}

func (g *Gen) genBridgeChain() *eng.Tx {
	n := sources[g.R.Intn(len(sources))]
	if g.chance(0.6) {
		return tx(&basetypes.MsgAddAllowedBridgeChain{Authority: g.govSigner(), ChainName: n})
	}
	return tx(&basetypes.MsgRemoveAllowedBridgeChain{Authority: g.govSigner(), ChainName: n})
}

func (g *Gen) genBurnRegen() *eng.Tx {
	a := g.actor()
	amt := fmt.Sprintf("%d", 1+g.R.Intn(100000))
	if g.hostile() {
		amt = []string{"0", "-5", "1.5", "", "99999999999999999999999999999999999999999999999999"}[g.R.Intn(5)]
	}
	return tx(&basetypes.MsgBurnRegen{Burner: a, Amount: amt, Reason: g.reason()})
}

func (g *Gen) genUnimplemented() *eng.Tx {
	a := g.actor()
	switch g.R.Intn(4) {
	case 0:
		return tx(&basetypes.MsgCreateUnregisteredProject{Admin: a, Metadata: "m", Jurisdiction: "US", ReferenceId: "r"})
	case 1:
		pid := "C01-001"
		if p := g.project(); p != nil {
			pid = p.Id
		}
		return tx(&basetypes.MsgCreateOrUpdateApplication{ProjectAdmin: a, ProjectId: pid, ClassId: "C01", Metadata: "m"})
	case 2:
		return tx(&basetypes.MsgUpdateProjectEnrollment{Issuer: a, ProjectId: "C01-001", ClassId: "C01", NewStatus: 1, Metadata: "m"})
	}
	c := sdk.NewInt64Coin("stake", 5)
	return tx(&basetypes.MsgUpdateProjectFee{Authority: g.Gov, Fee: &c})
}

// bank MsgSend moves coins and basket tokens between users.
func (g *Gen) genBankSend() *eng.Tx {
	from := g.actor()
	bal := g.S.Bank[from]
	ds := sortedKeys(bal)
	if len(ds) == 0 {
		return nil
	}
	// prefer basket tokens
	d := ds[g.R.Intn(len(ds))]
	for i := 0; i < 3 && !strings.HasPrefix(d, "eco."); i++ {
		d = ds[g.R.Intn(len(ds))]
	}
	amt := new(big.Int).Set(bal[d])
	switch g.R.Intn(4) {
	case 0:
	case 1:
		amt.Quo(amt, big.NewInt(2))
	default:
		amt.Quo(amt, big.NewInt(int64(3+g.R.Intn(1000))))
	}
	if g.hostile() && g.chance(0.3) {
		amt.Add(bal[d], big.NewInt(1))
	}
	if amt.Sign() <= 0 {
		return nil
	}
	return tx(&banktypes.MsgSend{FromAddress: from, ToAddress: g.recipient(), Amount: sdk.Coins{g.coin(d, amt)}})
}

var _ = time.Second

// boundaryStart aims a batch start date at the date-criterion boundary of an existing basket:
// exactly on it, one nanosecond / one second either side, or slightly ahead of a moving window.
func (g *Gen) boundaryStart() *time.Time {
	if len(g.V.BasketList) == 0 || !g.chance(g.P.Boundary) {
		return nil
	}
	bk := g.V.BasketList[g.R.Intn(len(g.V.BasketList))]
	for i := 0; i < 4 && (bk.DateCriteria == nil || (bk.DateCriteria.MinStartDate != nil && g.chance(0.5))); i++ {
		bk = g.V.BasketList[g.R.Intn(len(g.V.BasketList))] // moving criteria (window, years) preferred
	}
	c := bk.DateCriteria
	if c == nil {
		return nil
	}
	var min time.Time
	switch {
	case c.MinStartDate != nil:
		min = c.MinStartDate.AsTime()
	case c.StartDateWindow != nil:
		if c.StartDateWindow.Seconds > 9_000_000_000 {
			return nil
		}
		min = g.Now.Add(-c.StartDateWindow.AsDuration())
	case c.YearsInThePast != 0:
		min = time.Date(g.Now.Year()-int(c.YearsInThePast), 1, 1, 0, 0, 0, 0, time.UTC)
	default:
		return nil
	}
	d := []time.Duration{0, 0, 0, time.Nanosecond, -time.Nanosecond, time.Second, -time.Second, 500 * time.Millisecond, 5 * time.Second, 30 * time.Second}[g.R.Intn(10)]
	if c.StartDateWindow != nil && g.chance(0.6) {
		// a moving window: start far enough ahead of the boundary that a later block time can be aimed at it
		d = []time.Duration{10 * time.Minute, 2 * time.Hour, 20 * time.Hour}[g.R.Intn(3)]
	}
	t := min.Add(d).UTC()
	if t.Year() < 1 || t.Year() > 9999 {
		return nil
	}
	g.boundaryBasket = bk
	if os.Getenv("VERIF_DEBUG") != "" {
		fmt.Printf("# DEBUG boundaryStart basket %s window=%v years=%d d=%s start=%s now=%s\n", bk.BasketDenom, c.StartDateWindow != nil, c.YearsInThePast, d, t, g.Now)
	}
	return &t
}

// genBridgeReceiveBound: a further receipt for a contract that is already bound to a batch (sealed
// batches preferred), signed by the batch issuer (or, hostile, by a class issuer who is not the batch
// issuer), with a fresh origin transaction from an allowed chain.
func (g *Gen) genBridgeReceiveBound() *eng.Tx {
	if len(g.V.Contracts) == 0 {
		return nil
	}
	bc := g.V.Contracts[g.R.Intn(len(g.V.Contracts))]
	// prefer a sealed batch (the receipt must be refused) or an open batch that already has cancelled
	// or retired supply (the receipt rewrites a supply row whose other columns are non-zero)
	wantSealed := g.chance(0.5)
	for i := 0; i < 8; i++ {
		c := g.V.Contracts[g.R.Intn(len(g.V.Contracts))]
		b := g.V.Batches[c.BatchKey]
		if b == nil {
			continue
		}
		if wantSealed && !b.Open {
			bc = c
			break
		}
		if !wantSealed && b.Open {
			if sp := g.V.Supplies[b.Key]; sp != nil && sp.C != nil && sp.C.Sign() > 0 {
				bc = c
				break
			}
		}
	}
	b := g.V.Batches[bc.BatchKey]
	cl := g.V.Classes[bc.ClassKey]
	if b == nil || cl == nil {
		return nil
	}
	issuer := obs.Addr(b.Issuer)
	if g.hostile() {
		issuer = g.classIssuer(cl)
	}
	src := "polygon"
	ks := sortedKeys(g.V.BridgeChains)
	if len(ks) > 0 {
		src = ks[g.R.Intn(len(ks))]
	}
	s, e := g.date(), g.date()
	if e.Before(s) {
		s, e = e, s
	}
	return tx(&basetypes.MsgBridgeReceive{Issuer: issuer, ClassId: cl.Id,
		Project:  &basetypes.MsgBridgeReceive_Project{ReferenceId: "BR-bound", Jurisdiction: "US", Metadata: "pm"},
		Batch:    &basetypes.MsgBridgeReceive_Batch{Recipient: g.recipient(), Amount: g.issueAmount(), StartDate: &s, EndDate: &e, Metadata: "bm"},
		OriginTx: g.boundOrigin(cl.Id, src, bc.Contract)})
}

// boundOrigin: a fresh origin transaction, or (replay) one that was already consumed in this class,
// with exactly the same id and source string.
func (g *Gen) boundOrigin(classID, src, contract string) *basetypes.OriginTx {
	if g.chance(0.35) {
		var same []originRef
		for _, x := range g.usedOrigin {
			if x.ClassID == classID && strings.HasPrefix(x.ID, "0x") {
				same = append(same, x)
			}
		}
		if len(same) > 0 {
			u := same[g.R.Intn(len(same))]
			return &basetypes.OriginTx{Id: u.ID, Source: u.Source, Contract: contract}
		}
	}
	if g.chance(0.4) {
		src = sources[g.R.Intn(len(sources))] // letter-case variants of chain names
	}
	o := &basetypes.OriginTx{Id: ethHash(5000 + g.R.Intn(100000)), Source: src, Contract: contract}
	g.usedOrigin = append(g.usedOrigin, originRef{classID, o.Id, o.Source})
	return o
}

// genMintReplay replays an origin transaction that state says was already consumed in a class — the
// exact (id, source) pair, or a letter-case variant of the source — through MintBatchCredits on an
// open batch of that class, signed by the batch issuer with an otherwise valid issuance.
// genCreateBatchReplay: the replay of a consumed origin transaction through the OTHER issuing paths —
// a direct CreateBatch, or a BridgeReceive naming a contract that is not bound yet (which creates a
// batch) — with exactly the stored id and source (sources with upper-case letters preferred).
func (g *Gen) genCreateBatchReplay() *eng.Tx {
	if len(g.V.OriginTxs) == 0 {
		return nil
	}
	o := g.V.OriginTxs[g.R.Intn(len(g.V.OriginTxs))]
	for i := 0; i < 4; i++ {
		x := g.V.OriginTxs[g.R.Intn(len(g.V.OriginTxs))]
		if x.Source != strings.ToLower(x.Source) {
			o = x
			break
		}
	}
	c := g.V.Classes[o.ClassKey]
	if c == nil {
		return nil
	}
	iss := sortedKeys(g.V.Issuers[c.Key])
	if len(iss) == 0 {
		return nil
	}
	src := o.Source
	if g.chance(0.2) {
		src = strings.ToLower(src)
	}
	s, e := time.Date(2018, 1, 1, 0, 0, 0, 0, time.UTC), time.Date(2018, 6, 1, 0, 0, 0, 0, time.UTC)
	g.refSeq++
	if g.chance(0.5) {
		for _, p := range g.V.ProjectList {
			if p.ClassKey == c.Key {
				return tx(&basetypes.MsgCreateBatch{Issuer: iss[0], ProjectId: p.Id, Metadata: "replay", StartDate: &s, EndDate: &e, Open: true,
					Issuance: []*basetypes.BatchIssuance{{Recipient: g.actor(), TradableAmount: "3"}}, OriginTx: &basetypes.OriginTx{Id: o.Id, Source: src, Contract: ethAddr(5000 + g.refSeq)}})
			}
		}
	}
	return tx(&basetypes.MsgBridgeReceive{Issuer: iss[0], ClassId: c.Id,
		Project:  &basetypes.MsgBridgeReceive_Project{ReferenceId: fmt.Sprintf("RPL-%d", g.refSeq), Jurisdiction: "US", Metadata: "pm"},
		Batch:    &basetypes.MsgBridgeReceive_Batch{Recipient: g.actor(), Amount: "3", StartDate: &s, EndDate: &e, Metadata: "bm"},
		OriginTx: &basetypes.OriginTx{Id: o.Id, Source: src, Contract: ethAddr(5000 + g.refSeq)}})
}

func (g *Gen) genMintReplay() *eng.Tx {
	if len(g.V.OriginTxs) == 0 {
		return nil
	}
	o := g.V.OriginTxs[g.R.Intn(len(g.V.OriginTxs))]
	for i := 0; i < 4; i++ {
		x := g.V.OriginTxs[g.R.Intn(len(g.V.OriginTxs))]
		if x.Source != strings.ToLower(x.Source) {
			o = x
			break
		}
	}
	var open []*baseapi.Batch
	for _, b := range g.V.BatchList {
		if !b.Open {
			continue
		}
		if c := g.V.ClassOfBatch(b); c != nil && c.Key == o.ClassKey {
			open = append(open, b)
		}
	}
	if len(open) == 0 {
		return nil
	}
	b := open[g.R.Intn(len(open))]
	src := o.Source
	switch g.R.Intn(4) {
	case 0:
		src = strings.ToLower(src)
	case 1:
		src = strings.ToUpper(src)
	}
	return tx(&basetypes.MsgMintBatchCredits{Issuer: obs.Addr(b.Issuer), BatchDenom: b.Denom,
		Issuance: []*basetypes.BatchIssuance{{Recipient: g.actor(), TradableAmount: fmt.Sprintf("%d", 1+g.R.Intn(50))}},
		OriginTx: &basetypes.OriginTx{Id: o.Id, Source: src}})
}
