// Package irimon is the pure-call part of the runtime monitor for property C15 ("IRI <-> content hash
// conversion is a lossless bijection"), see /verif/DESIGN.md C15. The on-chain query part feeds the same
// Monitor (ObserveHash / ObserveString) or merges Result.Counters.
package irimon

import (
	"bytes"
	"crypto/sha256"
	"encoding/binary"
	"encoding/hex"
	"encoding/json"
	"fmt"
	"math/rand"
	"sort"
	"strings"
	"sync"

	"github.com/regen-network/regen-ledger/x/data/v3"

	"verifharness/pure/known"
)

type Finding = known.Finding

const (
	Property = "C15"
	// MaxViolations distinct violations are written out; exploration continues and all are counted.
	MaxViolations = 10
	// coverage floors (else INCONCLUSIVE)
	FloorValidHashes     = 1000
	FloorSiblingPairs    = 1000
	FloorAcceptedStrings = 100
	FloorPerMutation     = 20
)

// TierSize: PRNG-determined counts, never wall-clock budgets.
type TierSize struct {
	Workers          int
	HashesPerWorker  int
	StringsPerWorker int
}

var Tiers = map[string]TierSize{
	"quick":    {Workers: 1, HashesPerWorker: 200_000, StringsPerWorker: 100_000},
	"thorough": {Workers: 16, HashesPerWorker: 2_000_000, StringsPerWorker: 1_000_000},
}

type Config struct {
	Seed  int64
	Tier  string
	Known []Finding
	// overrides (0 = tier default)
	Workers          int
	HashesPerWorker  int
	StringsPerWorker int
}

// HashDesc is the JSON form of a content hash in replay files and witnesses.
type HashDesc struct {
	Kind                      string `json:"kind"` // "raw" | "graph"
	HashHex                   string `json:"hash_hex"`
	DigestAlgorithm           uint32 `json:"digest_algorithm"`
	CanonicalizationAlgorithm uint32 `json:"canonicalization_algorithm,omitempty"`
	MerkleTree                uint32 `json:"merkle_tree,omitempty"`
	FileExtension             string `json:"file_extension,omitempty"`
}

func Describe(h *data.ContentHash) HashDesc {
	switch {
	case h == nil:
		return HashDesc{Kind: "nil"}
	case h.Raw != nil && h.Graph != nil:
		return HashDesc{Kind: "both"}
	case h.Raw != nil:
		return HashDesc{Kind: "raw", HashHex: hex.EncodeToString(h.Raw.Hash), DigestAlgorithm: h.Raw.DigestAlgorithm, FileExtension: h.Raw.FileExtension}
	case h.Graph != nil:
		return HashDesc{Kind: "graph", HashHex: hex.EncodeToString(h.Graph.Hash), DigestAlgorithm: h.Graph.DigestAlgorithm,
			CanonicalizationAlgorithm: h.Graph.CanonicalizationAlgorithm, MerkleTree: h.Graph.MerkleTree}
	}
	return HashDesc{Kind: "empty"}
}

func (d HashDesc) Build() (*data.ContentHash, error) {
	bz, err := hex.DecodeString(d.HashHex)
	if err != nil {
		return nil, err
	}
	switch d.Kind {
	case "raw":
		return &data.ContentHash{Raw: &data.ContentHash_Raw{Hash: bz, DigestAlgorithm: d.DigestAlgorithm, FileExtension: d.FileExtension}}, nil
	case "graph":
		return &data.ContentHash{Graph: &data.ContentHash_Graph{Hash: bz, DigestAlgorithm: d.DigestAlgorithm,
			CanonicalizationAlgorithm: d.CanonicalizationAlgorithm, MerkleTree: d.MerkleTree}}, nil
	}
	return nil, fmt.Errorf("cannot build a content hash of kind %q", d.Kind)
}

// Case is the self-contained replay payload: the hashes are fed to a fresh monitor in order, then the strings.
// It is also the witness format of a C15 known finding.
type Case struct {
	Hashes  []HashDesc `json:"hashes,omitempty"`
	Strings []string   `json:"strings,omitempty"`
	IRI     string     `json:"iri,omitempty"`
	Parsed  *HashDesc  `json:"parsed,omitempty"`
	Class   string     `json:"mutation_class,omitempty"`
	Worker  int        `json:"worker"`
	Seed    int64      `json:"seed"`
}

type Violation struct {
	Clause  string `json:"clause"` // roundtrip | injectivity | canonical | panic
	Message string `json:"monitor_message"`
	Case    Case   `json:"case"`
}

type Result struct {
	Property       string
	Evaluations    int64
	Coverage       map[string]any
	Counters       map[string]int64 // flat counters, for merging with the on-chain part
	Violations     []Violation
	ViolationCount int64
	KnownLines     []string
	KnownHits      int64
	Inconclusive   string
	Assumptions    []string
}

// ---------------------------------------------------------------------------------------------------

// packKey is a lossless binary form of a content hash (so the first hash seen for an IRI can be recovered).
func packKey(h *data.ContentHash) []byte {
	var b []byte
	var u [4]byte
	put := func(v uint32) { binary.BigEndian.PutUint32(u[:], v); b = append(b, u[:]...) }
	if h.Raw != nil {
		b = append(b, 0)
		put(h.Raw.DigestAlgorithm)
		b = append(b, byte(len(h.Raw.FileExtension)))
		b = append(b, h.Raw.FileExtension...)
		return append(b, h.Raw.Hash...)
	}
	b = append(b, 1)
	put(h.Graph.DigestAlgorithm)
	put(h.Graph.CanonicalizationAlgorithm)
	put(h.Graph.MerkleTree)
	return append(b, h.Graph.Hash...)
}

func unpackKey(b []byte) *data.ContentHash {
	if b[0] == 0 {
		d := binary.BigEndian.Uint32(b[1:5])
		n := int(b[5])
		return &data.ContentHash{Raw: &data.ContentHash_Raw{DigestAlgorithm: d, FileExtension: string(b[6 : 6+n]), Hash: append([]byte(nil), b[6+n:]...)}}
	}
	return &data.ContentHash{Graph: &data.ContentHash_Graph{DigestAlgorithm: binary.BigEndian.Uint32(b[1:5]),
		CanonicalizationAlgorithm: binary.BigEndian.Uint32(b[5:9]), MerkleTree: binary.BigEndian.Uint32(b[9:13]), Hash: append([]byte(nil), b[13:]...)}}
}

// diffHashes compares field by field; "" means identical.
func diffHashes(a, b *data.ContentHash) string {
	switch {
	case a == nil || b == nil:
		return "nil content hash"
	case (a.Raw != nil) != (b.Raw != nil) || (a.Graph != nil) != (b.Graph != nil):
		return fmt.Sprintf("type %s vs %s", Describe(a).Kind, Describe(b).Kind)
	}
	var out []string
	if a.Raw != nil {
		if !bytes.Equal(a.Raw.Hash, b.Raw.Hash) {
			out = append(out, fmt.Sprintf("hash %x vs %x", a.Raw.Hash, b.Raw.Hash))
		}
		if a.Raw.DigestAlgorithm != b.Raw.DigestAlgorithm {
			out = append(out, fmt.Sprintf("digest_algorithm %d vs %d", a.Raw.DigestAlgorithm, b.Raw.DigestAlgorithm))
		}
		if a.Raw.FileExtension != b.Raw.FileExtension {
			out = append(out, fmt.Sprintf("file_extension %q vs %q", a.Raw.FileExtension, b.Raw.FileExtension))
		}
	}
	if a.Graph != nil {
		if !bytes.Equal(a.Graph.Hash, b.Graph.Hash) {
			out = append(out, fmt.Sprintf("hash %x vs %x", a.Graph.Hash, b.Graph.Hash))
		}
		if a.Graph.DigestAlgorithm != b.Graph.DigestAlgorithm {
			out = append(out, fmt.Sprintf("digest_algorithm %d vs %d", a.Graph.DigestAlgorithm, b.Graph.DigestAlgorithm))
		}
		if a.Graph.CanonicalizationAlgorithm != b.Graph.CanonicalizationAlgorithm {
			out = append(out, fmt.Sprintf("canonicalization_algorithm %d vs %d", a.Graph.CanonicalizationAlgorithm, b.Graph.CanonicalizationAlgorithm))
		}
		if a.Graph.MerkleTree != b.Graph.MerkleTree {
			out = append(out, fmt.Sprintf("merkle_tree %d vs %d", a.Graph.MerkleTree, b.Graph.MerkleTree))
		}
	}
	return strings.Join(out, ", ")
}

func algFields(h *data.ContentHash) []uint32 {
	if h.Raw != nil {
		return []uint32{h.Raw.DigestAlgorithm}
	}
	if h.Graph != nil {
		return []uint32{h.Graph.DigestAlgorithm, h.Graph.CanonicalizationAlgorithm, h.Graph.MerkleTree}
	}
	return nil
}

func anyFieldAbove255(h *data.ContentHash) bool {
	for _, v := range algFields(h) {
		if v > 255 {
			return true
		}
	}
	return false
}

// congruentMod256: same type, same bytes, same extension, every algorithm field congruent modulo 256.
func congruentMod256(a, b *data.ContentHash) bool {
	if a == nil || b == nil || (a.Raw != nil) != (b.Raw != nil) || (a.Graph != nil) != (b.Graph != nil) || (a.Raw != nil && a.Graph != nil) {
		return false
	}
	if a.Raw != nil {
		if !bytes.Equal(a.Raw.Hash, b.Raw.Hash) || a.Raw.FileExtension != b.Raw.FileExtension {
			return false
		}
	} else if a.Graph != nil {
		if !bytes.Equal(a.Graph.Hash, b.Graph.Hash) {
			return false
		}
	} else {
		return false
	}
	fa, fb := algFields(a), algFields(b)
	for i := range fa {
		if fa[i]&0xff != fb[i]&0xff {
			return false
		}
	}
	return true
}

// CauseAlgorithmFieldGT255 is the cause predicate of known finding F-C15, evaluated on the failing case:
//   - round trip: the original has a 32-bit algorithm field > 255 and the parsed hash is exactly the original
//     with every algorithm field reduced modulo 256;
//   - injectivity: at least one of the two hashes has a field > 255 and they differ only in algorithm fields
//     that are congruent modulo 256.
func CauseAlgorithmFieldGT255(clause string, a, b *data.ContentHash) bool {
	switch clause {
	case "roundtrip": // a = original, b = parsed
		if !anyFieldAbove255(a) || !congruentMod256(a, b) {
			return false
		}
		for _, v := range algFields(b) {
			if v > 255 {
				return false
			}
		}
		return true
	case "injectivity":
		return (anyFieldAbove255(a) || anyFieldAbove255(b)) && congruentMod256(a, b)
	}
	return false
}

// ---------------------------------------------------------------------------------------------------

// Monitor holds the ghost state of the C15 oracles. Not safe for concurrent use (one per worker).
type Monitor struct {
	worker int
	seed   int64
	sigs   []known.Signature

	// injectivity: IRI (128-bit digest of the string) -> offset of the first valid hash seen, packed in arena
	byIRI map[[16]byte]uint32
	arena []byte
	// accepted strings: packed parsed hash -> first accepted string
	byParsed map[string]string

	C map[string]int64

	cells    map[string]struct{}
	samples  []any
	nSampleH int
	nSampleS map[string]int

	viol      []Violation
	violKeys  map[string]bool
	violCount int64
	knownHits int64
}

func NewMonitor(worker int, seed int64, fs []Finding) *Monitor {
	m := &Monitor{worker: worker, seed: seed, byIRI: map[[16]byte]uint32{}, byParsed: map[string]string{}, C: map[string]int64{},
		cells: map[string]struct{}{}, nSampleS: map[string]int{}, violKeys: map[string]bool{}}
	for _, f := range known.For(fs, Property) {
		var s known.Signature
		if json.Unmarshal(f.Signature, &s) == nil && s.Clause != "" && s.Cause != "" {
			m.sigs = append(m.sigs, s)
		}
	}
	return m
}

func clauseListed(list, clause string) bool {
	for _, c := range strings.Split(list, "|") {
		if strings.TrimSpace(c) == clause {
			return true
		}
	}
	return false
}

// fail records a failing case: a known-finding hit if a signature matches exactly (clause listed and cause
// predicate true on this case), else a violation.
func (m *Monitor) fail(clause, msg string, a, b *data.ContentHash, cs Case) {
	for _, s := range m.sigs {
		if clauseListed(s.Clause, clause) && s.Cause == "algorithm_field_gt_255" && CauseAlgorithmFieldGT255(clause, a, b) {
			m.knownHits++
			m.C["known_finding_hits"]++
			m.C["known_finding_hits_"+clause]++
			return
		}
	}
	m.violCount++
	key := clause + "/" + cs.Class
	if a != nil {
		key += "/" + Describe(a).Kind
	}
	if m.violKeys[key] || len(m.viol) >= MaxViolations {
		return
	}
	m.violKeys[key] = true
	cs.Worker, cs.Seed = m.worker, m.seed
	m.viol = append(m.viol, Violation{Clause: clause, Message: clause + ": " + msg, Case: cs})
}

func fieldClass(v uint32) string {
	switch {
	case v == 0:
		return "0"
	case v <= 3:
		return "enum"
	case v <= 255:
		return "byte"
	case v <= 0xffff && v&0xff == 0:
		return "u16lo0"
	case v <= 0xffff:
		return "u16"
	case v == 0xffffffff:
		return "max"
	case v&0xff == 0:
		return "u32lo0"
	}
	return "u32"
}

func hashCell(h *data.ContentHash, role string) string {
	if h.Raw != nil {
		return fmt.Sprintf("raw/%d/%s/e%d/%s", len(h.Raw.Hash), fieldClass(h.Raw.DigestAlgorithm), len(h.Raw.FileExtension), role)
	}
	g := h.Graph
	return fmt.Sprintf("graph/%d/%s/%s/%s/%s", len(g.Hash), fieldClass(g.DigestAlgorithm), fieldClass(g.CanonicalizationAlgorithm), fieldClass(g.MerkleTree), role)
}

func guard(f func()) (panicMsg string) {
	defer func() {
		if r := recover(); r != nil {
			panicMsg = fmt.Sprint(r)
		}
	}()
	f()
	return ""
}

// ObserveHash runs the round-trip, canonical re-encoding and injectivity oracles on one content hash.
// role is "base" or "sibling" (evidence only). Invalid hashes are counted as controls.
func (m *Monitor) ObserveHash(h *data.ContentHash, role string) {
	m.C["hashes"]++
	if h == nil || (h.Raw == nil && h.Graph == nil) {
		m.C["hash_controls_invalid"]++
		return
	}
	if err := h.Validate(); err != nil {
		m.C["hash_controls_invalid"]++
		if _, err := h.ToIRI(); err == nil {
			m.C["toiri_accepts_invalid_hash"]++ // observation only: the property speaks of valid hashes
		}
		return
	}
	m.C["hashes_valid"]++
	m.C["hashes_valid_"+role]++
	above := anyFieldAbove255(h)
	if above {
		m.C["hashes_valid_with_field_above_255"]++
	}
	me := Describe(h)
	var iri string
	var err error
	if p := guard(func() { iri, err = h.ToIRI() }); p != "" {
		m.fail("panic", "ToIRI panicked: "+p, h, nil, Case{Hashes: []HashDesc{me}})
		return
	}
	if err != nil {
		m.fail("roundtrip", fmt.Sprintf("ToIRI fails on a hash that passes Validate: %v", err), h, nil, Case{Hashes: []HashDesc{me}})
		return
	}
	var parsed *data.ContentHash
	if p := guard(func() { parsed, err = data.ParseIRI(iri) }); p != "" {
		m.fail("panic", "ParseIRI panicked: "+p, h, nil, Case{Hashes: []HashDesc{me}, IRI: iri})
		return
	}
	// (1) round trip
	if err != nil {
		m.fail("roundtrip", fmt.Sprintf("ParseIRI rejects the IRI %q produced by ToIRI: %v", iri, err), h, nil, Case{Hashes: []HashDesc{me}, IRI: iri})
	} else if d := diffHashes(h, parsed); d != "" {
		pd := Describe(parsed)
		m.fail("roundtrip", fmt.Sprintf("ParseIRI(ToIRI(h)) != h for %s: %s (IRI %s)", descText(h), d, iri), h, parsed, Case{Hashes: []HashDesc{me}, IRI: iri, Parsed: &pd})
	} else {
		m.C["roundtrips_identical"]++
	}
	// (2) canonical re-encoding of the generated IRI
	if err == nil && parsed.Validate() == nil {
		if s2, err2 := parsed.ToIRI(); err2 != nil || s2 != iri {
			pd := Describe(parsed)
			m.fail("canonical", fmt.Sprintf("IRI %q parses to a valid hash that re-encodes as %q (%v)", iri, s2, err2), parsed, nil, Case{Hashes: []HashDesc{me}, IRI: iri, Parsed: &pd})
		}
	}
	// (3) injectivity: IRI -> first valid hash seen
	key := packKey(h)
	sum := sha256.Sum256([]byte(iri))
	var k16 [16]byte
	copy(k16[:], sum[:16])
	if off, seen := m.byIRI[k16]; seen {
		n := int(m.arena[off])
		first := m.arena[off+1 : int(off)+1+n]
		if !bytes.Equal(first, key) {
			fh := unpackKey(first)
			// confirm with the real strings (the map is keyed by a digest of the IRI)
			if firstIRI, e := fh.ToIRI(); e == nil && firstIRI == iri {
				m.C["iri_shared_by_two_valid_hashes"]++
				m.fail("injectivity", fmt.Sprintf("two different valid content hashes map to the IRI %s: %s and %s (%s)", iri, descText(fh), descText(h), diffHashes(fh, h)),
					fh, h, Case{Hashes: []HashDesc{Describe(fh), me}, IRI: iri})
			}
		} else {
			m.C["hashes_repeated"]++
		}
	} else {
		if len(m.arena)+len(key)+1 < 1<<32 {
			m.byIRI[k16] = uint32(len(m.arena))
			m.arena = append(m.arena, byte(len(key)))
			m.arena = append(m.arena, key...)
		} else {
			m.C["injectivity_map_full"]++
		}
	}
	// evidence
	if role == "sibling" || above || hashLen(h) != 32 {
		m.cells[hashCell(h, role)] = struct{}{}
		m.C["hashes_nontrivial"]++
	}
	if n := m.C["hashes"]; m.worker == 0 && m.nSampleH < 10 && (n <= 2 || n%9973 <= 1) {
		m.nSampleH++
		m.samples = append(m.samples, map[string]any{"hash": me, "role": role, "iri": iri, "parsed_back": Describe(parsed)})
	}
}

func hashLen(h *data.ContentHash) int {
	if h.Raw != nil {
		return len(h.Raw.Hash)
	}
	return len(h.Graph.Hash)
}

func descText(h *data.ContentHash) string {
	bz, _ := json.Marshal(Describe(h))
	return string(bz)
}

// ObserveString runs the canonical re-encoding oracle on one string handed to ParseIRI.
func (m *Monitor) ObserveString(s, class string) {
	m.C["strings"]++
	m.C["strings_"+class]++
	var parsed *data.ContentHash
	var err error
	if p := guard(func() { parsed, err = data.ParseIRI(s) }); p != "" {
		// A panic accepts nothing, so no IRI is confused with another: the property is silent about it
		// (DESIGN 6.1: recovered panics are ordinary failures). Counted and sampled, not a violation.
		m.C["parseiri_panics"]++
		m.C["parseiri_panics_"+class]++
		m.cells["string/"+class+"/panic"] = struct{}{}
		if m.worker == 0 && m.nSampleS["panic"] < 2 {
			m.nSampleS["panic"]++
			m.samples = append(m.samples, map[string]any{"string": s, "mutation_class": class, "outcome": "ParseIRI panicked: " + p})
		}
		return
	}
	outcome := "rejected"
	defer func() {
		m.cells["string/"+class+"/"+outcome] = struct{}{}
		if m.worker == 0 && m.nSampleS[class+outcome] < 1 && len(m.samples) < 60 && outcome != "rejected" {
			m.nSampleS[class+outcome]++
			m.samples = append(m.samples, map[string]any{"string": s, "mutation_class": class, "outcome": outcome, "parsed": Describe(parsed)})
		}
	}()
	if err != nil || parsed == nil {
		m.C["strings_rejected"]++
		return
	}
	m.C["strings_parse_ok"]++
	if parsed.Validate() != nil {
		outcome = "accepted_invalid_hash"
		m.C["parse_accepts_invalid_hash"]++
		m.C["parse_accepts_invalid_hash_"+class]++
		return
	}
	outcome = "accepted_valid"
	m.C["strings_accepted_valid"]++
	m.C["strings_accepted_valid_"+class]++
	pd := Describe(parsed)
	s2, err2 := parsed.ToIRI()
	if err2 != nil || s2 != s {
		m.fail("canonical", fmt.Sprintf("ParseIRI accepts %q (class %s) as the valid hash %s, whose IRI is %q (%v)", s, class, descText(parsed), s2, err2),
			parsed, nil, Case{Strings: []string{s}, Class: class, Parsed: &pd})
	}
	key := string(packKey(parsed))
	if first, seen := m.byParsed[key]; seen {
		if first != s {
			m.fail("canonical", fmt.Sprintf("two different accepted strings %q and %q parse to the same content hash %s", first, s, descText(parsed)),
				parsed, nil, Case{Strings: []string{first, s}, Class: class, Parsed: &pd})
		}
	} else if len(m.byParsed) < 4_000_000 {
		m.byParsed[key] = s
	}
}

// ---------------------------------------------------------------------------------------------------

// runWitnesses re-executes every known witness on a fresh, unsuppressed monitor.
func runWitnesses(fs []Finding) []string {
	var lines []string
	for _, f := range known.For(fs, Property) {
		var sig known.Signature
		var cs Case
		if json.Unmarshal(f.Signature, &sig) != nil || json.Unmarshal(f.Witness, &cs) != nil {
			continue
		}
		m := NewMonitor(0, 0, nil)
		m.feed(&cs)
		var clauses, msgs []string
		for _, v := range m.allViol() {
			if !clauseListed(sig.Clause, v.Clause) || sig.Cause != "algorithm_field_gt_255" {
				continue
			}
			a, b := v.pair()
			if CauseAlgorithmFieldGT255(v.Clause, a, b) {
				clauses = append(clauses, v.Clause)
				msgs = append(msgs, v.Message)
			}
		}
		if len(clauses) > 0 {
			lines = append(lines, fmt.Sprintf("KNOWN-FINDING: property=%s id=%s clause=%s cause=%s %s", Property, f.ID,
				strings.Join(uniq(clauses), "+"), sig.Cause, strings.Join(strings.Fields(strings.Join(msgs, " ; ")), " ")))
		}
	}
	return lines
}

func uniq(in []string) []string {
	seen := map[string]bool{}
	var out []string
	for _, s := range in {
		if !seen[s] {
			seen[s] = true
			out = append(out, s)
		}
	}
	return out
}

func (m *Monitor) allViol() []Violation { return m.viol }

// pair rebuilds the two hashes a cause predicate is evaluated on from the recorded case.
func (v *Violation) pair() (a, b *data.ContentHash) {
	switch v.Clause {
	case "roundtrip":
		if len(v.Case.Hashes) >= 1 {
			a, _ = v.Case.Hashes[0].Build()
		}
		if v.Case.Parsed != nil {
			b, _ = v.Case.Parsed.Build()
		}
	case "injectivity":
		if len(v.Case.Hashes) >= 2 {
			a, _ = v.Case.Hashes[0].Build()
			b, _ = v.Case.Hashes[1].Build()
		}
	}
	return a, b
}

func (m *Monitor) feed(cs *Case) {
	for _, d := range cs.Hashes {
		if h, err := d.Build(); err == nil {
			m.ObserveHash(h, "replay")
		}
	}
	for _, s := range cs.Strings {
		m.ObserveString(s, cs.Class)
	}
}

// Replay re-executes the case of a replay file against the current tree.
func Replay(cs Case, fs []Finding) Result {
	m := NewMonitor(cs.Worker, cs.Seed, fs)
	m.feed(&cs)
	res := Result{Property: Property, Evaluations: int64(len(cs.Hashes) + len(cs.Strings)), Violations: m.viol, ViolationCount: m.violCount, KnownHits: m.knownHits, Counters: m.C}
	if m.knownHits > 0 {
		res.KnownLines = runWitnesses(fs)
	}
	res.Coverage = map[string]any{"evaluations": res.Evaluations}
	return res
}

func deriveSeed(seed int64, i int) int64 {
	z := uint64(seed) + uint64(i+1)*0x9E3779B97F4A7C15
	z = (z ^ (z >> 30)) * 0xBF58476D1CE4E5B9
	z = (z ^ (z >> 27)) * 0x94D049BB133111EB
	z ^= z >> 31
	return int64(z &^ (1 << 63))
}

// Run executes the pure part of the C15 workload of the tier.
func Run(cfg Config) Result {
	res := Result{Property: Property}
	res.Assumptions = []string{
		"\"an IRI the chain accepts\" = ParseIRI succeeds and the parsed hash passes Validate; accepted strings whose hash fails Validate are counted (parse_accepts_invalid_hash), not failed",
		"mutated strings are built with the harness's own base58check encoder; hashes compare field by field (type, bytes, three 32-bit algorithm fields, extension)",
		"the injectivity map is per worker (IRI -> first valid hash seen, lossless); low-entropy hash bytes make different families meet",
		"pure calls only in this part; the ConvertHashToIRI / ConvertIRIToHash / AnchorByHash / AnchorByIRI queries are exercised by the chain part",
	}
	ts, ok := Tiers[cfg.Tier]
	if !ok {
		res.Inconclusive = "unknown tier " + cfg.Tier
		return res
	}
	if cfg.Workers > 0 {
		ts.Workers = cfg.Workers
	}
	if cfg.HashesPerWorker > 0 {
		ts.HashesPerWorker = cfg.HashesPerWorker
	}
	if cfg.StringsPerWorker > 0 {
		ts.StringsPerWorker = cfg.StringsPerWorker
	}
	res.KnownLines = runWitnesses(cfg.Known)

	mons := make([]*Monitor, ts.Workers)
	var wg sync.WaitGroup
	for i := range mons {
		mons[i] = NewMonitor(i, deriveSeed(cfg.Seed, i), cfg.Known)
		wg.Add(1)
		go func(m *Monitor) {
			defer wg.Done()
			rng := rand.New(rand.NewSource(m.seed))
			for n := 0; n < ts.HashesPerWorker; {
				fam := Family(rng)
				validBase := fam[0].Validate() == nil
				for j, h := range fam {
					if n >= ts.HashesPerWorker {
						break
					}
					n++
					role := "sibling"
					if j == 0 {
						role = "base"
					}
					if j > 0 && validBase && h.Validate() == nil {
						m.C["sibling_pairs_both_valid"]++
					}
					m.ObserveHash(h, role)
				}
			}
			for n := 0; n < ts.StringsPerWorker; n++ {
				s, class := MutatedString(rng)
				m.ObserveString(s, class)
			}
		}(mons[i])
	}
	wg.Wait()

	tot := map[string]int64{}
	cells := map[string]struct{}{}
	seen := map[string]bool{}
	var distinctIRIs int64
	for _, m := range mons {
		for k, v := range m.C {
			tot[k] += v
		}
		for k := range m.cells {
			cells[k] = struct{}{}
		}
		distinctIRIs += int64(len(m.byIRI))
		res.ViolationCount += m.violCount
		res.KnownHits += m.knownHits
		for _, v := range m.viol {
			key := v.Clause + "/" + v.Case.Class
			if len(v.Case.Hashes) > 0 {
				key += "/" + v.Case.Hashes[0].Kind
			}
			if !seen[key] && len(res.Violations) < MaxViolations {
				seen[key] = true
				res.Violations = append(res.Violations, v)
			}
		}
	}
	res.Counters = tot
	res.Evaluations = tot["hashes"] + tot["strings"]
	cov := map[string]any{
		"evaluations":         res.Evaluations,
		"distinct_nontrivial": len(cells),
		"rule": "cases = content hashes generated in families (a base hash and its siblings: same bytes with one algorithm field changed by ±256·k / to a value with the same low byte / reduced mod 256 / +1, " +
			"algorithm fields swapped, raw<->graph, extension neighbours, hash-byte and length neighbours) and mutated IRI strings (classes listed in per_mutation_class). " +
			"A hash case is non-trivial if it is valid and is a sibling, or has an algorithm field > 255, or a hash length != 32; a string case is non-trivial per (class, outcome). " +
			"distinct_nontrivial = number of DISTINCT cells: (type, hash length, value class of each algorithm field {0,enum 1-3,byte,u16,u16 low byte 0,u32,u32 low byte 0,max}, extension length, role) for hashes, " +
			"(mutation class, outcome {rejected, accepted_invalid_hash, accepted_valid}) for strings",
		"samples":                    mons[0].samples,
		"workers":                    ts.Workers,
		"hashes_per_worker":          ts.HashesPerWorker,
		"strings_per_worker":         ts.StringsPerWorker,
		"distinct_iris_in_map":       distinctIRIs,
		"known_finding_hits":         res.KnownHits,
		"parse_accepts_invalid_hash": tot["parse_accepts_invalid_hash"],
	}
	perClass := map[string]any{}
	var starved []string
	for _, c := range MutationClasses {
		perClass[c] = map[string]int64{"generated": tot["strings_"+c], "accepted_valid": tot["strings_accepted_valid_"+c], "accepted_invalid_hash": tot["parse_accepts_invalid_hash_"+c]}
		if tot["strings_"+c] < FloorPerMutation {
			starved = append(starved, c)
		}
	}
	cov["per_mutation_class"] = perClass
	keys := make([]string, 0, len(tot))
	for k := range tot {
		keys = append(keys, k)
	}
	sort.Strings(keys)
	for _, k := range keys {
		if !strings.HasPrefix(k, "strings_accepted_valid_") && !strings.HasPrefix(k, "parse_accepts_invalid_hash_") && !strings.HasPrefix(k, "parseiri_panics_") && !(strings.HasPrefix(k, "strings_") && contains(MutationClasses, strings.TrimPrefix(k, "strings_"))) {
			if _, dup := cov[k]; !dup {
				cov[k] = tot[k]
			}
		}
	}
	res.Coverage = cov
	switch {
	case tot["hashes_valid"] < FloorValidHashes:
		res.Inconclusive = fmt.Sprintf("coverage floor missed: %d valid hashes < %d", tot["hashes_valid"], FloorValidHashes)
	case tot["sibling_pairs_both_valid"] < FloorSiblingPairs:
		res.Inconclusive = fmt.Sprintf("coverage floor missed: %d valid sibling pairs < %d", tot["sibling_pairs_both_valid"], FloorSiblingPairs)
	case tot["strings_accepted_valid"] < FloorAcceptedStrings:
		res.Inconclusive = fmt.Sprintf("coverage floor missed: %d accepted mutated strings < %d", tot["strings_accepted_valid"], FloorAcceptedStrings)
	case len(starved) > 0:
		res.Inconclusive = fmt.Sprintf("coverage floor missed: mutation classes generated fewer than %d times: %s", FloorPerMutation, strings.Join(starved, ","))
	}
	return res
}

func contains(list []string, s string) bool {
	for _, x := range list {
		if x == s {
			return true
		}
	}
	return false
}
