package irimon

import (
	"crypto/sha256"
	"math/big"
	"math/rand"
	"strings"

	"github.com/regen-network/regen-ledger/x/data/v3"
)

// BoundaryAlgorithms are the algorithm-field values DESIGN.md C15 lists; PRNG 32-bit values are added by fieldValue.
var BoundaryAlgorithms = []uint32{1, 2, 127, 128, 255, 256, 257, 511, 512, 65535, 65536, 1 << 31, 1<<32 - 1}

var canonicalExts = []string{"txt", "json", "csv", "xml", "pdf", "tiff", "jpg", "png", "svg", "webp", "avif", "gif", "apng", "mpeg", "mp4", "webm", "ogg", "heic", "raw", "rdf", "bin", "jpeg", "tif"}

// controls: extensions Validate must reject
var badExts = []string{"", "a", "abcdefg", "RDF", "Jpg", "a.b", "a-b", "a b", "é1", "a/b", "ab\n", "ab%",
	// the offending character in the FIRST and in the LAST position (the IRI separator among them)
	".abc", ".b", "..", ".rdf", "-ab", " ab", "/ab", "%ab", "Abc", "ab.", "abc-", "rdf.", "ab ", "abcde.", ".bcdef"}

const extAlphabet = "0123456789abcdefghijklmnopqrstuvwxyz"

// byteValue: an algorithm value the one-byte IRI encoding can represent.
func byteValue(rng *rand.Rand) uint32 {
	switch rng.Intn(4) {
	case 0:
		return uint32(1 + rng.Intn(3))
	case 1:
		return []uint32{1, 2, 127, 128, 254, 255}[rng.Intn(6)]
	}
	return uint32(1 + rng.Intn(255))
}

func fieldValue(rng *rand.Rand) uint32 {
	switch r := rng.Intn(100); {
	case r < 30:
		return uint32(1 + rng.Intn(3)) // the enum values in use
	case r < 45:
		return uint32(1 + rng.Intn(255))
	case r < 80:
		return BoundaryAlgorithms[rng.Intn(len(BoundaryAlgorithms))]
	}
	return rng.Uint32()
}

func genExt(rng *rand.Rand) string {
	if rng.Intn(2) == 0 {
		return canonicalExts[rng.Intn(len(canonicalExts))]
	}
	n := 2 + rng.Intn(5)
	b := make([]byte, n)
	for i := range b {
		b[i] = extAlphabet[rng.Intn(len(extAlphabet))]
	}
	return string(b)
}

// hash bytes: random, or from a small low-entropy set so that different families meet on the same bytes
func genHashBytes(rng *rand.Rand, n int) []byte {
	b := make([]byte, n)
	switch rng.Intn(10) {
	case 0: // all zero (base58 leading-zero handling)
	case 1:
		for i := range b {
			b[i] = 0xff
		}
	case 2:
		for i := range b {
			b[i] = byte(i)
		}
	case 3: // leading zeros then random
		rng.Read(b)
		for i := 0; i < 1+rng.Intn(4) && i < n; i++ {
			b[i] = 0
		}
	default:
		rng.Read(b)
	}
	return b
}

func genHashLen(rng *rand.Rand) int {
	switch r := rng.Intn(100); {
	case r < 35:
		return 32
	case r < 45:
		return 20
	case r < 55:
		return 64
	case r < 58:
		return 19 // rejected control
	case r < 61:
		return 65 // rejected control
	}
	return 20 + rng.Intn(45)
}

func cloneHash(h *data.ContentHash) *data.ContentHash {
	out := &data.ContentHash{}
	if h.Raw != nil {
		r := *h.Raw
		r.Hash = append([]byte(nil), h.Raw.Hash...)
		out.Raw = &r
	}
	if h.Graph != nil {
		g := *h.Graph
		g.Hash = append([]byte(nil), h.Graph.Hash...)
		out.Graph = &g
	}
	return out
}

func genBase(rng *rand.Rand) *data.ContentHash {
	n := genHashLen(rng)
	hb := genHashBytes(rng, n)
	if rng.Intn(2) == 0 {
		ext := genExt(rng)
		if rng.Intn(25) == 0 {
			ext = badExts[rng.Intn(len(badExts))]
		}
		d := fieldValue(rng)
		if rng.Intn(2) == 0 {
			d = byteValue(rng)
		}
		if rng.Intn(40) == 0 {
			d = 0 // rejected control
		}
		return &data.ContentHash{Raw: &data.ContentHash_Raw{Hash: hb, DigestAlgorithm: d, FileExtension: ext}}
	}
	d, c, m := fieldValue(rng), fieldValue(rng), fieldValue(rng)
	if rng.Intn(2) == 0 { // half of the families live entirely inside the byte range
		d, c, m = byteValue(rng), byteValue(rng), byteValue(rng)
	}
	switch rng.Intn(40) {
	case 0:
		d = 0 // rejected control
	case 1:
		c = 0 // rejected control
	}
	if rng.Intn(3) == 0 {
		m = 0 // merkle tree unspecified: valid
	}
	return &data.ContentHash{Graph: &data.ContentHash_Graph{Hash: hb, DigestAlgorithm: d, CanonicalizationAlgorithm: c, MerkleTree: m}}
}

// fieldSiblings: values a 32-bit algorithm field is confused with if only part of it is encoded.
func fieldSiblings(rng *rand.Rand, v uint32) []uint32 {
	var out []uint32
	add := func(x uint64) {
		if x <= 0xffffffff && uint32(x) != v {
			out = append(out, uint32(x))
		}
	}
	k := uint64(1 + rng.Intn(1<<16))
	add(uint64(v) + 256)
	add(uint64(v) + 256*k)
	if uint64(v) >= 256 {
		add(uint64(v) - 256)
	}
	if uint64(v) >= 256*k {
		add(uint64(v) - 256*k)
	}
	add(uint64(rng.Uint32()&^0xff) | uint64(v&0xff)) // same low byte
	add(uint64(v & 0xff))                            // reduced mod 256
	add(uint64(v&0xffff) | uint64(rng.Uint32()&0xffff0000))
	add(uint64(v) + 1) // honest neighbours
	if v > 1 {
		add(uint64(v) - 1)
	}
	add(uint64(v ^ 0x80))
	add(uint64(v ^ 0x01))
	return out
}

// Family returns a base hash followed by its siblings: same bytes, one thing changed. Some members are
// deliberately invalid (rejected controls); callers classify with Validate().
func Family(rng *rand.Rand) []*data.ContentHash {
	base := genBase(rng)
	fam := []*data.ContentHash{base}
	push := func(f func(h *data.ContentHash)) {
		s := cloneHash(base)
		f(s)
		fam = append(fam, s)
	}
	hashOf := func(h *data.ContentHash) *[]byte {
		if h.Raw != nil {
			return &h.Raw.Hash
		}
		return &h.Graph.Hash
	}
	if base.Raw != nil {
		for _, v := range fieldSiblings(rng, base.Raw.DigestAlgorithm) {
			v := v
			push(func(h *data.ContentHash) { h.Raw.DigestAlgorithm = v })
		}
		ext := base.Raw.FileExtension
		if len(ext) >= 2 {
			push(func(h *data.ContentHash) { // one character changed
				b := []byte(ext)
				i := rng.Intn(len(b))
				b[i] = extAlphabet[(strings.IndexByte(extAlphabet, b[i])+1+rng.Intn(35))%36]
				h.Raw.FileExtension = string(b)
			})
		}
		if len(ext) > 2 {
			push(func(h *data.ContentHash) { h.Raw.FileExtension = ext[:len(ext)-1] }) // truncated
		}
		if len(ext) > 3 {
			push(func(h *data.ContentHash) { h.Raw.FileExtension = ext[:3] })
			push(func(h *data.ContentHash) { h.Raw.FileExtension = ext[:3] + "z" })
		}
		if len(ext) < 6 {
			push(func(h *data.ContentHash) { h.Raw.FileExtension = ext + string(extAlphabet[rng.Intn(36)]) })
		}
		// the same bytes as graph data
		push(func(h *data.ContentHash) {
			h.Graph = &data.ContentHash_Graph{Hash: h.Raw.Hash, DigestAlgorithm: h.Raw.DigestAlgorithm, CanonicalizationAlgorithm: 1}
			h.Raw = nil
		})
	} else {
		g := base.Graph
		for _, v := range fieldSiblings(rng, g.DigestAlgorithm) {
			v := v
			push(func(h *data.ContentHash) { h.Graph.DigestAlgorithm = v })
		}
		for _, v := range fieldSiblings(rng, g.CanonicalizationAlgorithm) {
			v := v
			push(func(h *data.ContentHash) { h.Graph.CanonicalizationAlgorithm = v })
		}
		for _, v := range fieldSiblings(rng, g.MerkleTree) {
			v := v
			push(func(h *data.ContentHash) { h.Graph.MerkleTree = v })
		}
		// order of the algorithm bytes
		push(func(h *data.ContentHash) {
			h.Graph.CanonicalizationAlgorithm, h.Graph.MerkleTree = g.MerkleTree, g.CanonicalizationAlgorithm
		})
		push(func(h *data.ContentHash) {
			h.Graph.MerkleTree, h.Graph.DigestAlgorithm = g.DigestAlgorithm, g.MerkleTree
		})
		push(func(h *data.ContentHash) {
			h.Graph.CanonicalizationAlgorithm, h.Graph.DigestAlgorithm = g.DigestAlgorithm, g.CanonicalizationAlgorithm
		})
		// the same bytes as raw data with the rdf extension
		push(func(h *data.ContentHash) {
			h.Raw = &data.ContentHash_Raw{Hash: h.Graph.Hash, DigestAlgorithm: h.Graph.DigestAlgorithm, FileExtension: "rdf"}
			h.Graph = nil
		})
	}
	// hash-byte neighbours
	push(func(h *data.ContentHash) { b := *hashOf(h); b[len(b)-1] ^= 1 })
	push(func(h *data.ContentHash) { b := *hashOf(h); b[0] ^= 0x80 })
	push(func(h *data.ContentHash) { p := hashOf(h); *p = (*p)[:len(*p)-1] })              // one byte shorter
	push(func(h *data.ContentHash) { p := hashOf(h); *p = append(*p, 0) })                 // one zero byte longer
	push(func(h *data.ContentHash) { p := hashOf(h); *p = append([]byte{0}, (*p)...) })    // leading zero byte
	push(func(h *data.ContentHash) { p := hashOf(h); *p = append([]byte{}, (*p)[1:]...) }) // first byte dropped
	return fam
}

// GenHashes returns exactly n content hashes: families (a base hash followed by its siblings) concatenated.
// The list contains valid hashes and deliberately invalid controls (hash lengths 19/65, zero algorithms, bad
// extensions): classify with Validate(), or use OnlyValid.
func GenHashes(rng *rand.Rand, n int) []*data.ContentHash {
	out := make([]*data.ContentHash, 0, n+32)
	for len(out) < n {
		out = append(out, Family(rng)...)
	}
	return out[:n]
}

// OnlyValid filters the hashes that pass the chain's Validate.
func OnlyValid(hs []*data.ContentHash) []*data.ContentHash {
	var out []*data.ContentHash
	for _, h := range hs {
		if h.Validate() == nil {
			out = append(out, h)
		}
	}
	return out
}

// ---------------------------------------------------------------------------------------------------
// the harness's own base58check encoder (used to build strings the production encoder never emits)

const b58Alphabet = "123456789ABCDEFGHJKLMNPQRSTUVWXYZabcdefghijkmnopqrstuvwxyz"

func b58Encode(b []byte) string {
	x := new(big.Int).SetBytes(b)
	radix := big.NewInt(58)
	mod := new(big.Int)
	var out []byte
	for x.Sign() > 0 {
		x.DivMod(x, radix, mod)
		out = append(out, b58Alphabet[mod.Int64()])
	}
	for _, c := range b {
		if c != 0 {
			break
		}
		out = append(out, b58Alphabet[0])
	}
	for i, j := 0, len(out)-1; i < j; i, j = i+1, j-1 {
		out[i], out[j] = out[j], out[i]
	}
	return string(out)
}

func checksum4(b []byte) []byte {
	h1 := sha256.Sum256(b)
	h2 := sha256.Sum256(h1[:])
	return h2[:4]
}

// b58Check encodes version || payload || checksum[:keep] (keep = 4 is the real scheme).
func b58Check(version byte, payload []byte, keep int, corrupt bool) string {
	b := append([]byte{version}, payload...)
	ck := checksum4(b)
	if corrupt {
		ck[0] ^= 0x01
	}
	return b58Encode(append(b, ck[:keep]...))
}

// payloadOf builds the byte string the IRI scheme documents for a hash (fields taken modulo 256).
func payloadOf(h *data.ContentHash) []byte {
	if h.Raw != nil {
		return append([]byte{0, byte(h.Raw.DigestAlgorithm)}, h.Raw.Hash...)
	}
	g := h.Graph
	return append([]byte{1, byte(g.CanonicalizationAlgorithm), byte(g.MerkleTree), byte(g.DigestAlgorithm)}, g.Hash...)
}

// Mutation classes of the string generator.
var MutationClasses = []string{
	"identity", "case_flip_body", "case_flip_prefix", "case_flip_ext", "extra_dot", "missing_dot", "prefix_variant", "leading_ones",
	"truncated_checksum", "short_checksum", "bad_checksum", "other_version", "other_type_byte", "whitespace", "reencoded_payload",
	"short_payload", "ext_variant", "non_base58_char", "graph_with_other_ext", "no_checksum", "garbage",
}

func flipCase(c byte) byte {
	switch {
	case c >= 'a' && c <= 'z':
		return c - 32
	case c >= 'A' && c <= 'Z':
		return c + 32
	}
	return c
}

// smallFieldHash: a valid hash whose algorithm fields fit a byte, so that its IRI is faithful.
func smallFieldHash(rng *rand.Rand) *data.ContentHash {
	for {
		h := genBase(rng)
		if h.Raw != nil {
			h.Raw.DigestAlgorithm = uint32(1 + rng.Intn(255))
		} else {
			h.Graph.DigestAlgorithm = uint32(1 + rng.Intn(255))
			h.Graph.CanonicalizationAlgorithm = uint32(1 + rng.Intn(255))
			h.Graph.MerkleTree = uint32(rng.Intn(256))
		}
		if h.Validate() == nil {
			return h
		}
	}
}

// MutatedString returns one string for ParseIRI together with its mutation class.
func MutatedString(rng *rand.Rand) (s string, class string) {
	h := smallFieldHash(rng)
	payload := payloadOf(h)
	ext := "rdf"
	if h.Raw != nil {
		ext = h.Raw.FileExtension
	}
	body := b58Check(0, payload, 4, false)
	iri := "regen:" + body + "." + ext
	class = MutationClasses[rng.Intn(len(MutationClasses))]
	switch class {
	case "identity":
		return iri, class
	case "case_flip_body":
		b := []byte(body)
		for try := 0; try < 8; try++ {
			i := rng.Intn(len(b))
			if f := flipCase(b[i]); f != b[i] {
				b[i] = f
				break
			}
		}
		return "regen:" + string(b) + "." + ext, class
	case "case_flip_prefix":
		p := []string{"Regen:", "REGEN:", "regeN:", "rEgen:"}[rng.Intn(4)]
		return p + body + "." + ext, class
	case "case_flip_ext":
		e := []byte(ext)
		if rng.Intn(2) == 0 {
			e = []byte(strings.ToUpper(ext))
		} else {
			i := rng.Intn(len(e))
			e[i] = flipCase(e[i])
		}
		return "regen:" + body + "." + string(e), class
	case "extra_dot":
		switch rng.Intn(5) {
		case 0:
			return "regen:" + body + ".." + ext, class
		case 1:
			return iri + ".", class
		case 2:
			i := 1 + rng.Intn(len(body)-1)
			return "regen:" + body[:i] + "." + body[i:] + "." + ext, class
		case 3:
			return "regen:." + body + "." + ext, class
		}
		i := 1 + rng.Intn(len(ext)-1)
		return "regen:" + body + "." + ext[:i] + "." + ext[i:], class
	case "missing_dot":
		if rng.Intn(2) == 0 {
			return "regen:" + body + ext, class
		}
		return "regen:" + body, class
	case "prefix_variant":
		p := []string{"regen://", "regen:regen:", "", " regen:", "regen :", "regen", "regen;", "regen:/", "urn:regen:", "regen:\x00"}[rng.Intn(10)]
		return p + body + "." + ext, class
	case "leading_ones":
		switch rng.Intn(3) {
		case 0:
			return "regen:1" + body + "." + ext, class
		case 1:
			return "regen:" + strings.TrimPrefix(body, "1") + "." + ext, class
		}
		return "regen:" + strings.TrimLeft(body, "1") + "." + ext, class
	case "truncated_checksum":
		k := 1 + rng.Intn(6)
		return "regen:" + body[:len(body)-k] + "." + ext, class
	case "short_checksum":
		return "regen:" + b58Check(0, payload, rng.Intn(4), false) + "." + ext, class
	case "bad_checksum":
		return "regen:" + b58Check(0, payload, 4, true) + "." + ext, class
	case "other_version":
		v := byte(1 + rng.Intn(255))
		return "regen:" + b58Check(v, payload, 4, false) + "." + ext, class
	case "other_type_byte":
		p := append([]byte(nil), payload...)
		p[0] = byte(2 + rng.Intn(254))
		return "regen:" + b58Check(0, p, 4, false) + "." + ext, class
	case "whitespace":
		ws := []string{" ", "\t", "\n", "\r\n", " ", "​"}[rng.Intn(6)]
		switch rng.Intn(5) {
		case 0:
			return ws + iri, class
		case 1:
			return iri + ws, class
		case 2:
			return "regen:" + ws + body + "." + ext, class
		case 3:
			return "regen:" + body + ws + "." + ext, class
		}
		return "regen:" + body + "." + ws + ext, class
	case "reencoded_payload":
		// constructive: any type byte in {0,1}, any algorithm bytes (0 included), any hash length, any extension
		var p []byte
		e := genExt(rng)
		if rng.Intn(2) == 0 {
			p = []byte{0, byte(rng.Intn(256))}
			if rng.Intn(6) == 0 {
				e = badExts[rng.Intn(len(badExts))]
			}
		} else {
			p = []byte{1, byte(rng.Intn(256)), byte(rng.Intn(256)), byte(rng.Intn(256))}
			if rng.Intn(3) != 0 {
				e = "rdf"
			}
		}
		if rng.Intn(4) == 0 {
			p[1] = 0
		}
		n := genHashLen(rng)
		if rng.Intn(4) == 0 {
			n = rng.Intn(80)
		}
		p = append(p, genHashBytes(rng, n)...)
		return "regen:" + b58Check(0, p, 4, false) + "." + e, class
	case "short_payload":
		p := make([]byte, rng.Intn(5))
		rng.Read(p)
		if len(p) > 0 {
			p[0] = byte(rng.Intn(2))
		}
		e := ext
		if len(p) > 0 && p[0] == 1 {
			e = "rdf"
		}
		if rng.Intn(4) == 0 { // not even a version byte's worth of data
			return "regen:" + b58Encode(p) + "." + e, class
		}
		return "regen:" + b58Check(0, p, 4, false) + "." + e, class
	case "ext_variant":
		e := badExts[rng.Intn(len(badExts))]
		if rng.Intn(3) == 0 {
			e = []string{"rdf ", " rdf", "rdf#x", "rdf?x=1", "rd", "rdfx", "r", "rdf\x00", "RDF", "Rdf"}[rng.Intn(10)]
		}
		return "regen:" + body + "." + e, class
	case "non_base58_char":
		b := []byte(body)
		b[rng.Intn(len(b))] = "0OIl+/=_-~"[rng.Intn(10)]
		return "regen:" + string(b) + "." + ext, class
	case "graph_with_other_ext":
		p := append([]byte{1, byte(1 + rng.Intn(255)), byte(rng.Intn(256)), byte(1 + rng.Intn(255))}, genHashBytes(rng, 32)...)
		return "regen:" + b58Check(0, p, 4, false) + "." + genExt(rng), class
	case "no_checksum":
		return "regen:" + b58Encode(append([]byte{0}, payload...)) + "." + ext, class
	}
	// garbage
	switch rng.Intn(8) {
	case 0:
		return "", "garbage"
	case 1:
		return "regen:", "garbage"
	case 2:
		return "regen:.", "garbage"
	case 3:
		return "regen:.rdf", "garbage"
	case 4:
		return "regen:1.rdf", "garbage"
	case 5:
		return "regen:11111111.bin", "garbage"
	case 6:
		b := make([]byte, rng.Intn(60))
		rng.Read(b)
		return "regen:" + string(b), "garbage"
	}
	b := make([]byte, 1+rng.Intn(60))
	for i := range b {
		b[i] = b58Alphabet[rng.Intn(58)]
	}
	return "regen:" + string(b) + "." + ext, "garbage"
}
