// Package decmon is the runtime monitor for property C19 ("credit amount arithmetic is exact, canonical and
// side-effect free"): a pool-based random workload over every exported operation of
// github.com/regen-network/regen-ledger/types/v2/math, checked against a math/big reference and a deep
// shadow of every pool member (see /verif/DESIGN.md, C19).
package decmon

import (
	"encoding/json"
	"fmt"
	"math"
	"math/big"
	"math/rand"
	"sort"
	"strings"
	"sync"
	"sync/atomic"
	"time"

	rmath "github.com/regen-network/regen-ledger/types/v2/math"

	"verifharness/pure/known"
)

type Finding = known.Finding

const (
	Property = "C19"

	PoolSize = 256
	// CoverageFloorPerOp: every operation must have been executed at least this often, else INCONCLUSIVE.
	CoverageFloorPerOp = 100
	// MaxViolations distinct violations are written out; exploration continues and all are counted.
	MaxViolations = 10

	// a result enters the pool only inside these bounds, so that magnitudes cannot drift away from the
	// range the property quantifies over (everything is still checked before being dropped)
	poolMaxDigits = 150
	poolMaxAbsExp = 300

	// WatchdogStall: wall-clock time without a single completed operation after which the run is abandoned as
	// INCONCLUSIVE (one operation takes microseconds).
	WatchdogStall = 60 * time.Second
)

// TierSize: PRNG-determined operation counts, never wall-clock budgets.
type TierSize struct {
	Workers      int
	OpsPerWorker int64
}

var Tiers = map[string]TierSize{
	"quick":    {Workers: 1, OpsPerWorker: 200_000},
	"thorough": {Workers: 16, OpsPerWorker: 5_000_000},
}

type Config struct {
	Seed  int64
	Tier  string
	Known []Finding
	// overrides for tests (0 = tier default)
	Workers      int
	OpsPerWorker int64
}

// OperandDesc is the structural description of a Dec: value = (-1)^neg * coeff * 10^exp.
type OperandDesc struct {
	ID    int64  `json:"id"`
	Neg   bool   `json:"neg"`
	Coeff string `json:"coeff"`
	Exp   int32  `json:"exp"`
	Text  string `json:"text"` // reference rendering of the value (not produced by the library)
}

// Case is the self-contained replay payload of one operation.
type Case struct {
	Op        string        `json:"op"`
	Input     *string       `json:"input,omitempty"`   // string constructors
	MaxNum    uint32        `json:"max_num,omitempty"` // *Fixed* constructors
	Int64     int64         `json:"int64,omitempty"`   // NewDecFromInt64 / NewDecFinite coefficient
	Exp32     int32         `json:"exp32,omitempty"`   // NewDecFinite exponent
	Operands  []OperandDesc `json:"operands,omitempty"`
	Got       string        `json:"got,omitempty"`
	Reference string        `json:"reference,omitempty"`
	Worker    int           `json:"worker"`
	Step      int64         `json:"step"`
	Seed      int64         `json:"seed"`
}

type Violation struct {
	Clause  string `json:"clause"`
	Message string `json:"monitor_message"`
	Case    Case   `json:"case"`
}

type Result struct {
	Property       string
	Evaluations    int64
	Coverage       map[string]any
	Violations     []Violation // first MaxViolations distinct (clause, op) pairs
	ViolationCount int64       // all violating operations
	KnownLines     []string    // complete "KNOWN-FINDING: ..." lines
	KnownHits      int64
	Inconclusive   string // non-empty => INCONCLUSIVE with this reason
	Assumptions    []string
}

// ---------------------------------------------------------------------------------------------------

type opID int

const (
	opNewDecFromString opID = iota
	opNewPositiveDecFromString
	opNewNonNegativeDecFromString
	opNewPositiveFixedDecFromString
	opNewNonNegativeFixedDecFromString
	opNewDecFromInt64
	opNewDecFinite
	opAdd
	opSub
	opMul
	opMulExact
	opQuo
	opQuoExact
	opQuoInteger
	opRem
	opPkgAdd
	opSubNonNegative
	opSafeSubBalance
	opSafeAddBalance
	opCmp
	opEqual
	opIsZero
	opIsNegative
	opIsPositive
	opIsFinite
	opNumDecimalPlaces
	opReduce
	opString
	opBigInt
	opInt64
	opSdkIntTrim
	numOps
)

var opNames = [numOps]string{
	"NewDecFromString", "NewPositiveDecFromString", "NewNonNegativeDecFromString", "NewPositiveFixedDecFromString",
	"NewNonNegativeFixedDecFromString", "NewDecFromInt64", "NewDecFinite",
	"Add", "Sub", "Mul", "MulExact", "Quo", "QuoExact", "QuoInteger", "Rem",
	"math.Add", "SubNonNegative", "SafeSubBalance", "SafeAddBalance",
	"Cmp", "Equal", "IsZero", "IsNegative", "IsPositive", "IsFinite", "NumDecimalPlaces", "Reduce", "String", "BigInt", "Int64", "SdkIntTrim",
}

var opWeights = [numOps]int{
	3, 3, 3, 3, 3, 2, 2,
	5, 5, 5, 5, 5, 5, 5, 5,
	5, 5, 5, 5,
	3, 3, 2, 2, 2, 2, 2, 2, 2, 2, 2, 2,
}

func opByName(name string) (opID, bool) {
	for i, n := range opNames {
		if n == name {
			return opID(i), true
		}
	}
	return 0, false
}

type member struct {
	d       rmath.Dec
	val     *big.Rat // exact value, read structurally and cross-checked with String()
	coef    *big.Int // |coefficient|
	neg     bool
	exp     int32
	digits  int
	sh      shadow
	id      int64
	parents [2]int64
}

func (m *member) shape() uint64 {
	var db, eb, sb uint64
	switch n := m.digits; {
	case m.coef.Sign() == 0:
		db = 0
	case n <= 8:
		db = 1
	case n <= 16:
		db = 2
	case n <= 33:
		db = 3
	case n == 34:
		db = 4
	case n <= 40:
		db = 5
	default:
		db = 6
	}
	eb = expBucket(int64(m.exp))
	switch {
	case m.coef.Sign() == 0 && m.neg:
		sb = 3
	case m.coef.Sign() == 0:
		sb = 2
	case m.neg:
		sb = 1
	}
	return db<<5 | eb<<2 | sb
}

func expBucket(e int64) uint64 {
	switch {
	case e < -30:
		return 0
	case e <= -7:
		return 1
	case e <= -1:
		return 2
	case e == 0:
		return 3
	case e <= 10:
		return 4
	case e <= 40:
		return 5
	}
	return 6
}

// shadowDesc describes the member as it was when it entered the pool (from the shadow, so that a mutated
// operand is still recorded with its original value).
func (m *member) shadowDesc() OperandDesc {
	coef := new(big.Int).SetBits(append([]big.Word(nil), m.sh.words...))
	signed := coef
	if m.sh.neg {
		signed = new(big.Int).Neg(coef)
	}
	return OperandDesc{ID: m.id, Neg: m.sh.neg, Coeff: coef.String(), Exp: m.sh.exp, Text: ratText(ratFromCoefExp(signed, int64(m.sh.exp)))}
}

type sample struct {
	Op        string   `json:"op"`
	Operands  []string `json:"operands"`
	Result    string   `json:"result"`
	Reference string   `json:"reference"`
	Note      string   `json:"note,omitempty"`
}

type counters struct {
	exec, errs, nontrivial [numOps]int64

	neededRounding, exceeded34, nonTerminating int64
	zeroCrossingSub, sharedParent, sameMember  int64
	exactOK, exactRefused                      int64
	mulExactTrailingZerosOnly                  int64
	remRounded, quoIntRefused, remRefused      int64
	divByZero                                  int64
	maxUlp                                     [numOps]float64
	halfUlpExceeded                            int64
	parseInGrammar, parseOutOfDomain           int64
	outsideAccepted, outsideRejected           int64
	nonfiniteAccepted                          int64
	negativeZeroInputs, sciInputs              int64
	fixedRejectedPlaces, signRejected          int64
	notPooled, pooled                          int64
	sdkIntSkippedTooLarge                      int64
	integralConversions, nonIntegral, outOfI64 int64
	stringLeadingZeros, stringChecks           int64
	reduceNotMinimal, reduceCountMismatch      int64
	poolComparisons, aliasChecks               int64
	outsideAcceptedClasses                     map[string]int64
}

type worker struct {
	id    int
	seed  int64
	rng   *rand.Rand
	pool  []member
	next  int64
	step  int64
	c     counters
	cells map[uint64]struct{}

	knownSig []known.Signature
	cur      Case // what is being executed (for panics and failure payloads)
	curX     int  // pool indices of the operands (-1: none); descriptions are built lazily from the shadows
	curY     int
	gotVal   *big.Rat // rendered into the payload only when a failure is recorded
	refVal   *big.Rat
	pcDone   bool // the full-pool shadow comparison of the current operation has run

	mu        sync.Mutex // guards viol/violCount/knownHits (read by the watchdog while the worker may be stuck)
	viol      []Violation
	violKeys  map[string]bool
	violCount int64
	knownHits int64
	progress  atomic.Int64 // steps completed
	curOp     atomic.Int32 // operation being executed
	samples   []sample
	sampled   map[string]int
}

func newWorker(id int, seed int64, sigs []known.Signature) *worker {
	w := &worker{id: id, seed: seed, rng: rand.New(rand.NewSource(seed)), cells: map[uint64]struct{}{},
		violKeys: map[string]bool{}, sampled: map[string]int{}, knownSig: sigs}
	w.c.outsideAcceptedClasses = map[string]int64{}
	return w
}

// splitmix64: worker seeds derived from the run seed
func deriveSeed(seed int64, i int) int64 {
	z := uint64(seed) + uint64(i+1)*0x9E3779B97F4A7C15
	z = (z ^ (z >> 30)) * 0xBF58476D1CE4E5B9
	z = (z ^ (z >> 27)) * 0x94D049BB133111EB
	z ^= z >> 31
	return int64(z &^ (1 << 63))
}

// ---------------------------------------------------------------------------------------------------
// failures

// causeHolds evaluates a cause predicate of a known-finding signature on the failing case.
func causeHolds(cause string, cs *Case) bool {
	switch cause {
	case "sign_inside_mantissa":
		// the failing value came directly out of a string constructor whose mantissa (after one leading
		// sign, before any exponent part) contains a sign character: big.Int.SetString accepts it
		if cs.Input == nil {
			return false
		}
		s := *cs.Input
		if s != "" && (s[0] == '+' || s[0] == '-') {
			s = s[1:]
		}
		if i := strings.IndexAny(s, "eE"); i >= 0 {
			s = s[:i]
		}
		return strings.ContainsAny(s, "+-")
	}
	return false
}

func clauseListed(list, clause string) bool {
	for _, c := range strings.Split(list, "|") {
		if strings.TrimSpace(c) == clause {
			return true
		}
	}
	return false
}

// fail records a failing operation: a known-finding hit if a signature matches exactly, else a violation.
func (w *worker) fail(clause, msg string) {
	cs := w.cur
	cs.Worker, cs.Step, cs.Seed = w.id, w.step, w.seed
	if cs.Operands == nil {
		for _, i := range []int{w.curX, w.curY} {
			if i >= 0 && i < len(w.pool) {
				cs.Operands = append(cs.Operands, w.pool[i].shadowDesc())
			}
		}
	}
	if cs.Got == "" && w.gotVal != nil {
		cs.Got = ratText(w.gotVal)
	}
	if cs.Reference == "" && w.refVal != nil {
		cs.Reference = ratText(w.refVal)
	}
	w.mu.Lock()
	defer w.mu.Unlock()
	for _, sig := range w.knownSig {
		if clauseListed(sig.Clause, clause) && causeHolds(sig.Cause, &cs) {
			w.knownHits++
			return
		}
	}
	w.violCount++
	key := clause + "/" + cs.Op
	if w.violKeys[key] || len(w.viol) >= MaxViolations {
		return
	}
	w.violKeys[key] = true
	w.viol = append(w.viol, Violation{Clause: clause, Message: fmt.Sprintf("%s: %s: %s", cs.Op, clause, msg), Case: cs})
}

// ---------------------------------------------------------------------------------------------------
// pool maintenance and the side-effect monitor

// inspect reads a returned Dec structurally. ok=false means it cannot be given a value (non-finite or malformed).
func inspect(d *rmath.Dec) (m member, finite, malformed bool) {
	fin, coef, neg, exp, mal := structure(d)
	m.d = *d
	m.coef, m.neg, m.exp = coef, neg, exp
	if !fin || mal {
		return m, fin, mal
	}
	m.digits = numDigits(coef)
	signed := coef
	if neg {
		signed = new(big.Int).Neg(coef)
	}
	if exp > 5000 || exp < -5000 {
		return m, fin, true // treated as unusable, never produced inside the domain
	}
	m.val = ratFromCoefExp(signed, int64(exp))
	return m, true, false
}

// checkString is the String() oracle: plain notation only, re-parses to the same rational, and the number of
// decimal places it shows equals NumDecimalPlaces().
func (w *worker) checkString(m *member) bool {
	w.c.stringChecks++
	s := m.d.String()
	v, places, ok := parsePlain(s)
	if !ok {
		w.cur.Got = s
		w.fail("string_canonical", fmt.Sprintf("String() = %q is not a plain decimal numeral -?D+(.D+)?", s))
		return false
	}
	if v.Cmp(m.val) != 0 {
		w.cur.Got, w.cur.Reference = s, ratText(m.val)
		w.fail("string_canonical", fmt.Sprintf("String() = %q re-parses to %s, value is %s", s, ratText(v), ratText(m.val)))
		return false
	}
	if np := m.d.NumDecimalPlaces(); int64(np) != places {
		w.cur.Got = s
		w.fail("string_canonical", fmt.Sprintf("String() = %q shows %d decimal places, NumDecimalPlaces() = %d", s, places, np))
		return false
	}
	t := strings.TrimPrefix(s, "-")
	if len(t) > 1 && t[0] == '0' && t[1] != '.' {
		w.c.stringLeadingZeros++
	}
	return true
}

// checkAlias: the coefficient of a returned Dec must not share memory with any pool member.
func (w *worker) checkAlias(z *rmath.Dec) bool {
	lo, hi := memRange(z)
	return w.checkAliasRange(lo, hi, "returned Dec")
}

func (w *worker) checkAliasRange(lo, hi uintptr, what string) bool {
	w.c.aliasChecks++
	if lo == hi {
		return true
	}
	for i := range w.pool {
		p := &w.pool[i]
		if overlaps(lo, hi, p.sh.ptr, p.sh.ptr+uintptr(p.sh.capw)*8) {
			w.fail("result_aliases_operand", fmt.Sprintf("coefficient of the %s shares its backing array with pool member #%d (%s): a later in-place operation on either corrupts the other", what, p.id, ratText(p.val)))
			return false
		}
	}
	return true
}

func (w *worker) begin(x, y int) {
	w.curX, w.curY = x, y
	w.gotVal, w.refVal = nil, nil
	w.pcDone = false
}

// ensurePoolChecked runs the full-pool comparison once per operation: before the result may overwrite a slot,
// and in any case before the operation's handler returns.
func (w *worker) ensurePoolChecked() {
	if !w.pcDone {
		w.pcDone = true
		w.checkPool(w.curX, w.curY)
	}
}

// checkPool compares EVERY pool member with its shadow (operands and bystanders).
func (w *worker) checkPool(xi, yi int) {
	for i := range w.pool {
		p := &w.pool[i]
		w.c.poolComparisons++
		if d := p.sh.diff(&p.d); d != "" {
			role := "bystander"
			if i == xi || i == yi {
				role = "operand"
			}
			w.fail("operand_mutated", fmt.Sprintf("%s pool member #%d (was %s) changed during the operation: %s", role, p.id, ratText(p.val), d))
			// Rebuild the member from its shadow on a FRESH backing array, so that exploration continues behind
			// this failure with sane values (a half-overwritten big.Int can make later library calls loop or panic).
			p.d = p.sh.rebuild()
			p.sh = takeShadow(&p.d)
		}
	}
}

// admit validates a returned Dec (finite, well-formed, String oracle, no aliasing) and puts it into the pool.
// want is the value the reference demands exactly (nil: no exact demand, caller has checked a tolerance).
func (w *worker) admit(z *rmath.Dec, px, py int64) {
	w.ensurePoolChecked() // before a slot (possibly an operand's) is overwritten
	m, fin, mal := inspect(z)
	if !fin || mal {
		return
	}
	if !w.checkAlias(z) {
		return
	}
	if !w.checkString(&m) {
		return
	}
	if m.digits > poolMaxDigits || m.exp > poolMaxAbsExp || m.exp < -poolMaxAbsExp {
		w.c.notPooled++
		return
	}
	w.c.pooled++
	m.id = w.next
	w.next++
	m.parents = [2]int64{px, py}
	if len(w.pool) < PoolSize {
		w.pool = append(w.pool, m)
		p := &w.pool[len(w.pool)-1]
		p.sh = takeShadow(&p.d)
		return
	}
	i := w.rng.Intn(len(w.pool))
	if m.coef.Sign() == 0 {
		// zeros are produced in abundance (x-x, x*0, 0/x ...): keep them to about a tenth of the pool by letting
		// a new zero replace an old zero once there are enough of them
		zeros := 0
		for j := range w.pool {
			if w.pool[j].coef.Sign() == 0 {
				zeros++
			}
		}
		if zeros >= PoolSize/10 {
			for k := 0; k < len(w.pool); k++ {
				if j := (i + k) % len(w.pool); w.pool[j].coef.Sign() == 0 {
					i = j
					break
				}
			}
		}
	}
	w.pool[i] = m
	w.pool[i].sh = takeShadow(&w.pool[i].d)
}

func related(a, b *member) bool {
	if a.id == b.id {
		return true
	}
	for _, p := range a.parents {
		if p < 0 {
			continue
		}
		if p == b.id || p == b.parents[0] || p == b.parents[1] {
			return true
		}
	}
	for _, p := range b.parents {
		if p >= 0 && p == a.id {
			return true
		}
	}
	return false
}

func (w *worker) cell(op opID, sx, sy uint64) {
	w.c.nontrivial[op]++
	w.cells[uint64(op)<<20|sx<<10|sy] = struct{}{}
}

func (w *worker) wantSample(op opID) bool {
	return w.id == 0 && w.sampled[opNames[op]] < 1 && len(w.samples) < 40
}

func (w *worker) sample(op opID, operands []string, result, reference, note string) {
	name := opNames[op]
	if !w.wantSample(op) {
		return
	}
	w.sampled[name]++
	w.samples = append(w.samples, sample{Op: name, Operands: operands, Result: result, Reference: reference, Note: note})
}

// ---------------------------------------------------------------------------------------------------
// operations

func (w *worker) pickOp() opID {
	if len(w.pool) < 16 {
		return opID(w.rng.Intn(int(opNewDecFinite) + 1))
	}
	total := 0
	for _, x := range opWeights {
		total += x
	}
	r := w.rng.Intn(total)
	for i, x := range opWeights {
		if r < x {
			return opID(i)
		}
		r -= x
	}
	return opAdd
}

func (w *worker) pickPair() (int, int) {
	x := w.rng.Intn(len(w.pool))
	r := w.rng.Intn(100)
	switch {
	case r < 10:
		return x, x
	case r < 25:
		start := w.rng.Intn(len(w.pool))
		for k := 0; k < 48; k++ {
			j := (start + k) % len(w.pool)
			if j != x && related(&w.pool[x], &w.pool[j]) {
				return x, j
			}
		}
	}
	return x, w.rng.Intn(len(w.pool))
}

var maxNums = []uint32{0, 1, 2, 6, 6, 6, 18, 24, 30, 31, 40, 70, math.MaxUint32}

var interestingInts = []int64{0, 1, -1, 2, 3, 4, 5, 7, 8, 9, 10, 16, 25, 32, 64, 100, 125, 128, 1000, 1024, 3125, 1000000,
	math.MaxInt64, math.MinInt64, math.MaxInt64 - 1, math.MinInt64 + 1, math.MaxInt32, math.MinInt32, 1 << 53, 999999999999999999, -999999999999999999}

func (w *worker) genInt64() int64 {
	switch w.rng.Intn(4) {
	case 0:
		return interestingInts[w.rng.Intn(len(interestingInts))]
	case 1:
		return int64(w.rng.Intn(2001) - 1000)
	case 2:
		return w.rng.Int63() >> uint(w.rng.Intn(63)) * int64(1-2*w.rng.Intn(2))
	}
	return int64(w.rng.Uint64())
}

// Step executes one randomly chosen operation and all monitors.
func (w *worker) Step() {
	w.step++
	defer w.progress.Add(1)
	op := w.pickOp()
	w.curOp.Store(int32(op))
	switch {
	case op <= opNewNonNegativeFixedDecFromString:
		from := ""
		if len(w.pool) > 0 && w.rng.Intn(4) == 0 {
			p := &w.pool[w.rng.Intn(len(w.pool))]
			if p.exp < 200 { // the harness's own plain rendering of an earlier result
				from = renderPlain(p.coef.String(), int(p.exp))
				if p.neg {
					from = "-" + from
				}
			}
		}
		s := genString(w.rng, from)
		w.doCtorString(op, s, maxNums[w.rng.Intn(len(maxNums))])
	case op == opNewDecFromInt64:
		w.doCtorInt(op, w.genInt64(), 0)
	case op == opNewDecFinite:
		w.doCtorInt(op, w.genInt64(), int32(genExp(w.rng)))
	case op <= opEqual:
		x, y := w.pickPair()
		w.doBinary(op, x, y)
	default:
		w.doUnary(op, w.rng.Intn(len(w.pool)))
	}
}

// guard runs f and turns a panic into a violation (no operation in the explored domain may panic).
func (w *worker) guard(f func()) (panicked bool) {
	defer func() {
		if r := recover(); r != nil {
			panicked = true
			w.fail("panic", fmt.Sprintf("panic: %v", r))
		}
	}()
	f()
	return false
}

func classifyOutside(s string) string {
	switch {
	case s == "":
		return "empty_string"
	case causeHolds("sign_inside_mantissa", &Case{Input: &s}):
		return "sign_inside_mantissa"
	}
	l := strings.ToLower(strings.TrimLeft(s, "+-"))
	if strings.HasPrefix(l, "inf") || strings.HasPrefix(l, "nan") || strings.HasPrefix(l, "snan") {
		return "non_finite_word"
	}
	return "other"
}

func (w *worker) doCtorString(op opID, s string, maxNum uint32) {
	w.c.exec[op]++
	in := s
	w.cur = Case{Op: opNames[op], Input: &in}
	w.begin(-1, -1)
	fixed := op == opNewPositiveFixedDecFromString || op == opNewNonNegativeFixedDecFromString
	if fixed {
		w.cur.MaxNum = maxNum
	}
	var z rmath.Dec
	var err error
	if w.guard(func() {
		switch op {
		case opNewDecFromString:
			z, err = rmath.NewDecFromString(s)
		case opNewPositiveDecFromString:
			z, err = rmath.NewPositiveDecFromString(s)
		case opNewNonNegativeDecFromString:
			z, err = rmath.NewNonNegativeDecFromString(s)
		case opNewPositiveFixedDecFromString:
			z, err = rmath.NewPositiveFixedDecFromString(s, maxNum)
		case opNewNonNegativeFixedDecFromString:
			z, err = rmath.NewNonNegativeFixedDecFromString(s, maxNum)
		}
	}) {
		w.ensurePoolChecked()
		return
	}
	defer w.ensurePoolChecked()
	if err != nil {
		w.c.errs[op]++
	}
	ref, class := parseRef(s)
	switch class {
	case outOfDomain:
		w.c.parseOutOfDomain++ // counted, never judged, never rendered (String() could be gigabytes)
		return
	case outsideGrammar:
		if err != nil {
			w.c.outsideRejected++
			return
		}
		w.c.outsideAccepted++
		w.c.outsideAcceptedClasses[classifyOutside(s)]++
		w.cell(op, 0x3ff, 2)
		m, fin, mal := inspect(&z)
		if !fin {
			w.c.nonfiniteAccepted++ // an observation, not a violation: the property speaks of decimal strings
			return
		}
		if m.exp > 5000 || m.exp < -5000 {
			return
		}
		if mal {
			// no reference value exists for a non-numeral; what the property does demand of any value the
			// constructors hand out is that it renders as a plain numeral denoting itself
			str := z.String()
			w.cur.Got = str
			if _, _, ok := parsePlain(str); !ok {
				w.fail("string_canonical", fmt.Sprintf("accepted %q; String() = %q is not a plain decimal numeral (coefficient big.Int is negative while IsNegative()=%v IsPositive()=%v)", s, str, z.IsNegative(), z.IsPositive()))
			} else {
				w.fail("string_canonical", fmt.Sprintf("accepted %q as a value with a negative big.Int coefficient; String() = %q", s, str))
			}
			return
		}
		// self-consistency of the accepted value, then it may join the pool with its structural value
		w.checkCtorSign(op, &m, &z, maxNum, fixed)
		if w.wantSample(op) {
			w.sample(op, []string{s}, ratText(m.val), "none (outside the reference grammar; accepted, counted)", "outside_grammar_accepted")
		}
		w.admit(&z, -1, -1)
		return
	}

	// in grammar and in domain: the reference value is ref.val
	w.c.parseInGrammar++
	if ref.sci {
		w.c.sciInputs++
	}
	if ref.neg && ref.val.Sign() == 0 {
		w.c.negativeZeroInputs++
	}
	sx := uint64(0)
	{
		// shape of the literal: digits written, resulting exponent, sign
		tmp := member{coef: new(big.Int).Abs(ref.val.Num()), neg: ref.neg, exp: int32(ref.exp), digits: ref.digits}
		sx = tmp.shape()
	}
	nontrivial := ref.sci || (ref.neg && ref.val.Sign() == 0) || ref.digits > 34 || (ref.digits > 1 && strings.HasPrefix(strings.TrimLeft(s, "+-"), "0"))
	signOK := true
	switch op {
	case opNewPositiveDecFromString, opNewPositiveFixedDecFromString:
		signOK = ref.val.Sign() > 0
	case opNewNonNegativeDecFromString, opNewNonNegativeFixedDecFromString:
		signOK = ref.val.Sign() >= 0
	}
	placesOK := !fixed || ref.places <= int64(maxNum)
	w.refVal = ref.val
	if !signOK || !placesOK {
		nontrivial = true
		if !signOK {
			w.c.signRejected++
		} else {
			w.c.fixedRejectedPlaces++
		}
		if err == nil {
			w.cur.Got = z.String()
			if !signOK {
				w.fail("constructor_sign", fmt.Sprintf("accepted %q although its value %s violates the constructor's sign requirement", s, ratText(ref.val)))
			} else {
				w.fail("constructor_places", fmt.Sprintf("accepted %q with %d decimal places, maximum %d", s, ref.places, maxNum))
			}
		}
		if nontrivial {
			w.cell(op, sx, 1)
		}
		return
	}
	if nontrivial {
		w.cell(op, sx, 0)
	}
	if err != nil {
		w.fail("parse", fmt.Sprintf("rejected the decimal numeral %q (= %s): %v", s, ratText(ref.val), firstLine(err)))
		return
	}
	m, fin, mal := inspect(&z)
	if !fin || mal {
		w.fail("parse", fmt.Sprintf("parsing %q produced a non-finite or malformed value", s))
		return
	}
	if m.val.Cmp(ref.val) != 0 {
		w.cur.Got = ratText(m.val)
		w.fail("parse", fmt.Sprintf("parsing %q yields %s, the string denotes %s", s, ratText(m.val), ratText(ref.val)))
		return
	}
	if nontrivial {
		if w.wantSample(op) {
			w.sample(op, []string{s}, ratText(m.val), ratText(ref.val), "")
		}
	}
	w.admit(&z, -1, -1)
}

// checkCtorSign: whatever was accepted must satisfy the constructor's own sign / places requirement (by structural value).
func (w *worker) checkCtorSign(op opID, m *member, z *rmath.Dec, maxNum uint32, fixed bool) {
	switch op {
	case opNewPositiveDecFromString, opNewPositiveFixedDecFromString:
		if m.val.Sign() <= 0 {
			w.fail("constructor_sign", fmt.Sprintf("positive constructor returned %s", ratText(m.val)))
		}
	case opNewNonNegativeDecFromString, opNewNonNegativeFixedDecFromString:
		if m.val.Sign() < 0 {
			w.fail("constructor_sign", fmt.Sprintf("non-negative constructor returned %s", ratText(m.val)))
		}
	}
	if fixed && m.exp < 0 && int64(-m.exp) > int64(maxNum) {
		w.fail("constructor_places", fmt.Sprintf("fixed constructor returned %s with %d places, maximum %d", ratText(m.val), -m.exp, maxNum))
	}
}

func firstLine(err error) string {
	s := err.Error()
	if i := strings.IndexByte(s, '\n'); i >= 0 {
		s = s[:i]
	}
	if i := strings.Index(s, " [/"); i >= 0 { // strip the registered-error source location
		s = s[:i]
	}
	return s
}

func (w *worker) doCtorInt(op opID, i int64, e int32) {
	w.c.exec[op]++
	w.cur = Case{Op: opNames[op], Int64: i, Exp32: e}
	w.begin(-1, -1)
	var z rmath.Dec
	if w.guard(func() {
		if op == opNewDecFromInt64 {
			z = rmath.NewDecFromInt64(i)
		} else {
			z = rmath.NewDecFinite(i, e)
		}
	}) {
		w.ensurePoolChecked()
		return
	}
	defer w.ensurePoolChecked()
	want := ratFromCoefExp(big.NewInt(i), int64(e))
	w.refVal = want
	m, fin, mal := inspect(&z)
	if !fin || mal {
		w.fail("parse", "constructor produced a non-finite or malformed value")
		return
	}
	if i < 0 || i == math.MinInt64 || i == math.MaxInt64 || e != 0 {
		w.cell(op, m.shape(), 0)
	}
	if m.val.Cmp(want) != 0 {
		w.cur.Got = ratText(m.val)
		w.fail("parse", fmt.Sprintf("constructor(%d, %d) yields %s, want %s", i, e, ratText(m.val), ratText(want)))
		return
	}
	w.admit(&z, -1, -1)
}

var two255 = new(big.Int).Lsh(big.NewInt(1), 255)

func (w *worker) doUnary(op opID, xi int) {
	x := &w.pool[xi]
	if op == opSdkIntTrim {
		// documented panic above the SDK Int range: exercised for |x| < 2^255 only (DESIGN 6.1)
		for try := 0; ; try++ {
			if new(big.Int).Abs(truncRat(x.val)).Cmp(two255) < 0 {
				break
			}
			w.c.sdkIntSkippedTooLarge++
			if try == 16 {
				return
			}
			xi = w.rng.Intn(len(w.pool))
			x = &w.pool[xi]
		}
	}
	w.c.exec[op]++
	w.cur = Case{Op: opNames[op]}
	w.begin(xi, -1)
	sx := x.shape()
	zeroVariant := x.coef.Sign() == 0 && (x.neg || x.exp != 0)
	defer w.ensurePoolChecked()
	switch op {
	case opIsZero, opIsNegative, opIsPositive, opIsFinite:
		var got, want bool
		if w.guard(func() {
			switch op {
			case opIsZero:
				got, want = x.d.IsZero(), x.val.Sign() == 0
			case opIsNegative:
				got, want = x.d.IsNegative(), x.val.Sign() < 0
			case opIsPositive:
				got, want = x.d.IsPositive(), x.val.Sign() > 0
			case opIsFinite:
				got, want = x.d.IsFinite(), true
			}
		}) {
			return
		}
		if zeroVariant {
			w.cell(op, sx, 0)
			if w.wantSample(op) {
				w.sample(op, []string{descText(x)}, fmt.Sprint(got), fmt.Sprint(want), "zero variant")
			}
		}
		if got != want {
			w.cur.Got, w.cur.Reference = fmt.Sprint(got), fmt.Sprint(want)
			w.fail("predicate", fmt.Sprintf("%s(%s) = %v, reference %v", opNames[op], ratText(x.val), got, want))
		}
	case opNumDecimalPlaces:
		var got uint32
		var s string
		if w.guard(func() { got = x.d.NumDecimalPlaces(); s = x.d.String() }) {
			return
		}
		_, places, ok := parsePlain(s)
		if x.exp != 0 {
			w.cell(op, sx, 0)
			if w.wantSample(op) {
				w.sample(op, []string{descText(x)}, fmt.Sprint(got), fmt.Sprintf("%d (places shown by %q)", places, s), "")
			}
		}
		if ok && int64(got) != places {
			w.cur.Got, w.cur.Reference = fmt.Sprint(got), fmt.Sprint(places)
			w.fail("string_canonical", fmt.Sprintf("NumDecimalPlaces() = %d but String() = %q shows %d", got, s, places))
		}
	case opString:
		if w.guard(func() { w.checkString(x) }) {
			return
		}
		if zeroVariant || x.exp > 0 || int64(x.digits)+int64(x.exp) <= 0 {
			w.cell(op, sx, 0)
			if w.wantSample(op) {
				w.sample(op, []string{descText(x)}, x.d.String(), ratText(x.val), "")
			}
		}
	case opReduce:
		var z rmath.Dec
		var n int
		if w.guard(func() { z, n = x.d.Reduce() }) {
			return
		}
		m, fin, mal := inspect(&z)
		if !fin || mal {
			w.fail("reduce_value", "Reduce returned a non-finite or malformed value")
			return
		}
		trailing := x.coef.Sign() != 0 && new(big.Int).Rem(x.coef, bigTen).Sign() == 0
		if trailing || x.coef.Sign() == 0 {
			w.cell(op, sx, 0)
			if w.wantSample(op) {
				w.sample(op, []string{descText(x)}, descText(&m), ratText(x.val), fmt.Sprintf("n=%d", n))
			}
		}
		if m.val.Cmp(x.val) != 0 {
			w.cur.Got, w.cur.Reference = ratText(m.val), ratText(x.val)
			w.fail("reduce_value", fmt.Sprintf("Reduce(%s) = %s", ratText(x.val), ratText(m.val)))
			return
		}
		// observations only (the property states nothing about them)
		if m.coef.Sign() != 0 && new(big.Int).Rem(m.coef, bigTen).Sign() == 0 {
			w.c.reduceNotMinimal++
		}
		if x.coef.Sign() != 0 && int64(m.exp)-int64(x.exp) != int64(n) {
			w.c.reduceCountMismatch++
		}
		w.admit(&z, x.id, -1)
	case opBigInt:
		var got *big.Int
		var err error
		if w.guard(func() { got, err = x.d.BigInt() }) {
			return
		}
		integral := isIntegral(x.val)
		if integral {
			w.c.integralConversions++
		} else {
			w.c.nonIntegral++
		}
		if !integral || x.exp != 0 || x.neg {
			w.cell(op, sx, 0)
		}
		switch {
		case err != nil && integral:
			w.c.errs[op]++
			w.fail("integer_conversion", fmt.Sprintf("BigInt(%s) failed although the value is integral: %s", ratText(x.val), firstLine(err)))
		case err != nil:
			w.c.errs[op]++
		case !integral:
			w.cur.Got = got.String()
			w.fail("integer_conversion", fmt.Sprintf("BigInt(%s) = %s although the value is not integral", ratText(x.val), got))
		default:
			if got.Cmp(x.val.Num()) != 0 {
				w.cur.Got, w.cur.Reference = got.String(), x.val.Num().String()
				w.fail("integer_conversion", fmt.Sprintf("BigInt(%s) = %s", ratText(x.val), got))
			}
			lo, hi := bigRange(got)
			if w.checkAliasRange(lo, hi, "returned *big.Int") {
				// the caller owns the result: scribbling on it must not reach any pool member (checked by checkPool)
				got.Add(got, big.NewInt(1)).Lsh(got, 3)
			}
			if w.wantSample(op) {
				w.sample(op, []string{descText(x)}, x.val.Num().String(), x.val.Num().String(), "")
			}
		}
	case opInt64:
		var got int64
		var err error
		if w.guard(func() { got, err = x.d.Int64() }) {
			return
		}
		integral := isIntegral(x.val)
		inRange := integral && x.val.Num().IsInt64()
		if integral && !inRange {
			w.c.outOfI64++
		}
		if !integral || !inRange || x.exp != 0 || x.neg {
			w.cell(op, sx, 0)
		}
		switch {
		case err != nil && inRange:
			w.c.errs[op]++
			w.fail("integer_conversion", fmt.Sprintf("Int64(%s) failed although the value is an int64: %s", ratText(x.val), firstLine(err)))
		case err != nil:
			w.c.errs[op]++
		case !inRange:
			w.cur.Got = fmt.Sprint(got)
			w.fail("integer_conversion", fmt.Sprintf("Int64(%s) = %d although the value is not an int64", ratText(x.val), got))
		case got != x.val.Num().Int64():
			w.cur.Got, w.cur.Reference = fmt.Sprint(got), x.val.Num().String()
			w.fail("integer_conversion", fmt.Sprintf("Int64(%s) = %d", ratText(x.val), got))
		default:
			if w.wantSample(op) {
				w.sample(op, []string{descText(x)}, fmt.Sprint(got), x.val.Num().String(), "")
			}
		}
	case opSdkIntTrim:
		var got *big.Int
		if w.guard(func() { got = x.d.SdkIntTrim().BigInt() }) {
			return
		}
		want := truncRat(x.val)
		if !isIntegral(x.val) || x.neg || x.exp > 0 {
			w.cell(op, sx, 0)
			if x.neg && !isIntegral(x.val) {
				if w.wantSample(op) {
					w.sample(op, []string{descText(x)}, got.String(), want.String(), "negative, fractional: truncation toward zero")
				}
			}
		}
		if got == nil || got.Cmp(want) != 0 {
			w.cur.Got, w.cur.Reference = fmt.Sprint(got), want.String()
			w.fail("coin_truncation", fmt.Sprintf("SdkIntTrim(%s) = %v, truncation toward zero gives %s", ratText(x.val), got, want))
		}
	}
}

func descText(m *member) string {
	s := ""
	if m.neg {
		s = "-"
	}
	return fmt.Sprintf("%s%sE%+d", s, m.coef.String(), m.exp)
}

var (
	ratOne  = big.NewRat(1, 1)
	ratHalf = big.NewRat(1, 2)
)

func (w *worker) doBinary(op opID, xi, yi int) {
	x, y := &w.pool[xi], &w.pool[yi]
	w.c.exec[op]++
	w.cur = Case{Op: opNames[op]}
	w.begin(xi, yi)
	sx, sy := x.shape(), y.shape()
	rel := related(x, y)
	if rel {
		w.c.sharedParent++
		if xi == yi {
			w.c.sameMember++
		}
	}
	nontrivial := rel
	defer w.ensurePoolChecked()
	defer func() {
		if nontrivial {
			w.cell(op, sx, sy)
		}
	}()

	if op == opCmp || op == opEqual {
		want := x.val.Cmp(y.val)
		var got int
		var gotEq bool
		if w.guard(func() {
			if op == opCmp {
				got = x.d.Cmp(y.d)
			} else {
				gotEq = x.d.Equal(y.d)
			}
		}) {
			return
		}
		if want == 0 && (x.exp != y.exp || x.neg != y.neg) { // equal numbers, different representations (1.0 vs 1, -0 vs 0)
			nontrivial = true
			if w.wantSample(op) {
				w.sample(op, []string{descText(x), descText(y)}, fmt.Sprintf("Cmp=%d Equal=%v (the one called)", got, gotEq), fmt.Sprint(want), "equal values, different representations")
			}
		}
		if op == opCmp && got != want {
			w.cur.Got, w.cur.Reference = fmt.Sprint(got), fmt.Sprint(want)
			w.fail("comparison", fmt.Sprintf("Cmp(%s, %s) = %d, reference %d", ratText(x.val), ratText(y.val), got, want))
		}
		if op == opEqual && gotEq != (want == 0) {
			w.cur.Got, w.cur.Reference = fmt.Sprint(gotEq), fmt.Sprint(want == 0)
			w.fail("comparison", fmt.Sprintf("Equal(%s, %s) = %v", ratText(x.val), ratText(y.val), gotEq))
		}
		return
	}

	var z rmath.Dec
	var err error
	if w.guard(func() {
		switch op {
		case opAdd:
			z, err = x.d.Add(y.d)
		case opSub:
			z, err = x.d.Sub(y.d)
		case opMul:
			z, err = x.d.Mul(y.d)
		case opMulExact:
			z, err = x.d.MulExact(y.d)
		case opQuo:
			z, err = x.d.Quo(y.d)
		case opQuoExact:
			z, err = x.d.QuoExact(y.d)
		case opQuoInteger:
			z, err = x.d.QuoInteger(y.d)
		case opRem:
			z, err = x.d.Rem(y.d)
		case opPkgAdd:
			z, err = rmath.Add(x.d, y.d)
		case opSubNonNegative:
			z, err = rmath.SubNonNegative(x.d, y.d)
		case opSafeSubBalance:
			z, err = rmath.SafeSubBalance(x.d, y.d)
		case opSafeAddBalance:
			z, err = rmath.SafeAddBalance(x.d, y.d)
		}
	}) {
		return
	}
	if err != nil {
		w.c.errs[op]++
	}
	// structural value of what came back (only meaningful when err == nil)
	var zm member
	var zok bool
	if err == nil {
		var fin, mal bool
		zm, fin, mal = inspect(&z)
		zok = fin && !mal
		if !zok {
			w.fail("nonfinite_result", fmt.Sprintf("%s(%s, %s) returned a non-finite or malformed value without an error", opNames[op], ratText(x.val), ratText(y.val)))
			return
		}
		w.gotVal = zm.val
	}
	ops := func() []string { return []string{descText(x), descText(y)} }

	exactDemand := func(want *big.Rat, clause string) bool {
		w.refVal = want
		if zm.val.Cmp(want) != 0 {
			w.fail(clause, fmt.Sprintf("%s(%s, %s) = %s, exact value is %s", opNames[op], ratText(x.val), ratText(y.val), ratText(zm.val), ratText(want)))
			return false
		}
		return true
	}
	within := func(exact *big.Rat, clause string) bool {
		w.refVal = exact
		if exact.Sign() == 0 {
			if zm.val.Sign() != 0 {
				w.fail(clause, fmt.Sprintf("%s(%s, %s) = %s, exact value is 0", opNames[op], ratText(x.val), ratText(y.val), ratText(zm.val)))
				return false
			}
			return true
		}
		e := ulpErr(zm.val, exact)
		f, _ := e.Float64()
		if f > w.c.maxUlp[op] {
			w.c.maxUlp[op] = f
		}
		if e.Cmp(ratHalf) > 0 {
			w.c.halfUlpExceeded++
		}
		if e.Cmp(ratOne) > 0 {
			w.fail(clause, fmt.Sprintf("%s(%s, %s) = %s is %.4g units of the 34th significant digit away from the exact value %s", opNames[op], ratText(x.val), ratText(y.val), ratText(zm.val), f, ratText(exact)))
			return false
		}
		return true
	}
	noteRounding := func(exact *big.Rat) (needs bool) {
		d, term := sigDigits(exact)
		switch {
		case !term:
			w.c.nonTerminating++
			needs = true
		case d > 34:
			w.c.exceeded34++
			needs = true
		}
		if needs {
			w.c.neededRounding++
			nontrivial = true
		}
		return needs
	}

	switch op {
	case opAdd, opPkgAdd, opSub:
		var want *big.Rat
		if op == opSub {
			want = new(big.Rat).Sub(x.val, y.val)
			if zeroCrossing(x.val, y.val, want) {
				w.c.zeroCrossingSub++
				nontrivial = true
			}
		} else {
			want = new(big.Rat).Add(x.val, y.val)
			if x.val.Sign()*y.val.Sign() < 0 && want.Sign() != x.val.Sign() {
				nontrivial = true // cancellation through zero
			}
		}
		if d := int64(x.exp) - int64(y.exp); d > 20 || d < -20 {
			nontrivial = true // far-apart exponents: a rounding implementation would lose the small operand
		}
		if err != nil {
			w.fail("unexpected_error", fmt.Sprintf("%s(%s, %s) failed: %s", opNames[op], ratText(x.val), ratText(y.val), firstLine(err)))
			return
		}
		if !exactDemand(want, "add_sub_exact") {
			return
		}
		if nontrivial {
			if w.wantSample(op) {
				w.sample(op, ops(), ratText(zm.val), ratText(want), "")
			}
		}
		w.admit(&z, x.id, y.id)

	case opSubNonNegative, opSafeSubBalance, opSafeAddBalance:
		var want *big.Rat
		mustErr := false
		if op == opSafeAddBalance {
			want = new(big.Rat).Add(x.val, y.val)
			mustErr = x.val.Sign() < 0 || y.val.Sign() < 0
		} else {
			want = new(big.Rat).Sub(x.val, y.val)
			mustErr = want.Sign() < 0
			if zeroCrossing(x.val, y.val, want) {
				w.c.zeroCrossingSub++
				nontrivial = true
			}
		}
		if mustErr {
			nontrivial = true
		}
		w.refVal = want
		switch {
		case mustErr && err == nil:
			w.fail("negative_without_error", fmt.Sprintf("%s(%s, %s) returned %s without an error (true result %s)", opNames[op], ratText(x.val), ratText(y.val), ratText(zm.val), ratText(want)))
		case !mustErr && err != nil:
			w.fail("unexpected_error", fmt.Sprintf("%s(%s, %s) failed although the exact result %s is admissible: %s", opNames[op], ratText(x.val), ratText(y.val), ratText(want), firstLine(err)))
		case err == nil:
			if exactDemand(want, "add_sub_exact") {
				if nontrivial {
					if w.wantSample(op) {
						w.sample(op, ops(), ratText(zm.val), ratText(want), "")
					}
				}
				w.admit(&z, x.id, y.id)
			}
		default:
			if w.wantSample(op) {
				w.sample(op, ops(), "error: "+firstLine(err), ratText(want), "refused")
			}
		}

	case opMul:
		exact := new(big.Rat).Mul(x.val, y.val)
		needs := noteRounding(exact)
		if err != nil {
			w.fail("unexpected_error", fmt.Sprintf("Mul(%s, %s) failed: %s", ratText(x.val), ratText(y.val), firstLine(err)))
			return
		}
		if !within(exact, "rounding_34_digits") {
			return
		}
		if needs {
			if w.wantSample(op) {
				w.sample(op, ops(), ratText(zm.val), ratText(exact), "rounded")
			}
		}
		w.admit(&z, x.id, y.id)

	case opMulExact:
		exact := new(big.Rat).Mul(x.val, y.val)
		noteRounding(exact)
		// what the library has to represent is the coefficient product (trailing zeros included)
		prodDigits := numDigits(new(big.Int).Mul(x.coef, y.coef))
		if err == nil {
			w.c.exactOK++
			if exactDemand(exact, "exact_op_inexact") {
				w.admit(&z, x.id, y.id)
			}
			return
		}
		w.c.exactRefused++
		nontrivial = true
		if prodDigits <= 34 {
			w.refVal = exact
			w.fail("exact_op_spurious_error", fmt.Sprintf("MulExact(%s, %s) failed (%s) although the exact product %s has only %d digits", ratText(x.val), ratText(y.val), firstLine(err), ratText(exact), prodDigits))
			return
		}
		if d, _ := sigDigits(exact); d <= 34 {
			w.c.mulExactTrailingZerosOnly++ // refused although only zeros would have been dropped: allowed by the property ("or an error")
		}
		if w.wantSample(op) {
			w.sample(op, ops(), "error: "+firstLine(err), ratText(exact), fmt.Sprintf("coefficient product has %d digits", prodDigits))
		}

	case opQuo, opQuoExact:
		if y.val.Sign() == 0 {
			w.c.divByZero++
			nontrivial = true
			if err == nil {
				w.fail("division_by_zero", fmt.Sprintf("%s(%s, 0) returned %s", opNames[op], ratText(x.val), ratText(zm.val)))
			}
			return
		}
		exact := new(big.Rat).Quo(x.val, y.val)
		needs := noteRounding(exact)
		if op == opQuo {
			if err != nil {
				w.fail("unexpected_error", fmt.Sprintf("Quo(%s, %s) failed: %s", ratText(x.val), ratText(y.val), firstLine(err)))
				return
			}
			if !within(exact, "rounding_34_digits") {
				return
			}
			if needs {
				if w.wantSample(op) {
					w.sample(op, ops(), ratText(zm.val), exact.RatString(), "rounded")
				}
			}
			w.admit(&z, x.id, y.id)
			return
		}
		if err == nil {
			w.c.exactOK++
			if exactDemand(exact, "exact_op_inexact") {
				if w.wantSample(op) {
					w.sample(op, ops(), ratText(zm.val), ratText(exact), "exact")
				}
				w.admit(&z, x.id, y.id)
			}
			return
		}
		w.c.exactRefused++
		nontrivial = true
		if !needs {
			w.refVal = exact
			w.fail("exact_op_spurious_error", fmt.Sprintf("QuoExact(%s, %s) failed (%s) although the exact quotient %s needs at most 34 digits", ratText(x.val), ratText(y.val), firstLine(err), ratText(exact)))
		}

	case opQuoInteger, opRem:
		if y.val.Sign() == 0 {
			w.c.divByZero++
			nontrivial = true
			if err == nil {
				w.fail("division_by_zero", fmt.Sprintf("%s(%s, 0) returned %s", opNames[op], ratText(x.val), ratText(zm.val)))
			}
			return
		}
		q := truncRat(new(big.Rat).Quo(x.val, y.val)) // integral quotient, truncated toward zero
		qDigits := numDigits(q)
		if err != nil {
			nontrivial = true
			if op == opRem {
				w.c.remRefused++
			} else {
				w.c.quoIntRefused++
			}
			if qDigits <= 34 {
				w.cur.Reference = q.String()
				w.fail("unexpected_error", fmt.Sprintf("%s(%s, %s) failed (%s) although the integral quotient %s has only %d digits", opNames[op], ratText(x.val), ratText(y.val), firstLine(err), q, qDigits))
			}
			return
		}
		if op == opQuoInteger {
			if exactDemand(new(big.Rat).SetInt(q), "quo_rem_relation") {
				if q.Sign() != 0 && !isIntegral(new(big.Rat).Quo(x.val, y.val)) {
					nontrivial = true
					if w.wantSample(op) {
						w.sample(op, ops(), ratText(zm.val), q.String(), "")
					}
				}
				w.admit(&z, x.id, y.id)
			}
			return
		}
		// r = x - q*y  is the unique r with x = q*y + r, |r| < |y|, sign(r) = sign(x)
		r := new(big.Rat).Mul(new(big.Rat).SetInt(q), y.val)
		r.Sub(x.val, r)
		if d, _ := sigDigits(r); d <= 34 {
			if exactDemand(r, "quo_rem_relation") {
				if r.Sign() != 0 && q.Sign() != 0 {
					nontrivial = true
					if w.wantSample(op) {
						w.sample(op, ops(), ratText(zm.val), ratText(r), fmt.Sprintf("q=%s", q))
					}
				}
				w.admit(&z, x.id, y.id)
			}
			return
		}
		// the remainder itself needs more than 34 digits: Rem is documented to format it as decimal128
		w.c.remRounded++
		nontrivial = true
		if within(r, "rounding_34_digits") {
			w.admit(&z, x.id, y.id)
		}
	}
}

func zeroCrossing(x, y, diff *big.Rat) bool {
	return x.Sign() != 0 && x.Sign() == y.Sign() && diff.Sign() != x.Sign()
}

// ---------------------------------------------------------------------------------------------------
// driver

func decodeSignatures(fs []Finding) []known.Signature {
	var out []known.Signature
	for _, f := range known.For(fs, Property) {
		var s known.Signature
		if json.Unmarshal(f.Signature, &s) == nil && s.Clause != "" && s.Cause != "" {
			out = append(out, s)
		}
	}
	return out
}

// Witness of a C19 known finding: one replay case.
type Witness = Case

// runWitnesses re-executes every known witness; a line is produced only if it still fails with its signature.
func runWitnesses(fs []Finding) []string {
	var lines []string
	for _, f := range known.For(fs, Property) {
		var sig known.Signature
		var cs Case
		if json.Unmarshal(f.Signature, &sig) != nil || json.Unmarshal(f.Witness, &cs) != nil {
			continue
		}
		w := newWorker(0, 0, nil) // no suppression: see whether it fails
		if err := w.execCase(&cs); err != nil {
			continue
		}
		for _, v := range w.viol {
			if clauseListed(sig.Clause, v.Clause) && causeHolds(sig.Cause, &v.Case) {
				lines = append(lines, fmt.Sprintf("KNOWN-FINDING: property=%s id=%s clause=%s cause=%s %s", Property, f.ID, v.Clause, sig.Cause, oneLine(v.Message)))
				break
			}
		}
	}
	return lines
}

func oneLine(s string) string { return strings.Join(strings.Fields(s), " ") }

// execCase re-executes one recorded operation (replay files and known-finding witnesses).
func (w *worker) execCase(cs *Case) error {
	op, ok := opByName(cs.Op)
	if !ok {
		return fmt.Errorf("unknown operation %q", cs.Op)
	}
	idx := map[int64]int{}
	var at []int
	for _, o := range cs.Operands {
		if i, seen := idx[o.ID]; seen {
			at = append(at, i)
			continue
		}
		sign := ""
		if o.Neg {
			sign = "-"
		}
		d, err := rmath.NewDecFromString(fmt.Sprintf("%s%sE%d", sign, o.Coeff, o.Exp))
		if err != nil {
			return fmt.Errorf("cannot rebuild operand %+v: %v", o, err)
		}
		m, fin, mal := inspect(&d)
		if !fin || mal {
			return fmt.Errorf("cannot rebuild operand %+v", o)
		}
		m.id, m.parents = o.ID, [2]int64{-1, -1}
		w.pool = append(w.pool, m)
		p := &w.pool[len(w.pool)-1]
		p.sh = takeShadow(&p.d)
		idx[o.ID] = len(w.pool) - 1
		at = append(at, len(w.pool)-1)
		if w.next <= o.ID {
			w.next = o.ID + 1
		}
	}
	switch {
	case op <= opNewNonNegativeFixedDecFromString:
		if cs.Input == nil {
			return fmt.Errorf("case has no input string")
		}
		w.doCtorString(op, *cs.Input, cs.MaxNum)
	case op <= opNewDecFinite:
		w.doCtorInt(op, cs.Int64, cs.Exp32)
	case op <= opEqual:
		if len(at) != 2 {
			return fmt.Errorf("binary operation needs two operands")
		}
		w.doBinary(op, at[0], at[1])
	default:
		if len(at) != 1 {
			return fmt.Errorf("unary operation needs one operand")
		}
		w.doUnary(op, at[0])
	}
	return nil
}

// Replay re-executes the case of a replay file against the current tree.
func Replay(cs Case, fs []Finding) Result {
	res := Result{Property: Property}
	if layoutErr != nil {
		res.Inconclusive = "cannot inspect math.Dec: " + layoutErr.Error()
		return res
	}
	w := newWorker(cs.Worker, cs.Seed, decodeSignatures(fs))
	w.step = cs.Step
	if err := w.execCase(&cs); err != nil {
		res.Inconclusive = "replay: " + err.Error()
		return res
	}
	res.Evaluations = 1
	res.Violations, res.ViolationCount, res.KnownHits = w.viol, w.violCount, w.knownHits
	if w.knownHits > 0 {
		res.KnownLines = runWitnesses(fs)
	}
	res.Coverage = map[string]any{"evaluations": 1}
	return res
}

// Run executes the C19 workload of the tier.
func Run(cfg Config) Result {
	res := Result{Property: Property}
	res.Assumptions = []string{
		"reference = math/big.Rat/big.Int fed by the harness's own decimal-string parser; neither apd nor any Dec helper decides a verdict",
		"math.Dec wraps github.com/cockroachdb/apd/v2.Decimal{Form,Negative,Exponent,Coeff math/big.Int}; layout verified by reflection at start-up",
		"Mul/Quo (and a Rem whose remainder needs > 34 digits) are accepted within 1 unit of the 34th significant digit; half-unit statistics are recorded",
		"MulExact/QuoExact may refuse when the coefficient product / exact quotient needs > 34 digits (trailing zeros of the product count: counted in mulexact_refused_trailing_zeros_only)",
		"SdkIntTrim is exercised for |x| < 2^255 only (documented panic above the SDK Int range)",
		"strings outside the reference grammar that the library accepts are counted; they are violations only if the accepted value does not render as a plain numeral denoting itself",
		fmt.Sprintf("results enter the pool only with <= %d coefficient digits and |exponent| <= %d (all results are checked before being dropped)", poolMaxDigits, poolMaxAbsExp),
	}
	if layoutErr != nil {
		res.Inconclusive = "cannot inspect math.Dec: " + layoutErr.Error()
		return res
	}
	ts, ok := Tiers[cfg.Tier]
	if !ok {
		res.Inconclusive = "unknown tier " + cfg.Tier
		return res
	}
	if cfg.Workers > 0 {
		ts.Workers = cfg.Workers
	}
	if cfg.OpsPerWorker > 0 {
		ts.OpsPerWorker = cfg.OpsPerWorker
	}
	res.KnownLines = runWitnesses(cfg.Known)
	sigs := decodeSignatures(cfg.Known)

	workers := make([]*worker, ts.Workers)
	var wg sync.WaitGroup
	for i := range workers {
		workers[i] = newWorker(i, deriveSeed(cfg.Seed, i), sigs)
		wg.Add(1)
		go func(w *worker) {
			defer wg.Done()
			for n := int64(0); n < ts.OpsPerWorker; n++ {
				w.Step()
			}
		}(workers[i])
	}
	// Watchdog (not an oracle): a library call that never returns would otherwise hang the check. Its firing is
	// INCONCLUSIVE; violations recorded before it are still reported.
	done := make(chan struct{})
	go func() { wg.Wait(); close(done) }()
	last := make([]int64, len(workers))
	lastChange := time.Now()
	tick := time.NewTicker(2 * time.Second)
	defer tick.Stop()
wait:
	for {
		select {
		case <-done:
			break wait
		case <-tick.C:
			moved := false
			for i, w := range workers {
				if p := w.progress.Load(); p != last[i] {
					last[i], moved = p, true
				}
			}
			if moved {
				lastChange = time.Now()
				continue
			}
			if time.Since(lastChange) < WatchdogStall {
				continue
			}
			var stuck []string
			for i, w := range workers {
				if w.progress.Load() < ts.OpsPerWorker {
					stuck = append(stuck, fmt.Sprintf("worker %d at step %d in %s", i, last[i]+1, opNames[w.curOp.Load()]))
				}
				res.Evaluations += w.progress.Load()
				w.mu.Lock()
				res.ViolationCount += w.violCount
				res.KnownHits += w.knownHits
				for _, v := range w.viol {
					if len(res.Violations) < MaxViolations {
						res.Violations = append(res.Violations, v)
					}
				}
				w.mu.Unlock()
			}
			res.Inconclusive = fmt.Sprintf("watchdog: no operation completed for %s (%s); a library call does not return", WatchdogStall, strings.Join(stuck, "; "))
			res.Coverage = map[string]any{"evaluations": res.Evaluations}
			return res
		}
	}

	// merge
	var tot counters
	tot.outsideAcceptedClasses = map[string]int64{}
	cells := map[uint64]struct{}{}
	seen := map[string]bool{}
	for _, w := range workers {
		mergeCounters(&tot, &w.c)
		for k := range w.cells {
			cells[k] = struct{}{}
		}
		res.ViolationCount += w.violCount
		res.KnownHits += w.knownHits
		for _, v := range w.viol {
			key := v.Clause + "/" + v.Case.Op
			if !seen[key] && len(res.Violations) < MaxViolations {
				seen[key] = true
				res.Violations = append(res.Violations, v)
			}
		}
	}
	perOp := map[string]any{}
	var evals int64
	var starved []string
	maxUlpAll := 0.0
	for i := opID(0); i < numOps; i++ {
		evals += tot.exec[i]
		e := map[string]any{"executed": tot.exec[i], "returned_error": tot.errs[i], "nontrivial": tot.nontrivial[i]}
		if i == opMul || i == opQuo || i == opRem {
			e["max_error_units_of_34th_digit"] = tot.maxUlp[i]
			if tot.maxUlp[i] > maxUlpAll {
				maxUlpAll = tot.maxUlp[i]
			}
		}
		perOp[opNames[i]] = e
		if tot.exec[i] < CoverageFloorPerOp {
			starved = append(starved, fmt.Sprintf("%s=%d", opNames[i], tot.exec[i]))
		}
	}
	res.Evaluations = evals
	var samples []any
	for _, s := range workers[0].samples {
		samples = append(samples, s)
	}
	res.Coverage = map[string]any{
		"evaluations":         evals,
		"distinct_nontrivial": len(cells),
		"rule": "pool-based random workload (pool 256 per worker; operands drawn from the pool, 10% x op x, 15% relatives; results re-enter the pool). " +
			"A case is one operation on concrete operands. distinct_nontrivial = number of DISTINCT cells (operation, shape(x), shape(y)) with shape = (coefficient-digits bucket " +
			"{0,1-8,9-16,17-33,34,35-40,>40}, exponent bucket {<-30,-30..-7,-6..-1,0,1..10,11..40,>40}, sign {+,-,+0,-0}) in which at least one NON-TRIVIAL case occurred: " +
			"exact result needs rounding / exceeds 34 digits / is non-terminating, an exact op refused, zero-crossing subtraction or cancellation, exponents > 20 apart, operands sharing a parent " +
			"(or identical), division by zero, equal values in different representations, zero variants (-0, 0E±k) under predicates/String, non-integral / negative / out-of-range conversions, " +
			"scientific / negative-zero / >34-digit / leading-zero / rejected / outside-grammar-accepted input strings",
		"samples":                                   samples,
		"workers":                                   ts.Workers,
		"ops_per_worker":                            ts.OpsPerWorker,
		"pool_size":                                 PoolSize,
		"per_operation":                             perOp,
		"needed_rounding":                           tot.neededRounding,
		"exceeded_34_digits":                        tot.exceeded34,
		"non_terminating":                           tot.nonTerminating,
		"zero_crossing_subtractions":                tot.zeroCrossingSub,
		"operands_sharing_a_parent":                 tot.sharedParent,
		"operands_same_member":                      tot.sameMember,
		"max_rounding_error_units_of_34th_digit":    maxUlpAll,
		"results_more_than_half_unit_off":           tot.halfUlpExceeded,
		"exact_ops_succeeded":                       tot.exactOK,
		"exact_ops_refused":                         tot.exactRefused,
		"mulexact_refused_trailing_zeros_only":      tot.mulExactTrailingZerosOnly,
		"rem_rounded_to_34_digits":                  tot.remRounded,
		"quointeger_refused":                        tot.quoIntRefused,
		"rem_refused":                               tot.remRefused,
		"divisions_by_zero":                         tot.divByZero,
		"strings_in_grammar":                        tot.parseInGrammar,
		"strings_out_of_exponent_domain":            tot.parseOutOfDomain,
		"strings_outside_grammar_accepted":          tot.outsideAccepted,
		"strings_outside_grammar_accepted_by_class": tot.outsideAcceptedClasses,
		"strings_outside_grammar_rejected":          tot.outsideRejected,
		"nonfinite_accepted":                        tot.nonfiniteAccepted,
		"negative_zero_inputs":                      tot.negativeZeroInputs,
		"scientific_inputs":                         tot.sciInputs,
		"rejected_for_sign":                         tot.signRejected,
		"rejected_for_decimal_places":               tot.fixedRejectedPlaces,
		"results_pooled":                            tot.pooled,
		"results_checked_but_not_pooled":            tot.notPooled,
		"sdkinttrim_skipped_too_large":              tot.sdkIntSkippedTooLarge,
		"integral_conversions":                      tot.integralConversions,
		"non_integral_conversions":                  tot.nonIntegral,
		"integral_but_outside_int64":                tot.outOfI64,
		"string_oracle_checks":                      tot.stringChecks,
		"string_with_redundant_leading_zeros":       tot.stringLeadingZeros,
		"reduce_not_minimal":                        tot.reduceNotMinimal,
		"reduce_count_mismatch":                     tot.reduceCountMismatch,
		"shadow_comparisons":                        tot.poolComparisons,
		"alias_checks":                              tot.aliasChecks,
		"known_finding_hits":                        res.KnownHits,
		"coverage_floor_per_operation":              CoverageFloorPerOp,
	}
	if len(starved) > 0 {
		sort.Strings(starved)
		res.Inconclusive = fmt.Sprintf("coverage floor missed: operations executed fewer than %d times: %s", CoverageFloorPerOp, strings.Join(starved, ","))
	} else if len(cells) < 2 {
		res.Inconclusive = "coverage floor missed: fewer than 2 distinct non-trivial cells"
	}
	return res
}

func mergeCounters(t, c *counters) {
	for i := range t.exec {
		t.exec[i] += c.exec[i]
		t.errs[i] += c.errs[i]
		t.nontrivial[i] += c.nontrivial[i]
		if c.maxUlp[i] > t.maxUlp[i] {
			t.maxUlp[i] = c.maxUlp[i]
		}
	}
	t.neededRounding += c.neededRounding
	t.exceeded34 += c.exceeded34
	t.nonTerminating += c.nonTerminating
	t.zeroCrossingSub += c.zeroCrossingSub
	t.sharedParent += c.sharedParent
	t.sameMember += c.sameMember
	t.exactOK += c.exactOK
	t.exactRefused += c.exactRefused
	t.mulExactTrailingZerosOnly += c.mulExactTrailingZerosOnly
	t.remRounded += c.remRounded
	t.quoIntRefused += c.quoIntRefused
	t.remRefused += c.remRefused
	t.divByZero += c.divByZero
	t.halfUlpExceeded += c.halfUlpExceeded
	t.parseInGrammar += c.parseInGrammar
	t.parseOutOfDomain += c.parseOutOfDomain
	t.outsideAccepted += c.outsideAccepted
	t.outsideRejected += c.outsideRejected
	t.nonfiniteAccepted += c.nonfiniteAccepted
	t.negativeZeroInputs += c.negativeZeroInputs
	t.sciInputs += c.sciInputs
	t.fixedRejectedPlaces += c.fixedRejectedPlaces
	t.signRejected += c.signRejected
	t.notPooled += c.notPooled
	t.pooled += c.pooled
	t.sdkIntSkippedTooLarge += c.sdkIntSkippedTooLarge
	t.integralConversions += c.integralConversions
	t.nonIntegral += c.nonIntegral
	t.outOfI64 += c.outOfI64
	t.stringLeadingZeros += c.stringLeadingZeros
	t.stringChecks += c.stringChecks
	t.reduceNotMinimal += c.reduceNotMinimal
	t.reduceCountMismatch += c.reduceCountMismatch
	t.poolComparisons += c.poolComparisons
	t.aliasChecks += c.aliasChecks
	for k, v := range c.outsideAcceptedClasses {
		t.outsideAcceptedClasses[k] += v
	}
}
