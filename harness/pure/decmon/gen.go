package decmon

import (
	"math/big"
	"math/rand"
	"strconv"
	"strings"
)

// Input strings: signs, zeros, 0..40 digit coefficients, exponents -30..+40, plain and scientific
// notation, leading / trailing zeros, renderings of earlier results, and hostile non-numerals.

var zeroStrings = []string{
	"0", "-0", "+0", "0.000", "-0.000", "0E+5", "0e-5", "-0E+5", "-0E-7", "00", "0.", "000.000", ".0", "-.0", "0E0", "0e+40", "0E-30",
}

// strings outside the reference grammar (or outside its exponent domain); the library's reaction is counted.
var hostileStrings = []string{
	"", " ", "Infinity", "-Infinity", "inf", "+Inf", "INF", "NaN", "nan", "-NaN", "sNaN", "NaN123", "snan7",
	".-5", "-.-5", ".+5", ".-5e1", "+.-12", ".-0", ".-00500", ".+0", "-.+5", ".-12345678901234567890123456789012345678",
	"1e", "e5", ".", "-", "+", "--1", "+-1", "-+1", "1.2.3", "1,5", "1 000", "0x10", "0X1F", "0b1", "0o7", "1_000", " 1", "1 ", "\t1", "1\n",
	"1e+-5", "1e5.5", "1e1e1", "١٢٣", "５", "1/2", "1d5", "1e0x5", "1.e", ".e5", "-.", "+.", "1e+", "1e-",
	"1E+999999999", "1E-999999999", "1e2147483647", "1e2147483648", "1e-2147483648", "1e-2147483649", "1E+100001", "1E-100001",
	"1e99999999999999999999", "\x00", "1\x00", "١", "1e٥", "0.1e", "Infinity1", "in", "i", "n", "na",
}

var digitBoundaries = []int{0, 1, 1, 2, 6, 15, 16, 17, 18, 19, 20, 28, 33, 34, 34, 35, 36, 39, 40}

func genDigits(rng *rand.Rand, n int) string {
	if n == 0 {
		return ""
	}
	b := make([]byte, n)
	switch rng.Intn(8) {
	case 0: // all nines
		for i := range b {
			b[i] = '9'
		}
	case 1: // one followed by zeros
		for i := range b {
			b[i] = '0'
		}
		b[0] = '1'
	case 2: // trailing zeros
		k := rng.Intn(n)
		for i := range b {
			if i < n-k {
				b[i] = byte('1' + rng.Intn(9))
			} else {
				b[i] = '0'
			}
		}
	case 3: // ...5 / ...50 / 49999 / 50001 tails: ties for rounding
		for i := range b {
			b[i] = byte('0' + rng.Intn(10))
		}
		b[0] = byte('1' + rng.Intn(9))
		tails := []string{"5", "50", "500", "49", "499999", "51", "500001", "05", "95", "995"}
		t := tails[rng.Intn(len(tails))]
		if len(t) <= n {
			copy(b[n-len(t):], t)
		}
	case 4: // leading zeros
		k := rng.Intn(n)
		for i := range b {
			if i < k {
				b[i] = '0'
			} else {
				b[i] = byte('0' + rng.Intn(10))
			}
		}
	default:
		for i := range b {
			b[i] = byte('0' + rng.Intn(10))
		}
		b[0] = byte('1' + rng.Intn(9))
	}
	return string(b)
}

func genExp(rng *rand.Rand) int {
	switch rng.Intn(10) {
	case 0:
		return 0
	case 1:
		return []int{-30, -29, -18, -7, -6, -1, 1, 6, 39, 40}[rng.Intn(10)]
	default:
		return rng.Intn(71) - 30
	}
}

// renderPlain writes coefficient digits * 10^exp without an exponent part.
func renderPlain(digits string, exp int) string {
	if digits == "" {
		digits = "0"
	}
	switch {
	case exp >= 0:
		return digits + strings.Repeat("0", exp)
	case -exp < len(digits):
		return digits[:len(digits)+exp] + "." + digits[len(digits)+exp:]
	default:
		return "0." + strings.Repeat("0", -exp-len(digits)) + digits
	}
}

// renderSci writes the same value with an exponent part; the point is placed after `lead` digits.
func renderSci(rng *rand.Rand, digits string, exp int) string {
	if digits == "" {
		digits = "0"
	}
	lead := len(digits)
	if len(digits) > 1 && rng.Intn(2) == 0 {
		lead = 1 + rng.Intn(len(digits))
	}
	m := digits
	e := exp
	if lead < len(digits) {
		m = digits[:lead] + "." + digits[lead:]
		e = exp + (len(digits) - lead)
	}
	ech := "E"
	if rng.Intn(3) == 0 {
		ech = "e"
	}
	sign := ""
	if e >= 0 && rng.Intn(2) == 0 {
		sign = "+"
	}
	es := strconv.Itoa(e)
	if rng.Intn(12) == 0 { // leading zeros in the exponent
		if e < 0 {
			es = "-00" + strconv.Itoa(-e)
		} else {
			es = "00" + es
		}
	}
	return m + ech + sign + es
}

func genSign(rng *rand.Rand) string {
	switch rng.Intn(20) {
	case 0:
		return "+"
	case 1, 2, 3, 4, 5, 6, 7:
		return "-"
	}
	return ""
}

// genString produces one input string. fromPool, when non-empty, is the String() of an earlier result.
func genString(rng *rand.Rand, fromPool string) string {
	r := rng.Intn(100)
	switch {
	case r < 8:
		return zeroStrings[rng.Intn(len(zeroStrings))]
	case r < 15:
		return hostileStrings[rng.Intn(len(hostileStrings))]
	case r < 19: // a valid numeral with one hostile character spliced in
		s := genNumeral(rng)
		const junk = "+-.eE _,xX/5"
		i := rng.Intn(len(s) + 1)
		return s[:i] + string(junk[rng.Intn(len(junk))]) + s[i:]
	case r < 31 && fromPool != "":
		return respell(rng, fromPool)
	}
	return genNumeral(rng)
}

// machine-word stratum: coefficients at and around the limits of 32/63/64-bit words and of the largest
// powers of ten that fit in them, with scales that put the VALUE next to small integers (where a
// truncation, a comparison or a fast path for "small" numbers would show a wrong digit).
var wordCoefs = []string{"9223372036854775807", "9223372036854775808", "18446744073709551615", "18446744073709551616",
	"10000000000000000000", "9999999999999999999", "1000000000000000000", "999999999999999999", "4294967295", "4294967296",
	"2147483647", "2147483648", "36893488147419103232", "340282366920938463463374607431768211455"}

func genWordNumeral(rng *rand.Rand) (string, int) {
	var c *big.Int
	switch rng.Intn(4) {
	case 0: // a 20-digit coefficient that still fits in 64 bits
		c = new(big.Int).SetUint64(10000000000000000000 + rng.Uint64()%8446744073709551615)
	case 1: // just below / above a boundary
		c, _ = new(big.Int).SetString(wordCoefs[rng.Intn(len(wordCoefs))], 10)
		c.Add(c, big.NewInt(int64(rng.Intn(7)-3)))
		if c.Sign() < 0 {
			c.Neg(c)
		}
	case 2: // a random 63..64-bit value
		c = new(big.Int).SetUint64(rng.Uint64() | 1<<62)
	default:
		c, _ = new(big.Int).SetString(wordCoefs[rng.Intn(len(wordCoefs))], 10)
	}
	d := c.String()
	exps := []int{-(len(d) - 1), -len(d), -(len(d) - 2), -(len(d) + 1), -19, -18, -20, -6, -1, 0, 1}
	return d, exps[rng.Intn(len(exps))]
}

func genNumeral(rng *rand.Rand) string {
	n := digitBoundaries[rng.Intn(len(digitBoundaries))]
	if rng.Intn(3) == 0 {
		n = rng.Intn(41)
	}
	digits := genDigits(rng, n)
	exp := genExp(rng)
	if rng.Intn(7) == 0 {
		digits, exp = genWordNumeral(rng)
	}
	sign := genSign(rng)
	var s string
	if rng.Intn(5) < 2 {
		s = renderSci(rng, digits, exp)
	} else {
		s = renderPlain(digits, exp)
		switch rng.Intn(12) {
		case 0:
			s = "00" + s
		case 1:
			if strings.Contains(s, ".") {
				s += "000"
			} else {
				s += ".000"
			}
		case 2:
			if strings.HasPrefix(s, "0.") {
				s = s[1:] // ".5"
			}
		case 3:
			if !strings.Contains(s, ".") {
				s += "." // "5."
			}
		}
	}
	return sign + s
}

// respell rewrites a plain rendering of an earlier result in another spelling of the same value.
func respell(rng *rand.Rand, s string) string {
	neg := strings.HasPrefix(s, "-")
	t := strings.TrimPrefix(s, "-")
	intPart, frac := t, ""
	if i := strings.IndexByte(t, '.'); i >= 0 {
		intPart, frac = t[:i], t[i+1:]
	}
	if !isDigits(intPart) || (frac != "" && !isDigits(frac)) {
		return s // not plain: hand it over unchanged, the parse oracle deals with it
	}
	out := t
	switch rng.Intn(5) {
	case 0: // scientific
		out = renderSci(rng, intPart+frac, -len(frac))
	case 1:
		out = "000" + t
	case 2:
		if frac != "" {
			out = t + "00"
		} else {
			out = t + ".0"
		}
	case 3: // shifted exponent
		k := rng.Intn(9) - 4
		out = renderPlain(intPart+frac, -len(frac)-k) + "E" + strconv.Itoa(k)
	}
	if neg {
		out = "-" + out
	}
	return out
}
