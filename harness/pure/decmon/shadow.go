package decmon

import (
	"fmt"
	"math/big"
	"reflect"
	"unsafe"

	rmath "github.com/regen-network/regen-ledger/types/v2/math"
)

// apdMirror has the memory layout of github.com/cockroachdb/apd/v2.Decimal, the single unexported field
// of math.Dec. The layout is verified by reflection at start-up (layoutErr); a mismatch (e.g. a switch to
// apd/v3 with its own BigInt) makes the check INCONCLUSIVE instead of reading garbage.
type apdMirror struct {
	Form     int
	Negative bool
	Exponent int32
	Coeff    big.Int
}

var layoutErr = checkLayout()

func checkLayout() error {
	dt := reflect.TypeOf(rmath.Dec{})
	if dt.Kind() != reflect.Struct || dt.NumField() != 1 {
		return fmt.Errorf("math.Dec is not a one-field struct: %s", dt)
	}
	at := dt.Field(0).Type
	mt := reflect.TypeOf(apdMirror{})
	if at.Kind() != reflect.Struct || at.NumField() != mt.NumField() || at.Size() != mt.Size() || dt.Size() != mt.Size() {
		return fmt.Errorf("unexpected layout of %s (size %d, want %d)", at, at.Size(), mt.Size())
	}
	for i := 0; i < mt.NumField(); i++ {
		a, m := at.Field(i), mt.Field(i)
		if a.Name != m.Name || a.Offset != m.Offset || a.Type.Kind() != m.Type.Kind() || a.Type.Size() != m.Type.Size() {
			return fmt.Errorf("field %d of %s is %s %s@%d, mirror has %s %s@%d", i, at, a.Name, a.Type, a.Offset, m.Name, m.Type, m.Offset)
		}
	}
	if at.Field(3).Type != reflect.TypeOf(big.Int{}) {
		return fmt.Errorf("coefficient type is %s, not math/big.Int", at.Field(3).Type)
	}
	return nil
}

// LayoutError reports whether the monitor can look inside math.Dec on this tree.
func LayoutError() error { return layoutErr }

func view(d *rmath.Dec) *apdMirror { return (*apdMirror)(unsafe.Pointer(d)) }

// shadow is a deep copy of everything a Dec consists of, taken when the value enters the pool.
type shadow struct {
	form    int
	neg     bool
	exp     int32
	coefNeg bool       // sign bit of the big.Int (must stay false in a well-formed Decimal)
	words   []big.Word // COPY of the coefficient's word slice
	ptr     uintptr    // address of the live backing array (0 if none)
	capw    int        // capacity of the live backing array in words
}

func takeShadow(d *rmath.Dec) shadow {
	v := view(d)
	bits := v.Coeff.Bits() // shares the backing array with the Dec
	s := shadow{form: v.Form, neg: v.Negative, exp: v.Exponent, coefNeg: v.Coeff.Sign() < 0}
	s.words = append([]big.Word(nil), bits...)
	if cap(bits) > 0 {
		s.ptr = uintptr(unsafe.Pointer(unsafe.SliceData(bits)))
		s.capw = cap(bits)
	}
	return s
}

// diff compares the live value with the shadow; "" means untouched.
func (s *shadow) diff(d *rmath.Dec) string {
	v := view(d)
	if v.Form != s.form {
		return fmt.Sprintf("form %d -> %d", s.form, v.Form)
	}
	if v.Negative != s.neg {
		return fmt.Sprintf("negative %v -> %v", s.neg, v.Negative)
	}
	if v.Exponent != s.exp {
		return fmt.Sprintf("exponent %d -> %d", s.exp, v.Exponent)
	}
	if (v.Coeff.Sign() < 0) != s.coefNeg {
		return "coefficient sign bit changed"
	}
	bits := v.Coeff.Bits()
	if len(bits) != len(s.words) {
		return fmt.Sprintf("coefficient length %d -> %d words", len(s.words), len(bits))
	}
	for i := range bits {
		if bits[i] != s.words[i] {
			return fmt.Sprintf("coefficient %s -> %s", new(big.Int).SetBits(append([]big.Word(nil), s.words...)).String(),
				new(big.Int).SetBits(append([]big.Word(nil), bits...)).String())
		}
	}
	return ""
}

// memRange returns the address range of the coefficient's backing array (whole capacity).
func memRange(d *rmath.Dec) (lo, hi uintptr) {
	bits := view(d).Coeff.Bits()
	if cap(bits) == 0 {
		return 0, 0
	}
	lo = uintptr(unsafe.Pointer(unsafe.SliceData(bits)))
	return lo, lo + uintptr(cap(bits))*unsafe.Sizeof(big.Word(0))
}

func bigRange(x *big.Int) (lo, hi uintptr) {
	bits := x.Bits()
	if cap(bits) == 0 {
		return 0, 0
	}
	lo = uintptr(unsafe.Pointer(unsafe.SliceData(bits)))
	return lo, lo + uintptr(cap(bits))*unsafe.Sizeof(big.Word(0))
}

func overlaps(alo, ahi, blo, bhi uintptr) bool {
	return alo != ahi && blo != bhi && alo < bhi && blo < ahi
}

// structure reads (finite?, coefficient with sign applied, exponent) out of a Dec without using any Dec method.
// malformed is set when the big.Int itself carries a sign (apd requires a non-negative coefficient).
func structure(d *rmath.Dec) (finite bool, coefAbs *big.Int, neg bool, exp int32, malformed bool) {
	v := view(d)
	finite = v.Form == 0 // apd.Finite
	coefAbs = new(big.Int).SetBits(append([]big.Word(nil), v.Coeff.Bits()...))
	return finite, coefAbs, v.Negative, v.Exponent, v.Coeff.Sign() < 0
}

// rebuild constructs a Dec equal to the shadowed value on a fresh backing array (written through the mirror; no
// library code involved).
func (s *shadow) rebuild() rmath.Dec {
	var d rmath.Dec
	v := view(&d)
	v.Form, v.Negative, v.Exponent = s.form, s.neg, s.exp
	words := make([]big.Word, len(s.words), len(s.words)+4)
	copy(words, s.words)
	v.Coeff.SetBits(words)
	if s.coefNeg {
		v.Coeff.Neg(&v.Coeff)
	}
	return d
}
