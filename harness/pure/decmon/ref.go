package decmon

import (
	"math/big"
	"strings"
)

// This file is the independent reference: a decimal-string parser and exact helpers over math/big only.
// Nothing here calls apd or any helper of the Dec type.

// refNum is what the reference grammar reads out of a string.
type refNum struct {
	val    *big.Rat // exact value
	neg    bool     // a leading '-' was present (distinguishes "-0")
	digits int      // number of coefficient digits written (incl. leading zeros)
	exp    int64    // resulting power of ten of the last written digit  (value = coefficient * 10^exp)
	places int64    // decimal places the literal denotes: max(0, -exp)
	sci    bool     // used an exponent part
}

const (
	// strings whose net exponent lies outside ±refMaxExp are "out of domain": counted, never judged
	refMaxExp = 1000
)

type parseClass int

const (
	inGrammar      parseClass = iota // reference value available
	outOfDomain                      // in grammar, exponent outside ±refMaxExp (counted only)
	outsideGrammar                   // not a decimal numeral according to the reference grammar
)

var pow10cache [2049]*big.Int

func init() {
	p := big.NewInt(1)
	ten := big.NewInt(10)
	for i := range pow10cache {
		pow10cache[i] = new(big.Int).Set(p)
		p.Mul(p, ten)
	}
}

func pow10(n int64) *big.Int {
	if n < 0 {
		panic("pow10 negative")
	}
	if n < int64(len(pow10cache)) {
		return pow10cache[n]
	}
	return new(big.Int).Exp(big.NewInt(10), big.NewInt(n), nil)
}

// ratFromCoefExp returns coef * 10^exp (coef may be negative).
func ratFromCoefExp(coef *big.Int, exp int64) *big.Rat {
	if exp >= 0 {
		return new(big.Rat).SetInt(new(big.Int).Mul(coef, pow10(exp)))
	}
	return new(big.Rat).SetFrac(coef, pow10(-exp))
}

func isDigits(s string) bool {
	if s == "" {
		return false
	}
	for i := 0; i < len(s); i++ {
		if s[i] < '0' || s[i] > '9' {
			return false
		}
	}
	return true
}

// parseRef implements the reference grammar
//
//	[+-]? ( D+ ( '.' D* )? | '.' D+ ) ( [eE] [+-]? D+ )?
//
// and returns the exact rational it denotes.
func parseRef(s string) (refNum, parseClass) {
	var r refNum
	t := s
	if t != "" && (t[0] == '+' || t[0] == '-') {
		r.neg = t[0] == '-'
		t = t[1:]
	}
	mant := t
	var expo int64
	if i := strings.IndexAny(t, "eE"); i >= 0 {
		mant = t[:i]
		e := t[i+1:]
		eneg := false
		if e != "" && (e[0] == '+' || e[0] == '-') {
			eneg = e[0] == '-'
			e = e[1:]
		}
		if !isDigits(e) {
			return r, outsideGrammar
		}
		e = strings.TrimLeft(e, "0")
		if len(e) > 12 {
			return r, outOfDomain
		}
		for i := 0; i < len(e); i++ {
			expo = expo*10 + int64(e[i]-'0')
		}
		if eneg {
			expo = -expo
		}
		r.sci = true
	}
	intPart, fracPart := mant, ""
	hasPoint := false
	if i := strings.IndexByte(mant, '.'); i >= 0 {
		intPart, fracPart = mant[:i], mant[i+1:]
		hasPoint = true
	}
	switch {
	case !hasPoint:
		if !isDigits(intPart) {
			return r, outsideGrammar
		}
	case intPart == "":
		if !isDigits(fracPart) {
			return r, outsideGrammar
		}
	default:
		if !isDigits(intPart) || (fracPart != "" && !isDigits(fracPart)) {
			return r, outsideGrammar
		}
	}
	digits := intPart + fracPart
	r.digits = len(digits)
	r.exp = expo - int64(len(fracPart))
	if r.exp > refMaxExp || r.exp < -refMaxExp {
		return r, outOfDomain
	}
	coef, ok := new(big.Int).SetString(digits, 10) // digits only: no sign, no prefix can reach here
	if !ok {
		return r, outsideGrammar
	}
	if r.neg {
		coef.Neg(coef)
	}
	r.val = ratFromCoefExp(coef, r.exp)
	if r.exp < 0 {
		r.places = -r.exp
	}
	return r, inGrammar
}

// parsePlain is the grammar String() must obey: -? D+ ( '.' D+ )?   (plain, never scientific).
func parsePlain(s string) (val *big.Rat, places int64, ok bool) {
	t := s
	neg := false
	if t != "" && t[0] == '-' {
		neg = true
		t = t[1:]
	}
	intPart, fracPart := t, ""
	if i := strings.IndexByte(t, '.'); i >= 0 {
		intPart, fracPart = t[:i], t[i+1:]
		if !isDigits(fracPart) {
			return nil, 0, false
		}
	}
	if !isDigits(intPart) {
		return nil, 0, false
	}
	coef, good := new(big.Int).SetString(intPart+fracPart, 10)
	if !good {
		return nil, 0, false
	}
	if neg {
		coef.Neg(coef)
	}
	return ratFromCoefExp(coef, -int64(len(fracPart))), int64(len(fracPart)), true
}

func numDigits(x *big.Int) int {
	if x.Sign() == 0 {
		return 1
	}
	// exact: length of the decimal text of |x|
	return len(new(big.Int).Abs(x).String())
}

var (
	bigTwo  = big.NewInt(2)
	bigFive = big.NewInt(5)
	bigTen  = big.NewInt(10)
)

// sigDigits returns the number of significant digits the exact value needs as a decimal numeral
// (trailing zeros do not count) and whether its decimal expansion terminates.
func sigDigits(v *big.Rat) (digits int, terminating bool) {
	if v.Sign() == 0 {
		return 1, true
	}
	den := new(big.Int).Set(v.Denom())
	var a2, a5 int64
	r := new(big.Int)
	q := new(big.Int)
	for {
		q.QuoRem(den, bigTwo, r)
		if r.Sign() != 0 {
			break
		}
		den.Set(q)
		a2++
	}
	for {
		q.QuoRem(den, bigFive, r)
		if r.Sign() != 0 {
			break
		}
		den.Set(q)
		a5++
	}
	if den.Cmp(big.NewInt(1)) != 0 {
		return 0, false
	}
	k := a2
	if a5 > k {
		k = a5
	}
	n := new(big.Int).Mul(v.Num(), pow10(k))
	n.Quo(n, v.Denom())
	n.Abs(n)
	if k == 0 {
		for {
			q.QuoRem(n, bigTen, r)
			if r.Sign() != 0 {
				break
			}
			n.Set(q)
		}
	}
	return len(n.String()), true
}

// adjExp returns floor(log10(|v|)) for v != 0.
func adjExp(v *big.Rat) int64 {
	num := new(big.Int).Abs(v.Num())
	den := v.Denom()
	e := int64(len(num.String()) - len(den.String()))
	// 10^(e-1) <= |v| < 10^(e+1): decide between e-1 and e
	var lhs, rhs *big.Int // compare num with den*10^e
	if e >= 0 {
		lhs, rhs = num, new(big.Int).Mul(den, pow10(e))
	} else {
		lhs, rhs = new(big.Int).Mul(num, pow10(-e)), den
	}
	if lhs.Cmp(rhs) < 0 {
		return e - 1
	}
	return e
}

// ulpErr returns |got-exact| in units of the 34th significant digit of exact (exact != 0).
func ulpErr(got, exact *big.Rat) *big.Rat {
	diff := new(big.Rat).Sub(got, exact)
	diff.Abs(diff)
	if diff.Sign() == 0 {
		return diff
	}
	e := adjExp(exact) - 33
	var ulp *big.Rat
	if e >= 0 {
		ulp = new(big.Rat).SetInt(pow10(e))
	} else {
		ulp = new(big.Rat).SetFrac(big.NewInt(1), pow10(-e))
	}
	return diff.Quo(diff, ulp)
}

// truncRat returns v truncated toward zero.
func truncRat(v *big.Rat) *big.Int {
	return new(big.Int).Quo(v.Num(), v.Denom()) // big.Int.Quo truncates toward zero
}

func isIntegral(v *big.Rat) bool { return v.IsInt() }

// ratText renders a rational for messages: exact decimal when terminating and short, else num/den.
func ratText(v *big.Rat) string {
	if v == nil {
		return "<nil>"
	}
	if v.IsInt() {
		return v.Num().String()
	}
	if d, term := sigDigits(v); term && d <= 200 {
		// find minimal places
		den := v.Denom()
		for k := int64(1); k <= 2048; k++ {
			n := new(big.Int).Mul(v.Num(), pow10(k))
			r := new(big.Int)
			n.QuoRem(n, den, r)
			if r.Sign() == 0 {
				return new(big.Rat).Set(v).FloatString(int(k))
			}
		}
	}
	return v.RatString()
}
