// Package known reads /verif/known_findings.json (see /verif/CONVENTIONS.md). The file is never
// written at run time. A missing file is the same as an empty list: every failure is then a VIOLATION.
package known

import (
	"encoding/json"
	"errors"
	"io/fs"
	"os"
)

// Finding is one entry of known_findings.json. Signature and Witness are checker specific and are
// decoded by the owning monitor.
type Finding struct {
	ID        string          `json:"id"`
	Property  string          `json:"property"`
	Status    string          `json:"status"` // "known" | "fixed"
	What      string          `json:"what"`
	Signature json.RawMessage `json:"signature"`
	Witness   json.RawMessage `json:"witness"`
}

type file struct {
	Findings []Finding `json:"findings"`
}

// Load returns every entry of the file. A missing file (or empty path) yields no entries and no error.
func Load(path string) ([]Finding, error) {
	if path == "" {
		return nil, nil
	}
	bz, err := os.ReadFile(path)
	if err != nil {
		if errors.Is(err, fs.ErrNotExist) {
			return nil, nil
		}
		return nil, err
	}
	var f file
	if err := json.Unmarshal(bz, &f); err != nil {
		return nil, err
	}
	return f.Findings, nil
}

// For returns the entries with status "known" that belong to the property. "fixed" entries suppress nothing.
func For(all []Finding, property string) []Finding {
	var out []Finding
	for _, f := range all {
		if f.Property == property && f.Status == "known" {
			out = append(out, f)
		}
	}
	return out
}

// Signature is the common shape used by the pure monitors: Clause is a '|'-separated list of oracle
// clauses, Cause names a cause predicate implemented by the monitor.
type Signature struct {
	Clause string `json:"clause"`
	Cause  string `json:"cause"`
}
