package mon

import (
	"encoding/json"
	"os"
)

// Finding is one entry of /verif/known_findings.json (never written at run time).
type Finding struct {
	ID        string          `json:"id"`
	Property  string          `json:"property"`
	Status    string          `json:"status"` // "known" | "fixed"
	What      string          `json:"what"`
	Signature json.RawMessage `json:"signature,omitempty"`
	Witness   json.RawMessage `json:"witness,omitempty"`
	Commit    string          `json:"commit,omitempty"`
}

type KnownSet struct {
	Findings []Finding
}

func LoadKnown(path string) *KnownSet {
	k := &KnownSet{}
	bz, err := os.ReadFile(path)
	if err != nil {
		return k
	}
	var f struct {
		Findings []Finding `json:"findings"`
	}
	if json.Unmarshal(bz, &f) == nil {
		k.Findings = f.Findings
	}
	return k
}

// Has reports whether a finding with this id is listed as known (fixed entries suppress nothing).
func (k *KnownSet) Has(id string) bool {
	if k == nil {
		return false
	}
	for _, f := range k.Findings {
		if f.ID == id && f.Status == "known" {
			return true
		}
	}
	return false
}

func (k *KnownSet) Get(id string) *Finding {
	if k == nil {
		return nil
	}
	for i := range k.Findings {
		if k.Findings[i].ID == id {
			return &k.Findings[i]
		}
	}
	return nil
}
