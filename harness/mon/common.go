// Package mon holds the online monitors, one per property. Oracles decide with math/big only.
package mon

import (
	"bytes"
	"encoding/json"
	"fmt"
	"math/big"
	"sort"
	"strings"

	sdk "github.com/cosmos/cosmos-sdk/types"

	"verifharness/eng"
	"verifharness/obs"
	"verifharness/ref"
)

type Base struct{ P string }

func (b Base) Prop() string                                                   { return b.P }
func (Base) OnGenesis(*eng.Engine, map[string]json.RawMessage, *obs.Snapshot) {}
func (Base) AfterBeginBlock(*eng.Engine, *eng.BlockRec)                       {}
func (Base) AfterTx(*eng.Engine, *eng.TxRec)                                  {}
func (Base) Finish(*eng.Engine, map[string]interface{})                       {}

var zero = new(big.Rat)

func rs(r *big.Rat) string { return ref.RatString(r) }

func eq(a, b *big.Rat) bool { return a.Cmp(b) == 0 }

func add(a, b *big.Rat) *big.Rat { return new(big.Rat).Add(a, b) }
func sub(a, b *big.Rat) *big.Rat { return new(big.Rat).Sub(a, b) }

// counter is a string-keyed counter that renders deterministically.
type counter map[string]int

func (c counter) inc(k string) { c[k]++ }

func (c counter) JSON() map[string]int { return map[string]int(c) }

// set of strings with a cap on retained samples
type strset map[string]bool

func (s strset) add(k string) bool {
	if s[k] {
		return false
	}
	s[k] = true
	return true
}

func sortedStr(m map[string]bool) []string {
	var k []string
	for x := range m {
		k = append(k, x)
	}
	sort.Strings(k)
	return k
}

func msgName(m sdk.Msg) string {
	u := sdk.MsgTypeURL(m)
	if i := strings.LastIndex(u, "."); i >= 0 {
		// keep the package's last element to tell basket.MsgCreate from base ones
		parts := strings.Split(strings.TrimPrefix(u, "/"), ".")
		if len(parts) >= 3 {
			return parts[len(parts)-3] + "." + parts[len(parts)-1]
		}
		return u[i+1:]
	}
	return u
}

// precisionOf returns the credit type precision for a batch (6 when it cannot be resolved).
func precisionOf(v *obs.View, batchKey uint64) int {
	b := v.Batches[batchKey]
	if b == nil {
		return 6
	}
	c := v.ClassOfBatch(b)
	if c == nil {
		return 6
	}
	if ct := v.CreditTypes[c.CreditTypeAbbrev]; ct != nil {
		return int(ct.Precision)
	}
	return 6
}

// checkAmount validates one stored credit amount; returns "" or a complaint.
func checkAmount(s string, prec int) string {
	if s == "" {
		// the proto3 default of the amount fields: rows imported from a genesis file may leave a zero
		// column empty (the module's ValidateGenesis accepts it, every reader parses it as 0) — read as 0
		return ""
	}
	r, places, _, err := ref.ParseDec(s)
	if err != nil {
		return fmt.Sprintf("stored amount %q is not a decimal: %v", s, err)
	}
	if r.Sign() < 0 {
		return fmt.Sprintf("stored amount %q is negative", s)
	}
	// decimal places of the value as written; a value like 1.500000 has 6 places which is fine
	if places > prec {
		// trailing zeros beyond the precision still are "more decimal places" as written; the chain's
		// own validators count written places too, so this is not stricter than the code.
		return fmt.Sprintf("stored amount %q has %d decimal places, precision is %d", s, places, prec)
	}
	return ""
}

func sample(list *[]interface{}, max int, v interface{}) {
	if len(*list) < max {
		*list = append(*list, v)
	}
}

// firstN truncates a slice of strings for messages.
func firstN(l []string, n int) string {
	if len(l) > n {
		return strings.Join(l[:n], "; ") + fmt.Sprintf(" … (%d more)", len(l)-n)
	}
	return strings.Join(l, "; ")
}

func trunc(s string, n int) string {
	if len(s) > n {
		return s[:n] + "…"
	}
	return s
}

// GenRows parses one ORM table of a genesis document into generic rows (a leading auto-increment
// sequence number is skipped). Field access helpers follow.
func GenRows(raw json.RawMessage) []map[string]interface{} {
	var l []interface{}
	d := json.NewDecoder(bytes.NewReader(raw))
	d.UseNumber()
	if d.Decode(&l) != nil {
		return nil
	}
	var out []map[string]interface{}
	for _, x := range l {
		if r, ok := x.(map[string]interface{}); ok {
			out = append(out, r)
		}
	}
	return out
}

func gs(r map[string]interface{}, k string) string {
	v, ok := r[k]
	if !ok || v == nil {
		return ""
	}
	return fmt.Sprint(v)
}

func gu(r map[string]interface{}, k string) uint64 {
	var n uint64
	fmt.Sscan(gs(r, k), &n)
	return n
}

func gb(r map[string]interface{}, k string) bool {
	v, _ := r[k].(bool)
	return v
}
