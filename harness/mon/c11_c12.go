package mon

import (
	"fmt"
	"math/big"
	"sort"
	"time"

	basketapi "github.com/regen-network/regen-ledger/api/v2/regen/ecocredit/basket/v1"
	marketapi "github.com/regen-network/regen-ledger/api/v2/regen/ecocredit/marketplace/v1"
	baseapi "github.com/regen-network/regen-ledger/api/v2/regen/ecocredit/v1"
	baskettypes "github.com/regen-network/regen-ledger/x/ecocredit/v3/basket/types/v1"
	markettypes "github.com/regen-network/regen-ledger/x/ecocredit/v3/marketplace/types/v1"

	authtypes "github.com/cosmos/cosmos-sdk/x/auth/types"

	"verifharness/chain"
	"verifharness/eng"
	"verifharness/obs"
	"verifharness/ref"
)

// ---------------------------------------------------------------- C11 basket admission / take order

type C11 struct {
	Base
	putsOK, putsRej int
	completeness    int
	takes           int
	nontrivial      strset
	boundary        counter
	multiTakes      int
	ghostCrit       map[string]string // basket denom → canonical date criterion as set by Create / UpdateDateCriteria
	ghostCfg        map[string]string // basket denom → "credit type|auto-retire disabled|sorted allowed classes" as set by Create
	critUpdates     int
	pre1970Takes    int
	skippedWindows  int
	samples         []interface{}
}

func NewC11() *C11 { return &C11{Base: Base{"C11"}, nontrivial: strset{}, boundary: counter{}} }

// minStart computes the date criterion independently with time arithmetic.
// representable=false when the window cannot be represented by a Go Duration (completeness not asserted).
func minStart(c *basketapi.DateCriteria, blockTime time.Time) (min time.Time, has bool, representable bool, kind string) {
	if c == nil {
		return time.Time{}, false, true, "none"
	}
	switch {
	case c.MinStartDate != nil:
		return time.Unix(c.MinStartDate.Seconds, int64(c.MinStartDate.Nanos)).UTC(), true, true, "min-date"
	case c.StartDateWindow != nil:
		secs := c.StartDateWindow.Seconds
		// beyond ~292 years Duration saturates in the protobuf→Go conversion
		if secs > 9_000_000_000 || secs < 0 {
			return time.Time{}, true, false, "window"
		}
		d := time.Duration(secs)*time.Second + time.Duration(c.StartDateWindow.Nanos)
		return blockTime.Add(-d), true, true, "window"
	case c.YearsInThePast != 0:
		y := blockTime.UTC().Year() - int(c.YearsInThePast)
		return time.Date(y, 1, 1, 0, 0, 0, 0, time.UTC), true, true, "years"
	}
	return time.Time{}, false, true, "none"
}

func batchStart(b *baseapi.Batch) time.Time {
	if b.StartDate == nil {
		return time.Unix(0, 0).UTC()
	}
	return time.Unix(b.StartDate.Seconds, int64(b.StartDate.Nanos)).UTC()
}

// admissible evaluates the three admission conditions on the pre-state.
func admissible(v *obs.View, bk *basketapi.Basket, b *baseapi.Batch, blockTime time.Time) (ok bool, why string, representable bool, kind string, dist time.Duration) {
	cl := v.ClassOfBatch(b)
	if cl == nil {
		return false, "batch has no class", true, "", 0
	}
	if !v.BasketClasses[bk.Id][cl.Id] {
		return false, "class " + cl.Id + " not on the basket's allowed list", true, "", 0
	}
	if cl.CreditTypeAbbrev != bk.CreditTypeAbbrev {
		return false, "credit type mismatch", true, "", 0
	}
	min, has, repr, kind := minStart(bk.DateCriteria, blockTime)
	if !repr {
		return true, "", false, kind, 0
	}
	if has {
		s := batchStart(b)
		dist = s.Sub(min)
		if s.Before(min) {
			return false, fmt.Sprintf("batch start %s earlier than criterion %s", s, min), true, kind, dist
		}
	}
	return true, "", true, kind, dist
}

// canonical forms of a date criterion: what is set (nil and the Unix epoch are different criteria)
func critAPI(c *basketapi.DateCriteria) string {
	switch {
	case c == nil:
		return "none"
	case c.MinStartDate != nil:
		return fmt.Sprintf("min-start-date %d.%09d", c.MinStartDate.Seconds, c.MinStartDate.Nanos)
	case c.StartDateWindow != nil:
		return fmt.Sprintf("window %d.%09d", c.StartDateWindow.Seconds, c.StartDateWindow.Nanos)
	case c.YearsInThePast != 0:
		return fmt.Sprintf("years %d", c.YearsInThePast)
	}
	return "none"
}

func critMsg(c *baskettypes.DateCriteria) string {
	switch {
	case c == nil:
		return "none"
	case c.MinStartDate != nil:
		return fmt.Sprintf("min-start-date %d.%09d", c.MinStartDate.Seconds, c.MinStartDate.Nanos)
	case c.StartDateWindow != nil:
		return fmt.Sprintf("window %d.%09d", c.StartDateWindow.Seconds, c.StartDateWindow.Nanos)
	case c.YearsInThePast != 0:
		return fmt.Sprintf("years %d", c.YearsInThePast)
	}
	return "none"
}

// trackCriteria keeps, per basket, the date criterion that Create and the authority's successful
// UpdateDateCriteria messages established, and compares it with the stored one: admission must be
// decided by the criterion in force, so a silently dropped (or invented) change is a violation.
func (m *C11) trackCriteria(e *eng.Engine, t *eng.TxRec, where string) {
	pre, post := t.Pre.V(), t.Post.V()
	if m.ghostCrit == nil {
		m.ghostCrit = map[string]string{}
		m.ghostCfg = map[string]string{}
	}
	cfgOf := func(v *obs.View, b *basketapi.Basket) string {
		var cl []string
		for c := range v.BasketClasses[b.Id] {
			cl = append(cl, c)
		}
		sort.Strings(cl)
		return fmt.Sprintf("%s|%v|%v", b.CreditTypeAbbrev, b.DisableAutoRetire, cl)
	}
	for d, b := range pre.BasketByDenom {
		if _, ok := m.ghostCfg[d]; !ok {
			m.ghostCfg[d] = cfgOf(pre, b)
		}
	}
	for d, b := range pre.BasketByDenom {
		if _, ok := m.ghostCrit[d]; !ok {
			m.ghostCrit[d] = critAPI(b.DateCriteria)
		}
	}
	if t.OK {
		for i, msg := range t.Msgs {
			switch x := msg.(type) {
			case *baskettypes.MsgCreate:
				if i < len(t.Resps) {
					if r, ok := t.Resps[i].(*baskettypes.MsgCreateResponse); ok {
						m.ghostCrit[r.BasketDenom] = critMsg(x.DateCriteria)
						cl := append([]string{}, x.AllowedClasses...)
						sort.Strings(cl)
						m.ghostCfg[r.BasketDenom] = fmt.Sprintf("%s|%v|%v", x.CreditTypeAbbrev, x.DisableAutoRetire, cl)
					}
				}
			case *baskettypes.MsgUpdateDateCriteria:
				m.ghostCrit[x.Denom] = critMsg(x.NewDateCriteria)
				m.critUpdates++
			}
		}
	}
	for d, b := range post.BasketByDenom {
		want, ok := m.ghostCrit[d]
		if !ok {
			continue
		}
		if got := critAPI(b.DateCriteria); got != want {
			e.Violate("C11", "criterion-in-force", fmt.Sprintf("%s: basket %s stores the date criterion [%s] but Create / the authority's successful updates established [%s]", where, d, got, want))
			m.ghostCrit[d] = got // report once
		}
		if wc, ok := m.ghostCfg[d]; ok {
			if got := cfgOf(post, b); got != wc {
				e.Violate("C11", "basket-configuration", fmt.Sprintf("%s: basket %s stores (credit type|auto-retire disabled|allowed classes) = %s but was created with %s (no message changes these)", where, d, got, wc))
				m.ghostCfg[d] = got
			}
		}
	}
}

func (m *C11) AfterTx(e *eng.Engine, t *eng.TxRec) {
	m.trackCriteria(e, t, fmt.Sprintf("tx step %d (%s, ok=%v)", t.Step, t.Tag, t.OK))
	if len(t.Msgs) != 1 {
		return
	}
	where := fmt.Sprintf("tx step %d (%s, ok=%v)", t.Step, t.Tag, t.OK)
	pre, post := t.Pre.V(), t.Post.V()
	switch x := t.Msgs[0].(type) {
	case *baskettypes.MsgPut:
		bk := pre.BasketByDenom[x.BasketDenom]
		if bk == nil {
			if t.OK {
				e.Violate("C11", "put-unknown-basket", where+": Put into unknown basket succeeded")
			}
			return
		}
		allAdm := true
		reprAll := true
		ordinary := true
		need := map[uint64]*big.Rat{}
		for _, c := range x.Credits {
			b := pre.BatchByDenom[c.BatchDenom]
			if b == nil {
				allAdm = false
				if t.OK {
					e.Violate("C11", "put-unknown-batch", where+": Put of unknown batch "+c.BatchDenom+" succeeded")
				}
				continue
			}
			ok, why, repr, kind, dist := admissible(pre, bk, b, t.BlockTime)
			if !repr {
				reprAll = false
				m.skippedWindows++
			}
			if t.OK && !ok {
				e.Violate("C11", "put-soundness", fmt.Sprintf("%s: Put of %s into %s succeeded although %s", where, c.BatchDenom, bk.BasketDenom, why))
			}
			if !ok {
				allAdm = false
			}
			if kind != "" && kind != "none" && repr {
				// dist saturates for differences beyond ~292 years: a saturated value is far away
				near := dist > -2*time.Second && dist < 2*time.Second && dist >= -time.Second && dist <= time.Second
				if near {
					side := "at-or-after"
					if dist < 0 {
						side = "before"
					}
					m.boundary.inc(kind + "/" + side + "/" + map[bool]string{true: "accepted", false: "rejected"}[t.OK])
					m.nontrivial.add(fmt.Sprintf("put|%s|%s|%v|%s|%s", kind, side, t.OK, bk.BasketDenom, c.BatchDenom))
				}
			}
			amt, places, plain, err := ref.ParseDec(c.Amount)
			if err != nil || !plain || amt.Sign() <= 0 || places > 6 || amt.Cmp(new(big.Rat).SetInt(ref.Pow10(24))) > 0 {
				ordinary = false
				continue
			}
			if need[b.Key] == nil {
				need[b.Key] = new(big.Rat)
			}
			need[b.Key].Add(need[b.Key], amt)
		}
		if t.OK {
			m.putsOK++
		} else {
			m.putsRej++
		}
		// completeness: in the ordinary stratum an admissible Put by an owner with the credits must succeed
		// (owners that are module accounts are left out: no key can sign for them on a chain, and the bank
		// refuses to deliver the minted basket tokens to a blocked address)
		if allAdm && reprAll && ordinary && len(x.Credits) > 0 && !moduleAccount(x.Owner) {
			has := true
			for k, n := range need {
				tr, _, _ := pre.BalOf(x.Owner, k)
				if tr.Cmp(n) < 0 {
					has = false
				}
			}
			if has {
				m.completeness++
				if !t.OK {
					e.Violate("C11", "put-completeness", fmt.Sprintf("%s: Put into %s rejected (code %d: %s) although class, credit type and date criterion admit every batch and the owner has the credits", where, bk.BasketDenom, t.Res.Code, trunc(t.Res.Log, 300)))
				}
			}
		}
	case *baskettypes.MsgTake:
		bk := pre.BasketByDenom[x.BasketDenom]
		if bk == nil || !t.OK {
			return
		}
		m.takes++
		r, ok := t.Resps[0].(*baskettypes.MsgTakeResponse)
		if !ok {
			return
		}
		// auto-retire
		if !bk.DisableAutoRetire && !x.RetireOnTake {
			e.Violate("C11", "take-auto-retire", where+": Take with retire_on_take=false succeeded on a basket with auto-retire enabled")
		}
		type row struct {
			denom string
			start time.Time
			bal   *big.Rat
		}
		var rows []row
		for _, bb := range pre.BasketBalList {
			if bb.BasketId == bk.Id {
				st := time.Unix(0, 0).UTC()
				if b := pre.BatchByDenom[bb.BatchDenom]; b != nil {
					st = batchStart(b)
				}
				rows = append(rows, row{bb.BatchDenom, st, ref.MustDec(bb.Balance)})
			}
		}
		byDenom := map[string]row{}
		for _, r := range rows {
			byDenom[r.denom] = r
		}
		var last time.Time
		touched := map[string]bool{}
		pre1970 := false
		for i, c := range r.Credits {
			rw, ok := byDenom[c.BatchDenom]
			if !ok {
				e.Violate("C11", "take-foreign-batch", fmt.Sprintf("%s: Take released %s which the basket did not hold", where, c.BatchDenom))
				continue
			}
			if i > 0 && rw.start.Before(last) {
				e.Violate("C11", "take-order", fmt.Sprintf("%s: Take released %s (start %s) after a batch starting %s", where, c.BatchDenom, rw.start, last))
			}
			last = rw.start
			touched[c.BatchDenom] = true
			if rw.start.Before(time.Unix(0, 0)) {
				pre1970 = true
			}
			q := ref.MustDec(c.Amount)
			if i < len(r.Credits)-1 {
				if q == nil || rw.bal == nil || !eq(q, rw.bal) {
					e.Violate("C11", "take-drain", fmt.Sprintf("%s: Take moved on from %s after taking %s of %s", where, c.BatchDenom, c.Amount, rs(rw.bal)))
				}
				if _, still := post.BasketBals[obs.BBKey{BasketID: bk.Id, Denom: c.BatchDenom}]; still {
					e.Violate("C11", "take-drain-row", fmt.Sprintf("%s: drained batch %s still has a basket balance row", where, c.BatchDenom))
				}
			}
			// delivery column
			b := pre.BatchByDenom[c.BatchDenom]
			if b != nil && q != nil {
				t0, r0, _ := pre.BalOf(x.Owner, b.Key)
				t1, r1, _ := post.BalOf(x.Owner, b.Key)
				retire := x.RetireOnTake
				if retire && (!eq(sub(r1, r0), q) || !eq(t1, t0)) {
					e.Violate("C11", "take-delivery", fmt.Sprintf("%s: retiring Take of %s %s: Δretired %s Δtradable %s", where, rs(q), c.BatchDenom, rs(sub(r1, r0)), rs(sub(t1, t0))))
				}
				if !retire && (!eq(sub(t1, t0), q) || !eq(r1, r0)) {
					e.Violate("C11", "take-delivery", fmt.Sprintf("%s: non-retiring Take of %s %s: Δtradable %s Δretired %s", where, rs(q), c.BatchDenom, rs(sub(t1, t0)), rs(sub(r1, r0))))
				}
				if !bk.DisableAutoRetire && !eq(sub(r1, r0), q) {
					e.Violate("C11", "take-auto-retire", fmt.Sprintf("%s: basket has auto-retire enabled but %s of %s was not delivered retired", where, rs(q), c.BatchDenom))
				}
			}
		}
		// no remaining row strictly older than any touched batch (unless it was touched last)
		var lastDenom string
		if n := len(r.Credits); n > 0 {
			lastDenom = r.Credits[n-1].BatchDenom
		}
		var oldestTouched *time.Time
		for d := range touched {
			s := byDenom[d].start
			if oldestTouched == nil || s.After(*oldestTouched) {
				x := s
				oldestTouched = &x
			}
		}
		for _, bb := range post.BasketBalList {
			if bb.BasketId != bk.Id || bb.BatchDenom == lastDenom {
				continue
			}
			st := byDenom[bb.BatchDenom].start
			for d := range touched {
				if st.Before(byDenom[d].start) {
					e.Violate("C11", "take-oldest-first", fmt.Sprintf("%s: Take touched %s (start %s) while older %s (start %s) remains in the basket", where, d, byDenom[d].start, bb.BatchDenom, st))
				}
			}
		}
		if len(r.Credits) >= 2 {
			m.multiTakes++
			if pre1970 {
				m.pre1970Takes++
			}
			m.nontrivial.add(e.K(fmt.Sprintf("take|%s|%d|%v|%d", bk.BasketDenom, len(r.Credits), pre1970, t.Step)))
			if len(m.samples) < 3 {
				var l []string
				for _, c := range r.Credits {
					l = append(l, fmt.Sprintf("%s:%s(start %s)", c.BatchDenom, c.Amount, byDenom[c.BatchDenom].start.Format(time.RFC3339Nano)))
				}
				m.samples = append(m.samples, map[string]interface{}{"kind": "take", "basket": bk.BasketDenom, "amount": x.Amount, "released_in_order": l})
			}
		}
		sort.Slice(rows, func(i, j int) bool { return rows[i].start.Before(rows[j].start) })
	}
}

func (m *C11) Finish(e *eng.Engine, cov map[string]interface{}) {
	cov["date_criterion_changes_tracked"] = m.critUpdates
	cov["evaluations"] = m.putsOK + m.putsRej + m.takes
	cov["distinct_nontrivial"] = len(m.nontrivial)
	cov["_keys"] = sortedStr(m.nontrivial)
	cov["rule"] = "one evaluation = one single-message Put (admission reference: soundness always, completeness in the ordinary stratum) or successful Take (oldest-first/drain/auto-retire reference) ; non-trivial = distinct Put within one second of its date criterion boundary (by criterion kind, side, outcome, basket, batch) or Take spanning >=2 batches"
	cov["puts_accepted"] = m.putsOK
	cov["puts_rejected"] = m.putsRej
	cov["completeness_obligations_checked"] = m.completeness
	cov["takes_checked"] = m.takes
	cov["takes_spanning_2plus_batches"] = m.multiTakes
	cov["of_which_with_pre1970_dates"] = m.pre1970Takes
	cov["puts_within_1s_of_boundary"] = m.boundary.JSON()
	cov["window_not_representable_skipped"] = m.skippedWindows
	cov["samples"] = m.samples
}

// ---------------------------------------------------------------- C12 expiry at block start

type C12 struct {
	Base
	blocks      int
	pruned      int
	multiPrune  int
	boundaryEq  int
	boundaryNs  int
	prunedAfter counter
	touched     map[uint64]string // order id → "partially-filled" / "updated"
	buys        int
	nontrivial  strset
	samples     []interface{}
	// the expiration each open order's seller asked for (nil = none), from successful Sell / UpdateSellOrders
	expGhost  map[uint64]*time.Time
	expChecks int
}

func NewC12() *C12 {
	return &C12{Base: Base{"C12"}, touched: map[uint64]string{}, nontrivial: strset{}, prunedAfter: counter{}}
}

func expOf(o *marketapi.SellOrder) *time.Time {
	if o.Expiration == nil {
		return nil
	}
	t := time.Unix(o.Expiration.Seconds, int64(o.Expiration.Nanos)).UTC()
	return &t
}

func (m *C12) AfterBeginBlock(e *eng.Engine, b *eng.BlockRec) {
	m.blocks++
	where := fmt.Sprintf("BeginBlock h=%d T=%s", b.Height, b.Time.Format(time.RFC3339Nano))
	if b.Panic != nil {
		e.Violate("C12", "begin-block-panic", fmt.Sprintf("%s: BeginBlock panicked: %v", where, b.Panic))
		return
	}
	pre, post := b.Pre.V(), b.Post.V()
	T := b.Time
	refund := map[sb]*big.Rat{}
	perSeller := map[string]int{}
	n := 0
	for id, o := range pre.Orders {
		x := expOf(o)
		due := x != nil && !x.After(T)
		if x != nil {
			d := x.Sub(T)
			if d == 0 {
				m.boundaryEq++
			} else if d == time.Nanosecond || d == -time.Nanosecond {
				m.boundaryNs++
			}
		}
		_, still := post.Orders[id]
		if due && still {
			e.Violate("C12", "expired-order-survives", fmt.Sprintf("%s: sell order %d expired at %s but still exists", where, id, x))
		}
		if !due && !still {
			e.Violate("C12", "live-order-removed", fmt.Sprintf("%s: sell order %d (expiration %v) was removed", where, id, x))
		}
		if !due && still && !proto_equal(o, post.Orders[id]) {
			e.Violate("C12", "live-order-changed", fmt.Sprintf("%s: sell order %d changed during BeginBlock", where, id))
		}
		if due {
			n++
			k := sb{obs.Addr(o.Seller), o.BatchKey}
			if refund[k] == nil {
				refund[k] = new(big.Rat)
			}
			if q := ref.MustDec(o.Quantity); q != nil {
				refund[k].Add(refund[k], q)
			}
			perSeller[obs.Addr(o.Seller)]++
			if why, ok := m.touched[id]; ok {
				m.prunedAfter.inc(why)
			}
		}
	}
	for id := range post.Orders {
		if _, ok := pre.Orders[id]; !ok {
			e.Violate("C12", "order-appeared", fmt.Sprintf("%s: sell order %d appeared during BeginBlock", where, id))
		}
	}
	for _, o := range post.OrderList {
		if x := expOf(o); x != nil && !x.After(T) {
			e.Violate("C12", "expired-order-exists", fmt.Sprintf("%s: post-state contains sell order %d with expiration %s <= block time", where, o.Id, x))
		}
	}
	keys := map[obs.BalKey]bool{}
	for k := range pre.Balances {
		keys[k] = true
	}
	for k := range post.Balances {
		keys[k] = true
	}
	for k := range keys {
		t0, r0, e0 := pre.BalOf(k.Addr, k.BatchKey)
		t1, r1, e1 := post.BalOf(k.Addr, k.BatchKey)
		want := nzr(refund[sb{k.Addr, k.BatchKey}])
		if !eq(sub(e0, e1), want) || !eq(sub(t1, t0), want) || !eq(r0, r1) {
			e.Violate("C12", "refund", fmt.Sprintf("%s: %s batch %d: escrow fell %s, tradable rose %s, removed orders sum to %s", where, k.Addr, k.BatchKey, rs(sub(e0, e1)), rs(sub(t1, t0)), rs(want)))
		}
	}
	// everything else byte-identical
	for _, ch := range obs.DiffTables(b.Pre, b.Post) {
		if ch.Table != obs.TSellOrder && ch.Table != obs.TBatchBalance {
			e.Violate("C12", "begin-block-frame", fmt.Sprintf("%s: table %s row %s changed during BeginBlock", where, ch.Table, ch.PK))
		}
	}
	if n > 0 {
		m.pruned += n
		multi := false
		for _, c := range perSeller {
			if c >= 2 {
				multi = true
			}
		}
		if multi {
			m.multiPrune++
			m.nontrivial.add(e.K(fmt.Sprintf("h%d", b.Height)))
			if len(m.samples) < 3 {
				m.samples = append(m.samples, map[string]interface{}{"height": b.Height, "block_time": T.Format(time.RFC3339Nano), "orders_pruned": n, "per_seller": perSeller})
			}
		}
	}
}

func proto_equal(a, b *marketapi.SellOrder) bool {
	return a.Id == b.Id && a.Quantity == b.Quantity && a.AskAmount == b.AskAmount && a.MarketId == b.MarketId && a.BatchKey == b.BatchKey &&
		string(a.Seller) == string(b.Seller) && a.DisableAutoRetire == b.DisableAutoRetire && a.Maker == b.Maker &&
		((a.Expiration == nil && b.Expiration == nil) || (a.Expiration != nil && b.Expiration != nil && a.Expiration.Seconds == b.Expiration.Seconds && a.Expiration.Nanos == b.Expiration.Nanos))
}

func (m *C12) AfterTx(e *eng.Engine, t *eng.TxRec) {
	if !t.OK {
		return
	}
	pre, post := t.Pre.V(), t.Post.V()
	for _, msg := range t.Msgs {
		switch x := msg.(type) {
		case *markettypes.MsgBuyDirect:
			for _, o := range x.Orders {
				so := pre.Orders[o.SellOrderId]
				if so == nil {
					continue
				}
				m.buys++
				if ex := expOf(so); ex != nil && !ex.After(t.BlockTime) {
					e.Violate("C12", "expired-order-bought", fmt.Sprintf("tx step %d: sell order %d expired at %s was bought at block time %s", t.Step, so.Id, ex, t.BlockTime))
				}
				if post.Orders[so.Id] != nil {
					m.touched[so.Id] = "partially-filled"
				}
			}
		case *markettypes.MsgUpdateSellOrders:
			for _, u := range x.Updates {
				if _, ok := m.touched[u.SellOrderId]; !ok {
					m.touched[u.SellOrderId] = "updated"
				}
			}
		}
	}
	// the expiration in force is the one the seller's own messages set
	if m.expGhost == nil {
		m.expGhost = map[uint64]*time.Time{}
	}
	for i, msg := range t.Msgs {
		switch x := msg.(type) {
		case *markettypes.MsgSell:
			if i >= len(t.Resps) {
				continue
			}
			if r, ok := t.Resps[i].(*markettypes.MsgSellResponse); ok && len(r.SellOrderIds) == len(x.Orders) {
				for j, o := range x.Orders {
					if o.Expiration == nil {
						m.expGhost[r.SellOrderIds[j]] = nil
					} else {
						u := o.Expiration.UTC()
						m.expGhost[r.SellOrderIds[j]] = &u
					}
				}
			}
		case *markettypes.MsgUpdateSellOrders:
			for _, u := range x.Updates {
				if _, known := m.expGhost[u.SellOrderId]; known && u.NewExpiration != nil {
					v := u.NewExpiration.UTC()
					m.expGhost[u.SellOrderId] = &v
				}
			}
		}
	}
	for id, want := range m.expGhost {
		o := post.Orders[id]
		if o == nil {
			delete(m.expGhost, id)
			continue
		}
		m.expChecks++
		got := expOf(o)
		if (got == nil) != (want == nil) || (got != nil && !got.Equal(*want)) {
			e.Violate("C12", "order-expiration-binding", fmt.Sprintf("tx step %d (%s): sell order %d was given the expiration %v by its seller but stores %v", t.Step, t.Tag, id, want, got))
			delete(m.expGhost, id)
		}
	}
	// an order created or updated in this transaction must expire strictly in the future
	for id, o := range post.Orders {
		p := pre.Orders[id]
		if p != nil && proto_equal(p, o) {
			continue
		}
		if ex := expOf(o); ex != nil && !ex.After(t.BlockTime) {
			e.Violate("C12", "non-future-expiration", fmt.Sprintf("tx step %d: sell order %d written with expiration %s <= block time %s", t.Step, id, ex, t.BlockTime))
		}
	}
}

func (m *C12) Finish(e *eng.Engine, cov map[string]interface{}) {
	cov["evaluations"] = m.blocks
	cov["distinct_nontrivial"] = len(m.nontrivial)
	cov["_keys"] = sortedStr(m.nontrivial)
	cov["rule"] = "one evaluation = prune reference around one BeginBlock under recover(): removed orders == exactly those with expiration <= block time, refunds exact per (seller,batch), everything else byte-identical; non-trivial = distinct block that pruned >=2 orders of one seller"
	cov["orders_pruned"] = m.pruned
	cov["blocks_pruning_2plus_orders_of_one_seller"] = m.multiPrune
	cov["expiration_equal_to_block_time_seen"] = m.boundaryEq
	cov["expiration_one_ns_from_block_time_seen"] = m.boundaryNs
	cov["pruned_after"] = m.prunedAfter.JSON()
	cov["purchases_checked_for_expiry"] = m.buys
	cov["samples"] = m.samples
}

var moduleAccounts map[string]bool

func moduleAccount(addr string) bool {
	if moduleAccounts == nil {
		moduleAccounts = map[string]bool{}
		for _, n := range chain.ModuleAccountNames() {
			moduleAccounts[authtypes.NewModuleAddress(n).String()] = true
		}
	}
	return moduleAccounts[addr]
}
