package mon

import (
	"fmt"
	"math/big"

	authtypes "github.com/cosmos/cosmos-sdk/x/auth/types"

	basetypes "github.com/regen-network/regen-ledger/x/ecocredit/v3/base/types/v1"
	baskettypes "github.com/regen-network/regen-ledger/x/ecocredit/v3/basket/types/v1"

	"verifharness/eng"
	"verifharness/obs"
)

// C18 fee oracle: around every CreateClass / basket Create.
type C18 struct {
	Base
	checked    int
	cells      counter
	nontrivial strset
	samples    []interface{}
}

func NewC18() *C18 { return &C18{Base: Base{"C18"}, cells: counter{}, nontrivial: strset{}} }

type feeCoin interface {
	GetDenom() string
	GetAmount() string
}

func (m *C18) AfterTx(e *eng.Engine, t *eng.TxRec) {
	if len(t.Msgs) != 1 {
		return
	}
	where := fmt.Sprintf("tx step %d (%s, ok=%v)", t.Step, t.Tag, t.OK)
	pre := t.Pre.V()
	var creator, kind, module string
	var required feeCoin
	var offered *struct {
		denom string
		amt   *big.Int
	}
	switch x := t.Msgs[0].(type) {
	case *basetypes.MsgCreateClass:
		creator, kind, module = x.Admin, "class", "ecocredit"
		if pre.ClassFee != nil && pre.ClassFee.Fee != nil {
			required = pre.ClassFee.Fee
		}
		if x.Fee != nil {
			offered = &struct {
				denom string
				amt   *big.Int
			}{x.Fee.Denom, x.Fee.Amount.BigInt()}
		}
	case *baskettypes.MsgCreate:
		creator, kind, module = x.Curator, "basket", "ecocredit-basket"
		if pre.BasketFee != nil && pre.BasketFee.Fee != nil {
			required = pre.BasketFee.Fee
		}
		if len(x.Fee) > 0 {
			offered = &struct {
				denom string
				amt   *big.Int
			}{x.Fee[0].Denom, x.Fee[0].Amount.BigInt()}
		}
	default:
		return
	}
	m.checked++
	bank := obs.DiffBank(t.Pre, t.Post)
	supply := obs.DiffSupply(t.Pre, t.Post)
	modAddr := authtypes.NewModuleAddress(module).String()
	if !t.OK {
		if len(bank) > 0 || len(supply) > 0 {
			e.Violate("C18", "rejected-creation-moved-coins", fmt.Sprintf("%s: rejected %s creation changed bank state", where, kind))
		}
		m.cells.inc(kind + "/rejected")
		return
	}
	if required == nil {
		m.cells.inc(kind + "/no-fee/accepted")
		if len(bank) > 0 || len(supply) > 0 {
			e.Violate("C18", "charged-without-fee", fmt.Sprintf("%s: %s creation moved coins although no fee is set", where, kind))
		}
		return
	}
	req, ok := new(big.Int).SetString(required.GetAmount(), 10)
	if !ok {
		return
	}
	den := required.GetDenom()
	if req.Sign() == 0 {
		// a zero required fee charges nothing
		if len(bank) > 0 || len(supply) > 0 {
			e.Violate("C18", "charged-without-fee", fmt.Sprintf("%s: %s creation moved coins although the fee is zero", where, kind))
		}
		m.cells.inc(kind + "/zero-fee/accepted")
		return
	}
	m.cells.inc(kind + "/fee/accepted")
	// success ⇒ the offer covered the fee in the right denom and the creator could pay
	if offered == nil {
		e.Violate("C18", "accepted-without-offer", fmt.Sprintf("%s: %s created without a fee offer although %s%s is required", where, kind, req, den))
	} else {
		if offered.denom != den {
			e.Violate("C18", "accepted-wrong-denom", fmt.Sprintf("%s: %s created with an offer in %s although the fee is in %s", where, kind, offered.denom, den))
		}
		if offered.amt.Cmp(req) < 0 {
			e.Violate("C18", "accepted-below-fee", fmt.Sprintf("%s: %s created with offer %s < fee %s", where, kind, offered.amt, req))
		}
	}
	if t.Pre.BankOf(creator, den).Cmp(req) < 0 {
		e.Violate("C18", "accepted-insufficient-funds", fmt.Sprintf("%s: %s created although the creator held %s%s < fee %s", where, kind, t.Pre.BankOf(creator, den), den, req))
	}
	debit := new(big.Int).Sub(t.Pre.BankOf(creator, den), t.Post.BankOf(creator, den))
	burned := new(big.Int).Sub(t.Pre.SupplyOf(den), t.Post.SupplyOf(den))
	if debit.Cmp(req) != 0 {
		e.Violate("C18", "fee-debit", fmt.Sprintf("%s: creator debited %s%s, required fee is %s (offered %v)", where, debit, den, req, offered))
	}
	if burned.Cmp(req) != 0 {
		e.Violate("C18", "fee-burn", fmt.Sprintf("%s: total supply of %s fell by %s, required fee is %s", where, den, burned, req))
	}
	for _, c := range bank {
		if c.Addr == creator && c.Denom == den {
			continue
		}
		if c.Addr == modAddr {
			e.Violate("C18", "module-account-kept-fee", fmt.Sprintf("%s: module account %s balance in %s changed %s -> %s", where, module, c.Denom, c.Before, c.After))
			continue
		}
		e.Violate("C18", "fee-frame", fmt.Sprintf("%s: %s creation changed the balance of %s in %s", where, kind, c.Addr, c.Denom))
	}
	for _, c := range supply {
		if c.Denom != den {
			e.Violate("C18", "fee-frame-supply", fmt.Sprintf("%s: %s creation changed the supply of %s", where, kind, c.Denom))
		}
	}
	over := offered != nil && offered.amt.Cmp(req) > 0
	m.nontrivial.add(fmt.Sprintf("%s|%s|%s|over=%v", kind, req, den, over))
	if len(m.samples) < 4 && over {
		m.samples = append(m.samples, map[string]interface{}{"kind": kind, "required_fee": req.String() + den, "offered": offered.amt.String() + offered.denom, "creator_debited": debit.String(), "supply_reduced": burned.String()})
	}
}

func (m *C18) Finish(e *eng.Engine, cov map[string]interface{}) {
	cov["fee_oracle_evaluations"] = m.checked
	cov["fee_oracle_cells"] = m.cells.JSON()
	cov["fee_oracle_distinct_fee_configurations_charged"] = len(m.nontrivial)
	cov["fee_oracle_samples"] = m.samples
}
