package mon

import (
	"fmt"
	"math/big"

	markettypes "github.com/regen-network/regen-ledger/x/ecocredit/v3/marketplace/types/v1"

	"verifharness/eng"
	"verifharness/obs"
	"verifharness/ref"
)

// C07: exact-rational settlement reference around every successful BuyDirect.
type C07 struct {
	Base
	Known      *KnownSet
	buys       int
	fills      int
	nontrivial strset
	breakdown  counter
	knownHits  int
	extreme    int
	samples    []interface{}
	// SkipSoftWhenInexact: used when this oracle serves another property (C18): the "within one base
	// unit" clauses are only evaluated in the ordinary stratum; exact clauses always are.
	SkipSoftWhenInexact bool
	skippedSoft         int
	// what each open order's seller asked for, from the successful Sell / UpdateSellOrders messages
	asked    map[uint64]sdkCoin
	askBinds int
}

type sdkCoin struct {
	denom, amount     string
	disableAutoRetire bool
}

func NewC07(k *KnownSet) *C07 {
	return &C07{Base: Base{"C07"}, Known: k, nontrivial: strset{}, breakdown: counter{}}
}

type partyDenom struct{ addr, denom string }

func abs(x *big.Int) *big.Int { return new(big.Int).Abs(x) }

func withinUnits(got *big.Int, exact *big.Rat, n int) bool {
	d := new(big.Rat).Sub(new(big.Rat).SetInt(got), exact)
	d.Abs(d)
	return d.Cmp(big.NewRat(int64(n), 1)) <= 0
}

// trackAsks: the price an order settles at is the one its seller asked for. The order row only names
// a market, so the denomination is checked against the seller's own message: after every successful
// transaction each open order whose ask is known must sit in a market of exactly that denomination,
// with exactly that amount.
func (m *C07) trackAsks(e *eng.Engine, t *eng.TxRec) {
	if !t.OK {
		return
	}
	if m.asked == nil {
		m.asked = map[uint64]sdkCoin{}
	}
	post := t.Post.V()
	for i, msg := range t.Msgs {
		switch x := msg.(type) {
		case *markettypes.MsgSell:
			if i >= len(t.Resps) {
				continue
			}
			r, ok := t.Resps[i].(*markettypes.MsgSellResponse)
			if !ok || len(r.SellOrderIds) != len(x.Orders) {
				continue
			}
			for j, o := range x.Orders {
				if o.AskPrice != nil {
					m.asked[r.SellOrderIds[j]] = sdkCoin{o.AskPrice.Denom, o.AskPrice.Amount.String(), o.DisableAutoRetire}
				}
			}
		case *markettypes.MsgUpdateSellOrders:
			for _, u := range x.Updates {
				if a, known := m.asked[u.SellOrderId]; known {
					a.disableAutoRetire = u.DisableAutoRetire // no field presence: every update sets it
					if u.NewAskPrice != nil {
						a.denom, a.amount = u.NewAskPrice.Denom, u.NewAskPrice.Amount.String()
					}
					m.asked[u.SellOrderId] = a
				}
			}
		}
	}
	for id, a := range m.asked {
		o := post.Orders[id]
		if o == nil {
			delete(m.asked, id)
			continue
		}
		m.askBinds++
		mk := post.Markets[o.MarketId]
		if mk == nil || mk.BankDenom != a.denom || o.AskAmount != a.amount {
			got := "a missing market"
			if mk != nil {
				got = o.AskAmount + " " + mk.BankDenom
			}
			e.Violate(m.P, "order-ask-binding", fmt.Sprintf("tx step %d (%s): sell order %d was listed by its seller at %s %s but is stored at %s (market %d)", t.Step, t.Tag, id, a.amount, a.denom, got, o.MarketId))
			delete(m.asked, id) // report once
		} else if o.DisableAutoRetire != a.disableAutoRetire {
			e.Violate(m.P, "order-auto-retire-binding", fmt.Sprintf("tx step %d (%s): sell order %d was listed by its seller with disable_auto_retire=%v but is stored with %v", t.Step, t.Tag, id, a.disableAutoRetire, o.DisableAutoRetire))
			delete(m.asked, id)
		}
	}
}

func (m *C07) AfterTx(e *eng.Engine, t *eng.TxRec) {
	m.trackAsks(e, t)
	if !t.OK || len(t.Msgs) != 1 {
		return
	}
	x, ok := t.Msgs[0].(*markettypes.MsgBuyDirect)
	if !ok {
		return
	}
	m.buys++
	where := fmt.Sprintf("tx step %d (%s)", t.Step, t.Tag)
	pre, post := t.Pre.V(), t.Post.V()
	viol := func(clause, msg string) { e.Violate(m.P, clause, where+": "+msg) }

	bf, sf := new(big.Rat), new(big.Rat)
	if pre.FeeParams != nil {
		if r, err := ref.DecOrZero(pre.FeeParams.BuyerPercentageFee); err == nil {
			bf = r
		}
		if r, err := ref.DecOrZero(pre.FeeParams.SellerPercentageFee); err == nil {
			sf = r
		}
	}
	remaining := map[uint64]*big.Rat{}
	type exp struct {
		creditsT, creditsR map[uint64]*big.Rat // buyer per batch
		sellerEsc          map[sb]*big.Rat
		sellerPay          map[partyDenom]*big.Rat
		sellerFills        map[partyDenom]int
		pool               map[string]*big.Rat
		poolFills          map[string]int
		total              map[string]*big.Rat
		retired            map[uint64]*big.Rat
	}
	ex := exp{map[uint64]*big.Rat{}, map[uint64]*big.Rat{}, map[sb]*big.Rat{}, map[partyDenom]*big.Rat{}, map[partyDenom]int{}, map[string]*big.Rat{}, map[string]int{}, map[string]*big.Rat{}, map[uint64]*big.Rat{}}
	acc := func(mp map[uint64]*big.Rat, k uint64, v *big.Rat) {
		if mp[k] == nil {
			mp[k] = new(big.Rat)
		}
		mp[k].Add(mp[k], v)
	}
	inexact := false
	nonTrivialFill := false
	for i, o := range x.Orders {
		so := pre.Orders[o.SellOrderId]
		if so == nil {
			viol("unknown-order", fmt.Sprintf("orders[%d]: BuyDirect succeeded against sell order %d which did not exist", i, o.SellOrderId))
			return
		}
		mk := pre.Markets[so.MarketId]
		if mk == nil {
			viol("unknown-market", fmt.Sprintf("orders[%d]: sell order %d has no market", i, so.Id))
			return
		}
		q := ref.MustDec(o.Quantity)
		if q == nil || q.Sign() <= 0 {
			viol("quantity", fmt.Sprintf("orders[%d]: succeeded with quantity %q", i, o.Quantity))
			return
		}
		if remaining[so.Id] == nil {
			remaining[so.Id] = ref.MustDec(so.Quantity)
		}
		if q.Cmp(remaining[so.Id]) > 0 {
			viol("over-fill", fmt.Sprintf("orders[%d]: bought %s of sell order %d which had %s left", i, rs(q), so.Id, rs(remaining[so.Id])))
		}
		remaining[so.Id] = sub(remaining[so.Id], q)
		ask, _ := new(big.Int).SetString(so.AskAmount, 10)
		if ask == nil {
			return
		}
		// guards
		if o.BidPrice.Denom != mk.BankDenom {
			viol("bid-denom", fmt.Sprintf("orders[%d]: bid denom %s != ask denom %s", i, o.BidPrice.Denom, mk.BankDenom))
		}
		if o.BidPrice.Amount.BigInt().Cmp(ask) < 0 {
			viol("bid-below-ask", fmt.Sprintf("orders[%d]: bid %s < ask %s", i, o.BidPrice.Amount, ask))
		}
		if so.Expiration != nil && !so.Expiration.AsTime().After(t.BlockTime) {
			viol("expired-order-bought", fmt.Sprintf("orders[%d]: sell order %d expired at %s, block time %s", i, so.Id, so.Expiration.AsTime(), t.BlockTime))
		}
		if o.DisableAutoRetire && !so.DisableAutoRetire {
			viol("auto-retire-disabled", fmt.Sprintf("orders[%d]: request disabled auto-retire but sell order %d does not allow it", i, so.Id))
		}
		if obs.Addr(so.Seller) == x.Buyer {
			viol("self-trade", fmt.Sprintf("orders[%d]: buyer is the seller", i))
		}
		subtotal := new(big.Rat).Mul(q, new(big.Rat).SetInt(ask))
		buyerFee := new(big.Rat).Mul(subtotal, bf)
		sellerFee := new(big.Rat).Mul(subtotal, sf)
		for _, p := range []*big.Rat{subtotal, buyerFee, sellerFee, add(subtotal, buyerFee), add(buyerFee, sellerFee), sub(subtotal, sellerFee)} {
			if d := ref.SigDigits(p); d < 0 || d > 34 {
				inexact = true
			}
		}
		maxFee := new(big.Int)
		if o.MaxFeeAmount != nil {
			maxFee = o.MaxFeeAmount.Amount.BigInt()
			if o.MaxFeeAmount.Denom != mk.BankDenom {
				viol("max-fee-denom", fmt.Sprintf("orders[%d]: max fee in %s for a market in %s", i, o.MaxFeeAmount.Denom, mk.BankDenom))
			}
		}
		if maxFee.Cmp(ref.Trunc(buyerFee)) < 0 {
			viol("max-fee", fmt.Sprintf("orders[%d]: max fee %s < buyer fee %s rounded down", i, maxFee, rs(buyerFee)))
		}
		seller := obs.Addr(so.Seller)
		if o.DisableAutoRetire {
			acc(ex.creditsT, so.BatchKey, q)
		} else {
			acc(ex.creditsR, so.BatchKey, q)
			acc(ex.retired, so.BatchKey, q)
		}
		k := sb{seller, so.BatchKey}
		if ex.sellerEsc[k] == nil {
			ex.sellerEsc[k] = new(big.Rat)
		}
		ex.sellerEsc[k].Add(ex.sellerEsc[k], q)
		pd := partyDenom{seller, mk.BankDenom}
		if ex.sellerPay[pd] == nil {
			ex.sellerPay[pd] = new(big.Rat)
		}
		ex.sellerPay[pd].Add(ex.sellerPay[pd], sub(subtotal, sellerFee))
		ex.sellerFills[pd]++
		if ex.pool[mk.BankDenom] == nil {
			ex.pool[mk.BankDenom] = new(big.Rat)
			ex.total[mk.BankDenom] = new(big.Rat)
		}
		ex.pool[mk.BankDenom].Add(ex.pool[mk.BankDenom], add(buyerFee, sellerFee))
		ex.poolFills[mk.BankDenom]++
		ex.total[mk.BankDenom].Add(ex.total[mk.BankDenom], add(subtotal, buyerFee))
		m.fills++
		full := remaining[so.Id].Sign() == 0
		m.breakdown.inc(map[bool]string{true: "full", false: "partial"}[full])
		m.breakdown.inc(map[bool]string{true: "tradable", false: "auto-retire"}[o.DisableAutoRetire])
		m.breakdown.inc(map[bool]string{true: "uregen", false: "other-denom"}[mk.BankDenom == "uregen"])
		if !q.IsInt() && bf.Sign() > 0 && sf.Sign() > 0 && (!add(buyerFee, sellerFee).IsInt() || !sub(subtotal, sellerFee).IsInt()) {
			nonTrivialFill = true
			m.nontrivial.add(fmt.Sprintf("%s|%s|%s|%s", o.Quantity, so.AskAmount, rs(bf), rs(sf)))
		}
		if len(m.samples) < 4 && nonTrivialFill {
			m.samples = append(m.samples, map[string]interface{}{"step": t.Step, "quantity": o.Quantity, "ask": so.AskAmount + mk.BankDenom, "buyer_fee_rate": rs(bf), "seller_fee_rate": rs(sf),
				"exact_subtotal": rs(subtotal), "exact_buyer_fee": rs(buyerFee), "exact_seller_fee": rs(sellerFee)})
		}
	}
	switch n := len(x.Orders); {
	case n == 1:
		m.breakdown.inc("1-order-msg")
	case n == 2:
		m.breakdown.inc("2-order-msg")
	default:
		m.breakdown.inc("3+-order-msg")
	}
	if inexact {
		m.extreme++
	}

	// ---- credits (exact in every stratum)
	for bk, q := range ex.creditsT {
		t0, _, _ := pre.BalOf(x.Buyer, bk)
		t1, _, _ := post.BalOf(x.Buyer, bk)
		if !eq(sub(t1, t0), q) {
			viol("buyer-credits", fmt.Sprintf("buyer tradable in batch %d rose by %s, purchased (auto-retire disabled) %s", bk, rs(sub(t1, t0)), rs(q)))
		}
	}
	for bk, q := range ex.creditsR {
		_, r0, _ := pre.BalOf(x.Buyer, bk)
		_, r1, _ := post.BalOf(x.Buyer, bk)
		if !eq(sub(r1, r0), q) {
			viol("buyer-credits", fmt.Sprintf("buyer retired in batch %d rose by %s, purchased (auto-retire) %s", bk, rs(sub(r1, r0)), rs(q)))
		}
	}
	// buyer must not gain in the other column
	for _, bk := range unionKeys(ex.creditsT, ex.creditsR) {
		t0, r0, e0 := pre.BalOf(x.Buyer, bk)
		t1, r1, e1 := post.BalOf(x.Buyer, bk)
		wantT, wantR := nzr(ex.creditsT[bk]), nzr(ex.creditsR[bk])
		if !eq(sub(t1, t0), wantT) || !eq(sub(r1, r0), wantR) || !eq(e0, e1) {
			viol("buyer-credits", fmt.Sprintf("buyer row in batch %d: Δtradable %s (want %s) Δretired %s (want %s) Δescrow %s", bk, rs(sub(t1, t0)), rs(wantT), rs(sub(r1, r0)), rs(wantR), rs(sub(e1, e0))))
		}
	}
	for k, q := range ex.sellerEsc {
		t0, r0, e0 := pre.BalOf(k.seller, k.batch)
		t1, r1, e1 := post.BalOf(k.seller, k.batch)
		if !eq(sub(e0, e1), q) || !eq(t0, t1) || !eq(r0, r1) {
			viol("seller-escrow", fmt.Sprintf("seller %s batch %d: escrow fell by %s (want %s), Δtradable %s, Δretired %s", k.seller, k.batch, rs(sub(e0, e1)), rs(q), rs(sub(t1, t0)), rs(sub(r1, r0))))
		}
	}
	for id, rem := range remaining {
		o := post.Orders[id]
		if rem.Sign() == 0 {
			if o != nil {
				viol("order-not-removed", fmt.Sprintf("sell order %d fully bought but still present with quantity %s", id, o.Quantity))
			}
		} else {
			if o == nil {
				viol("order-removed", fmt.Sprintf("sell order %d partially bought (remaining %s) but removed", id, rs(rem)))
			} else if q := ref.MustDec(o.Quantity); q == nil || !eq(q, rem) {
				viol("order-quantity", fmt.Sprintf("sell order %d quantity is %s, expected remaining %s", id, o.Quantity, rs(rem)))
			}
		}
	}
	for bk := range unionKeys(ex.creditsT, ex.creditsR, nil) {
		_ = bk
	}
	for _, bk := range unionKeys(ex.creditsT, ex.creditsR) {
		a, b := pre.Supplies[bk], post.Supplies[bk]
		if a == nil || b == nil {
			continue
		}
		want := nzr(ex.retired[bk])
		if !eq(sub(a.T, b.T), want) || !eq(sub(b.R, a.R), want) || !eq(a.C, b.C) {
			viol("supply", fmt.Sprintf("batch %d supply: tradable fell %s, retired rose %s, expected both %s; cancelled %s -> %s", bk, rs(sub(a.T, b.T)), rs(sub(b.R, a.R)), rs(want), rs(a.C), rs(b.C)))
		}
	}
	// frame: no other credit row, order or supply row changed
	for _, ch := range obs.DiffTables(t.Pre, t.Post) {
		switch ch.Table {
		case obs.TBatchBalance:
			var row = ch.After
			if row == nil {
				row = ch.Before
			}
			bb := row.(interface {
				GetAddress() []byte
				GetBatchKey() uint64
			})
			a, bk := obs.Addr(bb.GetAddress()), bb.GetBatchKey()
			if a == x.Buyer && (ex.creditsT[bk] != nil || ex.creditsR[bk] != nil) {
				continue
			}
			if ex.sellerEsc[sb{a, bk}] != nil {
				continue
			}
			viol("frame-credits", fmt.Sprintf("unrelated balance row (%s, batch %d) changed", a, bk))
		case obs.TBatchSupply:
			bk := ch.Before.(interface{ GetBatchKey() uint64 }).GetBatchKey()
			if ex.retired[bk] == nil {
				viol("frame-supply", fmt.Sprintf("supply of batch %d changed without a retiring purchase", bk))
			}
		case obs.TSellOrder:
			var id uint64
			if ch.Before != nil {
				id = ch.Before.(interface{ GetId() uint64 }).GetId()
			} else {
				id = ch.After.(interface{ GetId() uint64 }).GetId()
			}
			if remaining[id] == nil {
				viol("frame-orders", fmt.Sprintf("unrelated sell order %d changed", id))
			}
		case obs.TMarket, obs.TFeeParams, obs.TAllowedDenom, obs.TBatch, obs.TBasketBalance:
			viol("frame-tables", fmt.Sprintf("table %s changed during BuyDirect", ch.Table))
		}
	}

	// ---- coins
	pool := FeePool()
	soft := func(clause, msg string) {
		if inexact && m.SkipSoftWhenInexact {
			m.skippedSoft++
			return
		}
		if inexact && m.Known.Has("F-C07") {
			m.knownHits++
			e.Rep.KnownFinding(m.P, "F-C07 a settlement product needing more than 34 significant digits is rounded before truncation (coin clause '"+clause+"' off in the extreme stratum)")
			return
		}
		viol(clause, msg)
	}
	debit := map[string]*big.Int{}
	credit := map[string]*big.Int{}
	for _, c := range obs.DiffBank(t.Pre, t.Post) {
		d := new(big.Int).Sub(c.After, c.Before)
		switch {
		case c.Addr == x.Buyer:
			debit[c.Denom] = new(big.Int).Neg(d)
		case c.Addr == pool:
			if ex.pool[c.Denom] == nil {
				viol("frame-coins", fmt.Sprintf("fee pool balance in %s changed by %s without a fill in that denom", c.Denom, d))
			}
			addInt(credit, c.Denom, d)
		default:
			if ex.sellerPay[partyDenom{c.Addr, c.Denom}] == nil {
				viol("frame-coins", fmt.Sprintf("bank balance of unrelated account %s in %s changed by %s", c.Addr, c.Denom, d))
			}
			addInt(credit, c.Denom, d)
		}
	}
	burned := map[string]*big.Int{}
	for _, c := range obs.DiffSupply(t.Pre, t.Post) {
		d := new(big.Int).Sub(c.Before, c.After)
		if c.Denom != "uregen" || ex.pool["uregen"] == nil {
			viol("frame-supply-coins", fmt.Sprintf("total supply of %s changed by -%s during BuyDirect", c.Denom, d))
		}
		burned[c.Denom] = d
	}
	for pd, want := range ex.sellerPay {
		got := new(big.Int).Sub(t.Post.BankOf(pd.addr, pd.denom), t.Pre.BankOf(pd.addr, pd.denom))
		if !withinUnits(got, want, ex.sellerFills[pd]) {
			soft("seller-payment", fmt.Sprintf("seller %s credited %s %s, exact quantity×ask−seller fee = %s (%d fills)", pd.addr, got, pd.denom, rs(want), ex.sellerFills[pd]))
		}
	}
	for d, want := range ex.pool {
		got := new(big.Int).Sub(t.Post.BankOf(pool, d), t.Pre.BankOf(pool, d))
		if d == "uregen" {
			if got.Sign() != 0 {
				viol("uregen-not-burned", fmt.Sprintf("fee pool kept %s uregen", got))
			}
			got = burned[d]
			if got == nil {
				got = new(big.Int)
			}
		}
		if !withinUnits(got, want, ex.poolFills[d]) {
			soft("fee-pool", fmt.Sprintf("fee pool credited (or burned) %s %s, exact buyer fee+seller fee = %s (%d fills)", got, d, rs(want), ex.poolFills[d]))
		}
	}
	for d, tot := range ex.total {
		deb := debit[d]
		if deb == nil {
			deb = new(big.Int)
		}
		cr := credit[d]
		if cr == nil {
			cr = new(big.Int)
		}
		sum := new(big.Int).Set(cr)
		if b := burned[d]; b != nil {
			sum.Add(sum, b)
		}
		if deb.Cmp(sum) != 0 {
			viol("coin-conservation", fmt.Sprintf("buyer debited %s %s but sellers+pool credited %s and %v burned", deb, d, cr, burned[d]))
		}
		if new(big.Rat).SetInt(deb).Cmp(tot) > 0 {
			soft("buyer-overcharged", fmt.Sprintf("buyer debited %s %s, more than the exact total quantity×ask×(1+buyer fee) = %s", deb, d, rs(tot)))
		}
	}
	for d := range debit {
		if ex.total[d] == nil && debit[d].Sign() != 0 {
			viol("frame-coins", fmt.Sprintf("buyer balance in %s changed by %s without a fill in that denom", d, debit[d]))
		}
	}
}

func addInt(m map[string]*big.Int, k string, v *big.Int) {
	if m[k] == nil {
		m[k] = new(big.Int)
	}
	m[k].Add(m[k], v)
}

func nzr(r *big.Rat) *big.Rat {
	if r == nil {
		return zero
	}
	return r
}

func unionKeys(ms ...map[uint64]*big.Rat) []uint64 {
	seen := map[uint64]bool{}
	var out []uint64
	for _, m := range ms {
		for k := range m {
			if !seen[k] {
				seen[k] = true
				out = append(out, k)
			}
		}
	}
	return out
}

func (m *C07) Finish(e *eng.Engine, cov map[string]interface{}) {
	cov["evaluations"] = m.fills
	cov["distinct_nontrivial"] = len(m.nontrivial)
	cov["_keys"] = sortedStr(m.nontrivial)
	cov["rule"] = "one evaluation = one fill of a successful single-message BuyDirect checked against the exact-rational reference computed from the pre-state order, fee params and request (credits, guards, coins, frame); non-trivial = distinct (quantity, ask, buyer rate, seller rate) with fractional quantity, both fee rates non-zero and truncation actually dropping a fraction"
	cov["successful_buy_direct_messages"] = m.buys
	cov["open_order_ask_bindings_checked"] = m.askBinds
	cov["fills_breakdown"] = m.breakdown.JSON()
	cov["messages_in_extreme_stratum"] = m.extreme
	cov["known_finding_hits"] = m.knownHits
	if m.SkipSoftWhenInexact {
		cov["soft_clauses_skipped_in_extreme_stratum"] = m.skippedSoft
	}
	cov["samples"] = m.samples
}
