package mon

import (
	"encoding/json"
	"fmt"
	"math/big"
	"strings"

	baskettypes "github.com/regen-network/regen-ledger/x/ecocredit/v3/basket/types/v1"
	markettypes "github.com/regen-network/regen-ledger/x/ecocredit/v3/marketplace/types/v1"

	"verifharness/eng"
	"verifharness/obs"
	"verifharness/ref"
)

// ---------------------------------------------------------------- C05 basket backing

type C05 struct {
	Base
	Known       *KnownSet
	steps       int
	puts, takes int
	crossTakes  int
	nontrivial  strset
	invEvals    int
	knownHits   int
	samples     []interface{}
}

func NewC05(k *KnownSet) *C05 { return &C05{Base: Base{"C05"}, Known: k, nontrivial: strset{}} }

var million = big.NewRat(1000000, 1)

// basketTotals returns Σ credits per basket id.
func basketTotals(v *obs.View) map[uint64]*big.Rat {
	out := map[uint64]*big.Rat{}
	for _, b := range v.BasketList {
		out[b.Id] = new(big.Rat)
	}
	for _, bb := range v.BasketBalList {
		if r := ref.MustDec(bb.Balance); r != nil {
			if out[bb.BasketId] == nil {
				out[bb.BasketId] = new(big.Rat)
			}
			out[bb.BasketId].Add(out[bb.BasketId], r)
		}
	}
	return out
}

func tokenFactor(v *obs.View, ctAbbrev string) *big.Rat {
	p := 6
	if ct := v.CreditTypes[ctAbbrev]; ct != nil {
		p = int(ct.Precision)
	}
	return new(big.Rat).SetInt(ref.Pow10(p))
}

func (m *C05) scan(e *eng.Engine, s *obs.Snapshot, where string) {
	m.steps++
	v := s.V()
	tot := basketTotals(v)
	extreme := false
	for _, b := range v.BasketList {
		want := new(big.Rat).Mul(tot[b.Id], tokenFactor(v, b.CreditTypeAbbrev))
		got := new(big.Rat).SetInt(s.SupplyOf(b.BasketDenom))
		if !eq(want, got) {
			e.Violate("C05", "backing", fmt.Sprintf("%s: basket %s: bank supply %s != Σcredits %s × 10^precision = %s", where, b.BasketDenom, rs(got), rs(tot[b.Id]), rs(want)))
		}
		if ref.SigDigits(want) > 34 {
			extreme = true
		}
		// non-trivial: >=2 batches and tokens spread over >=2 holders
		nb := 0
		for _, bb := range v.BasketBalList {
			if bb.BasketId == b.Id {
				nb++
			}
		}
		nh := 0
		for _, ds := range s.Bank {
			if x, ok := ds[b.BasketDenom]; ok && x.Sign() > 0 {
				nh++
			}
		}
		if nb >= 2 && nh >= 2 {
			m.nontrivial.add(fmt.Sprintf("%s/%d/%d/%s", b.BasketDenom, nb, nh, s.SupplyOf(b.BasketDenom)))
		}
	}
	ctx := e.App.Ctx()
	for _, inv := range e.App.Invariants {
		if inv.Route != "basket-supply" {
			continue
		}
		m.invEvals++
		msg, broken := inv.Inv(ctx)
		if !broken {
			continue
		}
		// F-C05: the invariant multiplies in a 34-digit context. Cause predicate: the harness's exact
		// equation holds for every basket AND some basket total needs more than 34 significant digits
		// AND the complaint is about imbalance only.
		if extreme && m.Known.Has("F-C05") && strings.Contains(msg, "is imbalanced") && !m.exactBroken(s) {
			m.knownHits++
			e.Rep.KnownFinding("C05", "F-C05 registered basket-supply invariant misreports a basket whose token total needs more than 34 significant digits (bank supply is exact)")
			continue
		}
		e.Violate("C05", "chain-invariant", where+": registered basket-supply invariant reports: "+msg)
	}
}

// BackingScan is the exact backing equation for every basket ("" list when it holds).
func BackingScan(s *obs.Snapshot) []string {
	v := s.V()
	tot := basketTotals(v)
	var bad []string
	for _, b := range v.BasketList {
		want := new(big.Rat).Mul(tot[b.Id], tokenFactor(v, b.CreditTypeAbbrev))
		got := new(big.Rat).SetInt(s.SupplyOf(b.BasketDenom))
		if !eq(want, got) {
			bad = append(bad, fmt.Sprintf("basket %s: bank supply %s != %s", b.BasketDenom, rs(got), rs(want)))
		}
	}
	return bad
}

// AnyBasketExtreme: some basket's token total needs more than 34 significant digits.
func AnyBasketExtreme(s *obs.Snapshot) bool {
	v := s.V()
	tot := basketTotals(v)
	for _, b := range v.BasketList {
		if ref.SigDigits(new(big.Rat).Mul(tot[b.Id], tokenFactor(v, b.CreditTypeAbbrev))) > 34 {
			return true
		}
	}
	return false
}

func (m *C05) exactBroken(s *obs.Snapshot) bool {
	v := s.V()
	tot := basketTotals(v)
	for _, b := range v.BasketList {
		want := new(big.Rat).Mul(tot[b.Id], tokenFactor(v, b.CreditTypeAbbrev))
		if !eq(want, new(big.Rat).SetInt(s.SupplyOf(b.BasketDenom))) {
			return true
		}
	}
	return false
}

func (m *C05) OnGenesis(e *eng.Engine, _ map[string]json.RawMessage, s *obs.Snapshot) {
	m.scan(e, s, "genesis")
}
func (m *C05) AfterBeginBlock(e *eng.Engine, b *eng.BlockRec) {
	m.scan(e, b.Post, fmt.Sprintf("BeginBlock h=%d", b.Height))
}

func (m *C05) AfterTx(e *eng.Engine, t *eng.TxRec) {
	where := fmt.Sprintf("tx step %d (%s, ok=%v)", t.Step, t.Tag, t.OK)
	m.scan(e, t.Post, where)
	if !t.OK || len(t.Msgs) != 1 {
		return
	}
	pre, post := t.Pre.V(), t.Post.V()
	switch x := t.Msgs[0].(type) {
	case *baskettypes.MsgPut:
		b := pre.BasketByDenom[x.BasketDenom]
		if b == nil {
			e.Violate("C05", "put-unknown-basket", where+": Put succeeded for unknown basket "+x.BasketDenom)
			return
		}
		m.puts++
		sum := new(big.Rat)
		for _, c := range x.Credits {
			if r := ref.MustDec(c.Amount); r != nil {
				sum.Add(sum, r)
			}
		}
		want := new(big.Rat).Mul(sum, tokenFactor(pre, b.CreditTypeAbbrev))
		dOwner := new(big.Rat).SetInt(new(big.Int).Sub(t.Post.BankOf(x.Owner, b.BasketDenom), t.Pre.BankOf(x.Owner, b.BasketDenom)))
		dSup := new(big.Rat).SetInt(new(big.Int).Sub(t.Post.SupplyOf(b.BasketDenom), t.Pre.SupplyOf(b.BasketDenom)))
		if !eq(dOwner, want) || !eq(dSup, want) {
			e.Violate("C05", "put-mint", fmt.Sprintf("%s: Put of %s credits: depositor tokens +%s, supply +%s, expected +%s", where, rs(sum), rs(dOwner), rs(dSup), rs(want)))
		}
		if r, ok := t.Resps[0].(*baskettypes.MsgPutResponse); ok {
			if got := ref.MustDec(r.AmountReceived); got == nil || !eq(got, want) {
				e.Violate("C05", "put-response", fmt.Sprintf("%s: Put response amount_received=%q, expected %s", where, r.AmountReceived, rs(want)))
			}
		}
		for _, c := range obs.DiffBank(t.Pre, t.Post) {
			if c.Denom == b.BasketDenom && c.Addr != x.Owner {
				e.Violate("C05", "put-other-holder", fmt.Sprintf("%s: Put changed the token balance of %s", where, c.Addr))
			}
		}
		if len(m.samples) < 2 {
			m.samples = append(m.samples, map[string]interface{}{"kind": "put", "basket": b.BasketDenom, "credits": rs(sum), "tokens_minted": rs(want)})
		}
	case *baskettypes.MsgTake:
		b := pre.BasketByDenom[x.BasketDenom]
		if b == nil {
			e.Violate("C05", "take-unknown-basket", where+": Take succeeded for unknown basket "+x.BasketDenom)
			return
		}
		m.takes++
		amt, ok := new(big.Int).SetString(x.Amount, 10)
		if !ok {
			e.Violate("C05", "take-amount", where+": Take succeeded with non-integer amount "+x.Amount)
			return
		}
		dOwner := new(big.Int).Sub(t.Pre.BankOf(x.Owner, b.BasketDenom), t.Post.BankOf(x.Owner, b.BasketDenom))
		dSup := new(big.Int).Sub(t.Pre.SupplyOf(b.BasketDenom), t.Post.SupplyOf(b.BasketDenom))
		if dOwner.Cmp(amt) != 0 || dSup.Cmp(amt) != 0 {
			e.Violate("C05", "take-burn", fmt.Sprintf("%s: Take of %s tokens: owner -%s, supply -%s", where, amt, dOwner, dSup))
		}
		wantCredits := new(big.Rat).Quo(new(big.Rat).SetInt(amt), tokenFactor(pre, b.CreditTypeAbbrev))
		if r, ok := t.Resps[0].(*baskettypes.MsgTakeResponse); ok {
			sum := new(big.Rat)
			perBatch := map[string]*big.Rat{}
			for _, c := range r.Credits {
				if q := ref.MustDec(c.Amount); q != nil {
					sum.Add(sum, q)
					if perBatch[c.BatchDenom] == nil {
						perBatch[c.BatchDenom] = new(big.Rat)
					}
					perBatch[c.BatchDenom].Add(perBatch[c.BatchDenom], q)
				}
			}
			if !eq(sum, wantCredits) {
				e.Violate("C05", "take-release", fmt.Sprintf("%s: Take of %s tokens released %s credits, expected %s", where, amt, rs(sum), rs(wantCredits)))
			}
			if len(perBatch) >= 2 {
				m.crossTakes++
			}
			// the owner's balance delta (tradable or retired) equals what the response says
			for d, q := range perBatch {
				bt := pre.BatchByDenom[d]
				if bt == nil {
					e.Violate("C05", "take-unknown-batch", where+": Take released unknown batch "+d)
					continue
				}
				t0, r0, _ := pre.BalOf(x.Owner, bt.Key)
				t1, r1, _ := post.BalOf(x.Owner, bt.Key)
				got := add(sub(t1, t0), sub(r1, r0))
				if !eq(got, q) {
					e.Violate("C05", "take-owner-delta", fmt.Sprintf("%s: Take says %s of %s released, owner's tradable+retired rose by %s", where, rs(q), d, rs(got)))
				}
			}
			if len(m.samples) < 4 {
				m.samples = append(m.samples, map[string]interface{}{"kind": "take", "basket": b.BasketDenom, "tokens_burned": amt.String(), "credits_released": rs(sum), "batches": len(perBatch)})
			}
		}
	}
}

func (m *C05) Finish(e *eng.Engine, cov map[string]interface{}) {
	cov["evaluations"] = m.steps
	cov["distinct_nontrivial"] = len(m.nontrivial)
	cov["_keys"] = sortedStr(m.nontrivial)
	cov["rule"] = "one evaluation = exact check bank.GetSupply(basket denom) == Σ BasketBalance × 10^precision for every basket + the registered basket-supply invariant, after genesis, every BeginBlock and every DeliverTx; Put/Take deltas checked around every successful Put/Take; non-trivial = distinct (basket, #batches>=2, #token holders>=2, supply) states"
	cov["puts_checked"] = m.puts
	cov["takes_checked"] = m.takes
	cov["takes_crossing_a_batch_boundary"] = m.crossTakes
	cov["chain_invariant_evaluations"] = m.invEvals
	cov["known_finding_hits"] = m.knownHits
	cov["samples"] = m.samples
}

// ---------------------------------------------------------------- C06 escrow = open orders

type C06 struct {
	Base
	steps      int
	kinds      map[string]strset // seller/batch → transition kinds seen with >=2 orders open
	nontrivial strset
	updPartial int
	denomGates int
	filled     map[uint64]bool // orders that were partially filled
	updated    map[uint64]bool
	expUpdated int
	samples    []interface{}
	// the allowed-denom list as governance's successful messages left it (seeded from the first state seen)
	allowGhost map[string]bool
	listOps    int
}

func NewC06() *C06 {
	return &C06{Base: Base{"C06"}, kinds: map[string]strset{}, nontrivial: strset{}, filled: map[uint64]bool{}, updated: map[uint64]bool{}}
}

func EscrowScan(s *obs.Snapshot) []string {
	v := s.V()
	var bad []string
	sums := map[sb]*big.Rat{}
	for _, o := range v.OrderList {
		who := fmt.Sprintf("sell order %d", o.Id)
		q, places, _, err := ref.ParseDec(o.Quantity)
		if err != nil {
			bad = append(bad, fmt.Sprintf("%s: quantity %q does not parse", who, o.Quantity))
			continue
		}
		if q.Sign() <= 0 {
			bad = append(bad, fmt.Sprintf("%s: quantity %q is not positive", who, o.Quantity))
		}
		if places > precisionOf(v, o.BatchKey) {
			bad = append(bad, fmt.Sprintf("%s: quantity %q exceeds the credit type precision", who, o.Quantity))
		}
		ask, ok := new(big.Int).SetString(o.AskAmount, 10)
		if !ok || ask.Sign() <= 0 || strings.TrimLeft(o.AskAmount, "0123456789") != "" {
			bad = append(bad, fmt.Sprintf("%s: ask amount %q is not a positive integer", who, o.AskAmount))
		}
		b := v.Batches[o.BatchKey]
		if b == nil {
			bad = append(bad, fmt.Sprintf("%s: batch key %d does not exist", who, o.BatchKey))
		}
		mk := v.Markets[o.MarketId]
		if mk == nil {
			bad = append(bad, fmt.Sprintf("%s: market %d does not exist", who, o.MarketId))
		} else if b != nil {
			if c := v.ClassOfBatch(b); c != nil && c.CreditTypeAbbrev != mk.CreditTypeAbbrev {
				bad = append(bad, fmt.Sprintf("%s: market credit type %s != batch credit type %s", who, mk.CreditTypeAbbrev, c.CreditTypeAbbrev))
			}
		}
		k := sb{obs.Addr(o.Seller), o.BatchKey}
		if sums[k] == nil {
			sums[k] = new(big.Rat)
		}
		sums[k].Add(sums[k], q)
	}
	for k, b := range v.Balances {
		want := sums[sb{k.Addr, k.BatchKey}]
		if want == nil {
			want = zero
		}
		if b.E == nil || !eq(b.E, want) {
			bad = append(bad, fmt.Sprintf("escrowed balance of %s in batch %d is %s but open orders sum to %s", k.Addr, k.BatchKey, b.Row.EscrowedAmount, rs(want)))
		}
	}
	for k, want := range sums {
		if _, ok := v.Balances[obs.BalKey{Addr: k.seller, BatchKey: k.batch}]; !ok && want.Sign() != 0 {
			bad = append(bad, fmt.Sprintf("open orders of %s in batch %d sum to %s but there is no balance row", k.seller, k.batch, rs(want)))
		}
	}
	return bad
}

func (m *C06) scan(e *eng.Engine, s *obs.Snapshot, where string) {
	m.steps++
	if bad := EscrowScan(s); len(bad) > 0 {
		e.Violate("C06", "escrow-equals-orders", where+": "+firstN(bad, 5))
	}
}

func (m *C06) OnGenesis(e *eng.Engine, _ map[string]json.RawMessage, s *obs.Snapshot) {
	m.scan(e, s, "genesis")
}

func (m *C06) note(pre *obs.View, seller string, batch uint64, kind string) {
	// only counts when >=2 orders of that (seller,batch) were open
	n := 0
	for _, o := range pre.OrderList {
		if obs.Addr(o.Seller) == seller && o.BatchKey == batch {
			n++
		}
	}
	if n < 2 {
		return
	}
	k := fmt.Sprintf("%s/%d", seller, batch)
	if m.kinds[k] == nil {
		m.kinds[k] = strset{}
	}
	m.kinds[k].add(kind)
	if len(m.kinds[k]) >= 4 {
		m.nontrivial.add(k)
	}
}

func (m *C06) AfterBeginBlock(e *eng.Engine, b *eng.BlockRec) {
	m.scan(e, b.Post, fmt.Sprintf("BeginBlock h=%d", b.Height))
	pre, post := b.Pre.V(), b.Post.V()
	for id, o := range pre.Orders {
		if post.Orders[id] == nil {
			m.note(pre, obs.Addr(o.Seller), o.BatchKey, "expiry")
			if m.updated[id] {
				m.expUpdated++
			}
		}
	}
}

func (m *C06) AfterTx(e *eng.Engine, t *eng.TxRec) {
	where := fmt.Sprintf("tx step %d (%s, ok=%v)", t.Step, t.Tag, t.OK)
	m.scan(e, t.Post, where)
	if !t.OK {
		return
	}
	pre, post := t.Pre.V(), t.Post.V()
	if m.allowGhost == nil {
		m.allowGhost = map[string]bool{}
		for d := range pre.AllowedDenoms {
			m.allowGhost[d] = true
		}
	}
	for i, msg := range t.Msgs {
		switch x := msg.(type) {
		case *markettypes.MsgAddAllowedDenom:
			m.allowGhost[x.BankDenom] = true
			m.listOps++
		case *markettypes.MsgRemoveAllowedDenom:
			delete(m.allowGhost, x.Denom)
			m.listOps++
		case *markettypes.MsgSell:
			for j, o := range x.Orders {
				m.denomGates++
				if !m.allowGhost[o.AskPrice.Denom] {
					e.Violate("C06", "denom-not-allowed", fmt.Sprintf("%s: Sell order %d created with ask denom %s which governance's successful add/remove messages leave not allowed", where, j, o.AskPrice.Denom))
				}
				if pre.AllowedDenoms[o.AskPrice.Denom] == nil && !allowedEarlierInTx(t, i) {
					e.Violate("C06", "denom-not-allowed", fmt.Sprintf("%s: Sell order %d created with ask denom %s which was not on the allowed list", where, j, o.AskPrice.Denom))
				}
				if b := pre.BatchByDenom[o.BatchDenom]; b != nil {
					m.note(post, x.Seller, b.Key, "sell")
				}
			}
		case *markettypes.MsgUpdateSellOrders:
			for _, u := range x.Updates {
				o := pre.Orders[u.SellOrderId]
				if o == nil {
					continue
				}
				if u.NewAskPrice != nil {
					m.denomGates++
					if !m.allowGhost[u.NewAskPrice.Denom] {
						e.Violate("C06", "denom-not-allowed", fmt.Sprintf("%s: sell order %d updated to ask denom %s which governance's successful add/remove messages leave not allowed", where, o.Id, u.NewAskPrice.Denom))
					}
					if pre.AllowedDenoms[u.NewAskPrice.Denom] == nil && !allowedEarlierInTx(t, i) {
						e.Violate("C06", "denom-not-allowed", fmt.Sprintf("%s: sell order %d updated to ask denom %s which was not on the allowed list", where, o.Id, u.NewAskPrice.Denom))
					}
				}
				kind := "update-same"
				if a, b := ref.MustDec(o.Quantity), ref.MustDec(u.NewQuantity); a != nil && b != nil {
					if b.Cmp(a) > 0 {
						kind = "update-up"
					} else if b.Cmp(a) < 0 {
						kind = "update-down"
					}
				}
				if mk := pre.Markets[o.MarketId]; mk != nil && u.NewAskPrice != nil && mk.BankDenom != u.NewAskPrice.Denom {
					m.note(pre, x.Seller, o.BatchKey, "update-denom")
				}
				m.note(pre, x.Seller, o.BatchKey, kind)
				if m.filled[o.Id] {
					m.updPartial++
				}
				m.updated[o.Id] = true
			}
		case *markettypes.MsgCancelSellOrder:
			if o := pre.Orders[x.SellOrderId]; o != nil {
				m.note(pre, x.Seller, o.BatchKey, "cancel")
			}
		case *markettypes.MsgBuyDirect:
			for _, bo := range x.Orders {
				if o := pre.Orders[bo.SellOrderId]; o != nil {
					if post.Orders[o.Id] != nil {
						m.filled[o.Id] = true
						m.note(pre, obs.Addr(o.Seller), o.BatchKey, "partial-fill")
					} else {
						m.note(pre, obs.Addr(o.Seller), o.BatchKey, "full-fill")
					}
				}
			}
		}
	}
	for d := range post.AllowedDenoms {
		if !m.allowGhost[d] {
			e.Violate("C06", "allow-list-diverged", fmt.Sprintf("%s: denom %s is in the allowed-denom table but governance's successful add/remove messages leave it not allowed", where, d))
			m.allowGhost[d] = true // report once
		}
	}
	for d := range m.allowGhost {
		if post.AllowedDenoms[d] == nil {
			e.Violate("C06", "allow-list-diverged", fmt.Sprintf("%s: denom %s was added by governance and never removed but is missing from the allowed-denom table", where, d))
			delete(m.allowGhost, d)
		}
	}
	if len(m.samples) < 3 && len(post.OrderList) > 0 {
		o := post.OrderList[len(post.OrderList)-1]
		_, _, esc := post.BalOf(obs.Addr(o.Seller), o.BatchKey)
		m.samples = append(m.samples, map[string]interface{}{"step": t.Step, "order": o.Id, "seller": obs.Addr(o.Seller), "batch": o.BatchKey, "quantity": o.Quantity, "seller_escrow": rs(esc)})
	}
}

// allowedEarlierInTx: a governance message earlier in the same transaction may have added the denom.
func allowedEarlierInTx(t *eng.TxRec, idx int) bool {
	for i := 0; i < idx; i++ {
		if _, ok := t.Msgs[i].(*markettypes.MsgAddAllowedDenom); ok {
			return true
		}
	}
	return false
}

func (m *C06) Finish(e *eng.Engine, cov map[string]interface{}) {
	cov["evaluations"] = m.steps
	cov["distinct_nontrivial"] = len(m.nontrivial)
	cov["_keys"] = sortedStr(m.nontrivial)
	cov["rule"] = "one evaluation = scan of SellOrder/Market/BatchBalance after genesis, every BeginBlock and every DeliverTx: escrow[seller,batch] == Σ open order quantities exactly, order well-formedness, FK to batch and market; allowed-denom gate checked against the pre-state at every successful Sell/UpdateSellOrders; non-trivial = distinct (seller,batch) that went through >=4 distinct transition kinds while >=2 of its orders were open"
	cov["allowed_denom_gates_checked"] = m.denomGates
	cov["allow_list_changes_tracked"] = m.listOps
	cov["updates_of_partially_filled_orders"] = m.updPartial
	cov["expiries_of_updated_orders"] = m.expUpdated
	kinds := map[string]int{}
	for _, ks := range m.kinds {
		for k := range ks {
			kinds[k]++
		}
	}
	cov["transition_kinds_seen_by_seller_batch_pairs"] = kinds
	cov["samples"] = m.samples
}
