package mon

import (
	"encoding/json"
	"fmt"
	"math/big"
	"regexp"
	"strings"
	"time"

	"github.com/regen-network/regen-ledger/x/ecocredit/v3/base"
	basetypes "github.com/regen-network/regen-ledger/x/ecocredit/v3/base/types/v1"
	baskettypes "github.com/regen-network/regen-ledger/x/ecocredit/v3/basket/types/v1"

	"verifharness/eng"
	"verifharness/obs"
	"verifharness/ref"
)

// ---------------------------------------------------------------- C13 bridge safety

type originKey struct{ class, id, source string }

type C13 struct {
	Base
	consumed   map[originKey]int // → step
	foldSeen   map[originKey]bool
	bound      map[[2]string]string // (class id, contract) → batch denom
	allowed    map[string]bool      // ghost allow list: lower-cased names, driven by successful governance messages
	listOps    int
	issuing    int
	replays    int
	receives   int
	bridges    int
	casefold   int
	nontrivial strset
	samples    []interface{}
}

func NewC13() *C13 {
	return &C13{Base: Base{"C13"}, consumed: map[originKey]int{}, foldSeen: map[originKey]bool{}, bound: map[[2]string]string{}, allowed: map[string]bool{}, nontrivial: strset{}}
}

func (m *C13) OnGenesis(e *eng.Engine, g map[string]json.RawMessage, s *obs.Snapshot) {
	for n := range s.V().BridgeChains {
		m.allowed[strings.ToLower(n)] = true
	}
	var eco map[string]json.RawMessage
	if json.Unmarshal(g["ecocredit"], &eco) != nil {
		return
	}
	cid := map[string]string{}
	for _, c := range GenRows(eco[obs.TClass]) {
		cid[gs(c, "key")] = gs(c, "id")
	}
	bd := map[string]string{}
	for _, b := range GenRows(eco[obs.TBatch]) {
		bd[gs(b, "key")] = gs(b, "denom")
	}
	for _, o := range GenRows(eco[obs.TOriginTx]) {
		m.consumed[originKey{cid[gs(o, "class_key")], gs(o, "id"), gs(o, "source")}] = 0
		m.foldSeen[originKey{cid[gs(o, "class_key")], gs(o, "id"), strings.ToLower(gs(o, "source"))}] = true
	}
	for _, c := range GenRows(eco[obs.TBatchContract]) {
		m.bound[[2]string{cid[gs(c, "class_key")], gs(c, "contract")}] = bd[gs(c, "batch_key")]
	}
	m.scan(e, s, "genesis")
}

func (m *C13) scan(e *eng.Engine, s *obs.Snapshot, where string) {
	v := s.V()
	perBatch := map[uint64]int{}
	perCC := map[string]uint64{}
	for _, c := range v.Contracts {
		perBatch[c.BatchKey]++
		if perBatch[c.BatchKey] > 1 {
			e.Violate("C13", "two-contracts-one-batch", fmt.Sprintf("%s: batch %d is bound to more than one contract", where, c.BatchKey))
		}
		k := fmt.Sprintf("%d/%s", c.ClassKey, c.Contract)
		if o, ok := perCC[k]; ok && o != c.BatchKey {
			e.Violate("C13", "contract-two-batches", fmt.Sprintf("%s: contract %s of class %d is bound to batches %d and %d", where, c.Contract, c.ClassKey, o, c.BatchKey))
		}
		perCC[k] = c.BatchKey
		if v.Batches[c.BatchKey] == nil {
			e.Violate("C13", "contract-dangling", fmt.Sprintf("%s: contract row points to missing batch %d", where, c.BatchKey))
		}
	}
}

func (m *C13) consume(e *eng.Engine, t *eng.TxRec, class string, o *basetypes.OriginTx, kind string) {
	if o == nil {
		return
	}
	m.issuing++
	k := originKey{class, o.Id, o.Source}
	if at, dup := m.consumed[k]; dup {
		e.Violate("C13", "double-issuance", fmt.Sprintf("tx step %d: %s issued credits for origin tx (class %s, id %q, source %q) that already issued at step %d", t.Step, kind, class, o.Id, o.Source, at))
	}
	m.consumed[k] = t.Step
	f := originKey{class, o.Id, strings.ToLower(o.Source)}
	if m.foldSeen[f] {
		// same id, source differing only by letter case: recorded, not a violation (DESIGN §C13)
		if _, exact := m.consumed[k]; exact {
			m.casefold++
		}
	}
	m.foldSeen[f] = true
}

func (m *C13) AfterBeginBlock(e *eng.Engine, b *eng.BlockRec) {
	m.scan(e, b.Post, fmt.Sprintf("BeginBlock h=%d", b.Height))
}

func (m *C13) AfterTx(e *eng.Engine, t *eng.TxRec) {
	where := fmt.Sprintf("tx step %d (%s, ok=%v)", t.Step, t.Tag, t.OK)
	m.scan(e, t.Post, where)
	pre, post := t.Pre.V(), t.Post.V()
	if !t.OK {
		for _, msg := range t.Msgs {
			var o *basetypes.OriginTx
			cls := ""
			switch x := msg.(type) {
			case *basetypes.MsgMintBatchCredits:
				o = x.OriginTx
				if b := pre.BatchByDenom[x.BatchDenom]; b != nil {
					if c := pre.ClassOfBatch(b); c != nil {
						cls = c.Id
					}
				}
			case *basetypes.MsgBridgeReceive:
				o, cls = x.OriginTx, x.ClassId
			case *basetypes.MsgCreateBatch:
				o = x.OriginTx
				if p := pre.ProjectByID[x.ProjectId]; p != nil {
					if c := pre.Classes[p.ClassKey]; c != nil {
						cls = c.Id
					}
				}
			}
			if o != nil {
				if _, dup := m.consumed[originKey{cls, o.Id, o.Source}]; dup {
					m.replays++
					m.nontrivial.add(fmt.Sprintf("replay|%s|%s|%s|%s", msgName(msg), cls, o.Id, o.Source))
				}
			}
		}
		return
	}
	// allow list: what governance's successful messages say must be what the table says
	preAllowed := map[string]bool{}
	for k := range m.allowed {
		preAllowed[k] = true
	}
	for _, msg := range t.Msgs {
		switch x := msg.(type) {
		case *basetypes.MsgAddAllowedBridgeChain:
			m.allowed[strings.ToLower(x.ChainName)] = true
			m.listOps++
		case *basetypes.MsgRemoveAllowedBridgeChain:
			delete(m.allowed, strings.ToLower(x.ChainName))
			m.listOps++
		}
	}
	for n := range post.BridgeChains {
		if !m.allowed[n] {
			e.Violate("C13", "allow-list-diverged", fmt.Sprintf("%s: chain %q is in the allowed-bridge-chain table but governance's successful add/remove messages leave it not allowed", where, n))
			m.allowed[n] = true // report once
		}
	}
	for n := range m.allowed {
		if !post.BridgeChains[n] {
			e.Violate("C13", "allow-list-diverged", fmt.Sprintf("%s: chain %q was added by governance and never removed but is missing from the allowed-bridge-chain table", where, n))
			delete(m.allowed, n)
		}
	}
	if len(t.Msgs) != 1 {
		// multi-message transactions: keep the ghost in sync from the state (no verdicts)
		for _, o := range post.OriginTxs {
			if c := post.Classes[o.ClassKey]; c != nil {
				k := originKey{c.Id, o.Id, o.Source}
				if _, ok := m.consumed[k]; !ok {
					m.consumed[k] = t.Step
				}
			}
		}
		for _, bc := range post.Contracts {
			if c := post.Classes[bc.ClassKey]; c != nil {
				if b := post.Batches[bc.BatchKey]; b != nil {
					if _, ok := m.bound[[2]string{c.Id, bc.Contract}]; !ok {
						m.bound[[2]string{c.Id, bc.Contract}] = b.Denom
					}
				}
			}
		}
		return
	}
	switch x := t.Msgs[0].(type) {
	case *basetypes.MsgCreateBatch:
		p := pre.ProjectByID[x.ProjectId]
		if p == nil {
			return
		}
		c := pre.Classes[p.ClassKey]
		if c == nil {
			return
		}
		m.consume(e, t, c.Id, x.OriginTx, "CreateBatch")
		if x.OriginTx != nil && x.OriginTx.Contract != "" {
			if r, ok := t.Resps[0].(*basetypes.MsgCreateBatchResponse); ok {
				k := [2]string{c.Id, x.OriginTx.Contract}
				if old, dup := m.bound[k]; dup {
					e.Violate("C13", "contract-rebound", fmt.Sprintf("%s: contract %s of class %s already bound to %s, now also to %s", where, x.OriginTx.Contract, c.Id, old, r.BatchDenom))
				}
				m.bound[k] = r.BatchDenom
			}
		}
	case *basetypes.MsgMintBatchCredits:
		b := pre.BatchByDenom[x.BatchDenom]
		if b == nil {
			return
		}
		if c := pre.ClassOfBatch(b); c != nil {
			m.consume(e, t, c.Id, x.OriginTx, "MintBatchCredits")
		}
	case *basetypes.MsgBridgeReceive:
		m.receives++
		if !pre.BridgeChains[strings.ToLower(x.OriginTx.Source)] || !preAllowed[strings.ToLower(x.OriginTx.Source)] {
			e.Violate("C13", "source-not-allowed", fmt.Sprintf("%s: BridgeReceive from source %q succeeded but it is not an allowed bridge chain", where, x.OriginTx.Source))
		}
		m.consume(e, t, x.ClassId, x.OriginTx, "BridgeReceive")
		r, ok := t.Resps[0].(*basetypes.MsgBridgeReceiveResponse)
		if !ok {
			return
		}
		k := [2]string{x.ClassId, x.OriginTx.Contract}
		if old, dup := m.bound[k]; dup {
			if r.BatchDenom != old {
				e.Violate("C13", "contract-binding", fmt.Sprintf("%s: contract %s of class %s is bound to %s but receipt went to %s", where, x.OriginTx.Contract, x.ClassId, old, r.BatchDenom))
			}
			m.nontrivial.add(e.K(fmt.Sprintf("receive-existing|%s|%s|%d", x.ClassId, x.OriginTx.Contract, t.Step)))
		} else {
			if _, existed := pre.BatchByDenom[r.BatchDenom]; existed {
				e.Violate("C13", "contract-binding-new", fmt.Sprintf("%s: first receipt for contract %s minted into pre-existing batch %s", where, x.OriginTx.Contract, r.BatchDenom))
			}
			m.bound[k] = r.BatchDenom
			m.nontrivial.add(fmt.Sprintf("receive-new|%s|%s", x.ClassId, x.OriginTx.Contract))
		}
		// the recipient received exactly the amount, in the response's batch
		if b := post.BatchByDenom[r.BatchDenom]; b != nil {
			amt := ref.MustDec(x.Batch.Amount)
			t0, _, _ := pre.BalOf(x.Batch.Recipient, b.Key)
			t1, _, _ := post.BalOf(x.Batch.Recipient, b.Key)
			if amt != nil && !eq(sub(t1, t0), amt) {
				e.Violate("C13", "receive-amount", fmt.Sprintf("%s: recipient tradable rose by %s, bridged amount %s", where, rs(sub(t1, t0)), rs(amt)))
			}
			if c := post.ClassOfBatch(b); c == nil || c.Id != x.ClassId {
				e.Violate("C13", "receive-class", fmt.Sprintf("%s: receipt for class %s went to batch %s of another class", where, x.ClassId, r.BatchDenom))
			}
		} else {
			e.Violate("C13", "receive-batch-missing", fmt.Sprintf("%s: response names batch %s which does not exist", where, r.BatchDenom))
		}
		if len(m.samples) < 3 {
			m.samples = append(m.samples, map[string]interface{}{"kind": "bridge_receive", "class": x.ClassId, "origin_id": x.OriginTx.Id, "source": x.OriginTx.Source, "contract": x.OriginTx.Contract, "batch": r.BatchDenom})
		}
	case *basetypes.MsgBridge:
		m.bridges++
		if !pre.BridgeChains[strings.ToLower(x.Target)] || !preAllowed[strings.ToLower(x.Target)] {
			e.Violate("C13", "target-not-allowed", fmt.Sprintf("%s: Bridge to target %q succeeded but it is not an allowed bridge chain", where, x.Target))
		}
		type ev struct{ contract, amount, denom string }
		var evs []ev
		for _, a := range t.Events {
			if a.Type == "regen.ecocredit.v1.EventBridge" {
				var x ev
				for _, at := range a.Attributes {
					val := strings.Trim(at.Value, `"`)
					switch at.Key {
					case "contract":
						x.contract = val
					case "amount":
						x.amount = val
					case "batch_denom":
						x.denom = val
					}
				}
				evs = append(evs, x)
			}
		}
		if len(evs) != len(x.Credits) {
			e.Violate("C13", "bridge-events", fmt.Sprintf("%s: %d EventBridge for %d credits", where, len(evs), len(x.Credits)))
		}
		accum := map[string]*ratAcc{}
		for i, c := range x.Credits {
			b := pre.BatchByDenom[c.BatchDenom]
			if b == nil {
				e.Violate("C13", "bridge-unknown-batch", where+": Bridge of unknown batch succeeded")
				continue
			}
			bc := pre.ContractOf[b.Key]
			if bc == nil {
				e.Violate("C13", "bridge-no-contract", fmt.Sprintf("%s: Bridge of %s succeeded but the batch has no bound contract", where, c.BatchDenom))
			} else if i < len(evs) && (evs[i].contract != bc.Contract || evs[i].denom != c.BatchDenom) {
				e.Violate("C13", "bridge-event-contract", fmt.Sprintf("%s: EventBridge reports contract %q for %s, batch is bound to %q", where, evs[i].contract, evs[i].denom, bc.Contract))
			}
			if accum[c.BatchDenom] == nil {
				accum[c.BatchDenom] = &ratAcc{}
			}
			accum[c.BatchDenom].add(c.Amount)
		}
		for d, a := range accum {
			b := pre.BatchByDenom[d]
			if b == nil || a.r == nil {
				continue
			}
			t0, r0, e0 := pre.BalOf(x.Owner, b.Key)
			t1, r1, e1 := post.BalOf(x.Owner, b.Key)
			sa, sp := pre.Supplies[b.Key], post.Supplies[b.Key]
			if !eq(sub(t0, t1), a.r) || !eq(r0, r1) || !eq(e0, e1) {
				e.Violate("C13", "bridge-cancel-balance", fmt.Sprintf("%s: Bridge of %s %s: owner tradable fell by %s", where, rs(a.r), d, rs(sub(t0, t1))))
			}
			if sa != nil && sp != nil && (!eq(sub(sa.T, sp.T), a.r) || !eq(sub(sp.C, sa.C), a.r) || !eq(sa.R, sp.R)) {
				e.Violate("C13", "bridge-cancel-supply", fmt.Sprintf("%s: Bridge of %s %s: supply tradable fell %s, cancelled rose %s", where, rs(a.r), d, rs(sub(sa.T, sp.T)), rs(sub(sp.C, sa.C))))
			}
		}
		m.nontrivial.add(e.K(fmt.Sprintf("bridge|%s|%d", x.Target, t.Step)))
		if len(m.samples) < 5 {
			m.samples = append(m.samples, map[string]interface{}{"kind": "bridge", "target": x.Target, "credits": len(x.Credits), "events": len(evs)})
		}
	}
}

type ratAcc struct{ r *big.Rat }

func (a *ratAcc) add(s string) {
	q := ref.MustDec(s)
	if q == nil {
		return
	}
	if a.r == nil {
		a.r = new(big.Rat)
	}
	a.r.Add(a.r, q)
}

func (m *C13) Finish(e *eng.Engine, cov map[string]interface{}) {
	cov["evaluations"] = m.issuing + m.bridges + m.replays
	cov["distinct_nontrivial"] = len(m.nontrivial)
	cov["_keys"] = sortedStr(m.nontrivial)
	cov["rule"] = "one evaluation = one issuing message carrying an origin tx (ghost set of consumed (class,id,source)), one BridgeReceive (allowed source, contract binding map) or one Bridge (bound contract, allowed target, exact cancellation, event contract); non-trivial = distinct rejected replay of a consumed origin tx, receipt into an existing/new contract binding, or successful bridge-out"
	cov["issuing_messages_with_origin_tx"] = m.issuing
	cov["replays_of_consumed_origin_tx_rejected"] = m.replays
	cov["bridge_receives_accepted"] = m.receives
	cov["bridges_accepted"] = m.bridges
	cov["allow_list_changes_tracked"] = m.listOps
	cov["casefold_duplicate_issuances"] = m.casefold
	cov["contracts_bound"] = len(m.bound)
	cov["samples"] = m.samples
}

// ---------------------------------------------------------------- C14 identifiers + referential integrity

type C14 struct {
	Base
	classSeq   map[string]uint64 // credit type → next
	projectSeq map[string]uint64 // class id → next
	batchSeq   map[string]uint64 // project id → next
	creations  int
	failedMid  int
	scans      int
	nontrivial strset
	wide       int
	samples    []interface{}
}

func NewC14() *C14 {
	return &C14{Base: Base{"C14"}, classSeq: map[string]uint64{}, projectSeq: map[string]uint64{}, batchSeq: map[string]uint64{}, nontrivial: strset{}}
}

var (
	reClass   = regexp.MustCompile(`^[A-Z]{1,3}[0-9]{2,}$`)
	reProject = regexp.MustCompile(`^[A-Z]{1,3}[0-9]{2,}-[0-9]{3,}$`)
	reBatch   = regexp.MustCompile(`^[A-Z]{1,3}[0-9]{2,}-[0-9]{3,}-[0-9]{8}-[0-9]{8}-[0-9]{3,}$`)
	reBasket  = regexp.MustCompile(`^eco\.[a-zA-Z]{1,4}\.[a-zA-Z][a-zA-Z0-9]{2,7}$`)
)

func fmtClass(ct string, n uint64) string    { return fmt.Sprintf("%s%02d", ct, n) }
func fmtProject(cls string, n uint64) string { return fmt.Sprintf("%s-%03d", cls, n) }
func fmtBatch(prj string, n uint64, s, e time.Time) string {
	return fmt.Sprintf("%s-%s-%s-%03d", prj, s.UTC().Format("20060102"), e.UTC().Format("20060102"), n)
}

func (m *C14) OnGenesis(e *eng.Engine, g map[string]json.RawMessage, s *obs.Snapshot) {
	var eco map[string]json.RawMessage
	if json.Unmarshal(g["ecocredit"], &eco) != nil {
		return
	}
	cid := map[string]string{}
	for _, c := range GenRows(eco[obs.TClass]) {
		cid[gs(c, "key")] = gs(c, "id")
	}
	pid := map[string]string{}
	for _, p := range GenRows(eco[obs.TProject]) {
		pid[gs(p, "key")] = gs(p, "id")
	}
	for _, x := range GenRows(eco[obs.TClassSeq]) {
		m.classSeq[gs(x, "credit_type_abbrev")] = gu(x, "next_sequence")
	}
	for _, x := range GenRows(eco[obs.TProjectSeq]) {
		m.projectSeq[cid[gs(x, "class_key")]] = gu(x, "next_sequence")
	}
	for _, x := range GenRows(eco[obs.TBatchSeq]) {
		m.batchSeq[pid[gs(x, "project_key")]] = gu(x, "next_sequence")
	}
	m.scan(e, s, "genesis")
}

func next(m map[string]uint64, k string) uint64 {
	n, ok := m[k]
	if !ok || n == 0 {
		n = 1
	}
	m[k] = n + 1
	return n
}

func (m *C14) expectProject(e *eng.Engine, where, classID, got string) {
	n := next(m.projectSeq, classID)
	if want := fmtProject(classID, n); got != want {
		e.Violate("C14", "project-id", fmt.Sprintf("%s: created project id %q, expected %q (sequence %d of class %s)", where, got, want, n, classID))
	}
	if n >= 1000 {
		m.wide++
	}
	m.creations++
}

func (m *C14) expectBatch(e *eng.Engine, where, projectID, got string, s, en *time.Time) {
	n := next(m.batchSeq, projectID)
	if s == nil || en == nil {
		return
	}
	if want := fmtBatch(projectID, n, *s, *en); got != want {
		e.Violate("C14", "batch-denom", fmt.Sprintf("%s: created batch denom %q, expected %q (sequence %d of project %s)", where, got, want, n, projectID))
	}
	if n >= 1000 {
		m.wide++
	}
	m.creations++
}

func (m *C14) AfterTx(e *eng.Engine, t *eng.TxRec) {
	where := fmt.Sprintf("tx step %d (%s, ok=%v)", t.Step, t.Tag, t.OK)
	if !t.OK {
		for _, msg := range t.Msgs {
			switch msg.(type) {
			case *basetypes.MsgCreateClass, *basetypes.MsgCreateProject, *basetypes.MsgCreateBatch, *basetypes.MsgBridgeReceive:
				m.failedMid++
			}
		}
	} else if multiWithBridge(t) {
		// a multi-message transaction containing a BridgeReceive: which projects/batches it created
		// cannot be attributed per message from the pre-state; resynchronise the ghost counters from the
		// sequence tables (the scan below still checks every id and reference)
		m.resync(t.Post)
	} else {
		pre := t.Pre.V()
		for i, msg := range t.Msgs {
			switch x := msg.(type) {
			case *basetypes.MsgCreateClass:
				if r, ok := t.Resps[i].(*basetypes.MsgCreateClassResponse); ok {
					n := next(m.classSeq, x.CreditTypeAbbrev)
					if want := fmtClass(x.CreditTypeAbbrev, n); r.ClassId != want {
						e.Violate("C14", "class-id", fmt.Sprintf("%s: created class id %q, expected %q (sequence %d of credit type %s)", where, r.ClassId, want, n, x.CreditTypeAbbrev))
					}
					if n >= 100 {
						m.wide++
					}
					m.creations++
					m.nontrivial.add("class|" + r.ClassId)
				}
			case *basetypes.MsgCreateProject:
				if r, ok := t.Resps[i].(*basetypes.MsgCreateProjectResponse); ok {
					m.expectProject(e, where, x.ClassId, r.ProjectId)
					m.nontrivial.add("project|" + r.ProjectId)
				}
			case *basetypes.MsgCreateBatch:
				if r, ok := t.Resps[i].(*basetypes.MsgCreateBatchResponse); ok {
					m.expectBatch(e, where, x.ProjectId, r.BatchDenom, x.StartDate, x.EndDate)
					m.nontrivial.add("batch|" + r.BatchDenom)
				}
			case *basetypes.MsgBridgeReceive:
				if r, ok := t.Resps[i].(*basetypes.MsgBridgeReceiveResponse); ok && len(t.Msgs) == 1 {
					if _, existed := pre.ProjectByID[r.ProjectId]; !existed {
						m.expectProject(e, where, x.ClassId, r.ProjectId)
					}
					if _, existed := pre.BatchByDenom[r.BatchDenom]; !existed {
						m.expectBatch(e, where, r.ProjectId, r.BatchDenom, x.Batch.StartDate, x.Batch.EndDate)
						m.nontrivial.add("bridged-batch|" + r.BatchDenom)
					}
				} else if ok {
					// multi-message tx: resync ghost counters conservatively from the response
					m.resync(t.Post)
				}
			case *baskettypes.MsgCreate:
				if r, ok := t.Resps[i].(*baskettypes.MsgCreateResponse); ok {
					want := fmt.Sprintf("eco.u%s.%s", x.CreditTypeAbbrev, x.Name)
					if r.BasketDenom != want {
						e.Violate("C14", "basket-denom", fmt.Sprintf("%s: basket denom %q, expected %q", where, r.BasketDenom, want))
					}
				}
			}
		}
	}
	m.scan(e, t.Post, where)
}

func multiWithBridge(t *eng.TxRec) bool {
	if len(t.Msgs) < 2 {
		return false
	}
	for _, msg := range t.Msgs {
		if _, ok := msg.(*basetypes.MsgBridgeReceive); ok {
			return true
		}
	}
	return false
}

func (m *C14) resync(s *obs.Snapshot) {
	v := s.V()
	for k, n := range v.ClassSeq {
		m.classSeq[k] = n
	}
	for k, n := range v.ProjectSeq {
		if c := v.Classes[k]; c != nil {
			m.projectSeq[c.Id] = n
		}
	}
	for k, n := range v.BatchSeq {
		if p := v.Projects[k]; p != nil {
			m.batchSeq[p.Id] = n
		}
	}
}

func (m *C14) AfterBeginBlock(e *eng.Engine, b *eng.BlockRec) {
	m.scan(e, b.Post, fmt.Sprintf("BeginBlock h=%d", b.Height))
}

func (m *C14) scan(e *eng.Engine, s *obs.Snapshot, where string) {
	m.scans++
	v := s.V()
	bad := ScanIDsAndReferences(s)
	if len(bad) > 0 {
		e.Violate("C14", "ids-and-references", where+": "+firstN(bad, 6))
	}
	if len(m.samples) < 3 && len(v.BatchList) > 0 && m.scans%500 == 1 {
		b := v.BatchList[len(v.BatchList)-1]
		m.samples = append(m.samples, map[string]interface{}{"batch_denom": b.Denom, "parsed_project": base.GetProjectIDFromBatchDenom(b.Denom), "parsed_class": base.GetClassIDFromBatchDenom(b.Denom), "classes": len(v.ClassList), "projects": len(v.ProjectList), "batches": len(v.BatchList)})
	}
}

// ScanIDsAndReferences is C14's scan of one state: identifier formats, uniqueness, parser agreement and
// every stored reference (returns the list of complaints).
func ScanIDsAndReferences(s *obs.Snapshot) []string {
	v := s.V()
	var bad []string
	seen := map[string]bool{}
	for _, c := range v.ClassList {
		if seen["c"+c.Id] {
			bad = append(bad, "duplicate class id "+c.Id)
		}
		seen["c"+c.Id] = true
		if !reClass.MatchString(c.Id) {
			bad = append(bad, "class id "+c.Id+" does not match the documented format")
		}
		if err := base.ValidateClassID(c.Id); err != nil {
			bad = append(bad, "class id "+c.Id+" rejected by the chain's validator")
		}
		if got := base.GetCreditTypeAbbrevFromClassID(c.Id); got != c.CreditTypeAbbrev {
			bad = append(bad, fmt.Sprintf("GetCreditTypeAbbrevFromClassID(%s)=%q, stored credit type %q", c.Id, got, c.CreditTypeAbbrev))
		}
		if v.CreditTypes[c.CreditTypeAbbrev] == nil {
			bad = append(bad, "class "+c.Id+" references missing credit type "+c.CreditTypeAbbrev)
		}
	}
	for k := range v.Issuers {
		if v.Classes[k] == nil {
			bad = append(bad, fmt.Sprintf("issuer row references missing class key %d", k))
		}
	}
	for _, p := range v.ProjectList {
		if seen["p"+p.Id] {
			bad = append(bad, "duplicate project id "+p.Id)
		}
		seen["p"+p.Id] = true
		if !reProject.MatchString(p.Id) {
			bad = append(bad, "project id "+p.Id+" does not match the documented format")
		}
		if err := base.ValidateProjectID(p.Id); err != nil {
			bad = append(bad, "project id "+p.Id+" rejected by the chain's validator")
		}
		c := v.Classes[p.ClassKey]
		if c == nil {
			bad = append(bad, fmt.Sprintf("project %s references missing class key %d", p.Id, p.ClassKey))
		} else if got := base.GetClassIDFromProjectID(p.Id); got != c.Id {
			bad = append(bad, fmt.Sprintf("GetClassIDFromProjectID(%s)=%q, project's class is %q", p.Id, got, c.Id))
		}
	}
	for _, b := range v.BatchList {
		if seen["b"+b.Denom] {
			bad = append(bad, "duplicate batch denom "+b.Denom)
		}
		seen["b"+b.Denom] = true
		if !reBatch.MatchString(b.Denom) {
			bad = append(bad, "batch denom "+b.Denom+" does not match the documented format")
		}
		if err := base.ValidateBatchDenom(b.Denom); err != nil {
			bad = append(bad, "batch denom "+b.Denom+" rejected by the chain's validator")
		}
		p := v.Projects[b.ProjectKey]
		if p == nil {
			bad = append(bad, fmt.Sprintf("batch %s references missing project key %d", b.Denom, b.ProjectKey))
			continue
		}
		if got := base.GetProjectIDFromBatchDenom(b.Denom); got != p.Id {
			bad = append(bad, fmt.Sprintf("GetProjectIDFromBatchDenom(%s)=%q, batch's project is %q", b.Denom, got, p.Id))
		}
		if c := v.Classes[p.ClassKey]; c != nil {
			if got := base.GetClassIDFromBatchDenom(b.Denom); got != c.Id {
				bad = append(bad, fmt.Sprintf("GetClassIDFromBatchDenom(%s)=%q, batch's class is %q", b.Denom, got, c.Id))
			}
		}
		if b.ClassKey != 0 && v.Classes[b.ClassKey] == nil {
			bad = append(bad, fmt.Sprintf("batch %s references missing class key %d", b.Denom, b.ClassKey))
		}
		if v.Supplies[b.Key] == nil {
			bad = append(bad, "batch "+b.Denom+" has no supply row")
		}
	}
	for k := range v.Supplies {
		if v.Batches[k] == nil {
			bad = append(bad, fmt.Sprintf("supply row references missing batch key %d", k))
		}
	}
	for k := range v.Balances {
		if v.Batches[k.BatchKey] == nil {
			bad = append(bad, fmt.Sprintf("balance row of %s references missing batch key %d", k.Addr, k.BatchKey))
		}
	}
	for _, c := range v.Contracts {
		if v.Batches[c.BatchKey] == nil {
			bad = append(bad, fmt.Sprintf("contract row references missing batch key %d", c.BatchKey))
		}
		if v.Classes[c.ClassKey] == nil {
			bad = append(bad, fmt.Sprintf("contract row references missing class key %d", c.ClassKey))
		}
	}
	for _, o := range v.OriginTxs {
		if v.Classes[o.ClassKey] == nil {
			bad = append(bad, fmt.Sprintf("origin tx row references missing class key %d", o.ClassKey))
		}
	}
	for k := range v.ProjectSeq {
		if v.Classes[k] == nil {
			bad = append(bad, fmt.Sprintf("project sequence references missing class key %d", k))
		}
	}
	for k := range v.BatchSeq {
		if v.Projects[k] == nil {
			bad = append(bad, fmt.Sprintf("batch sequence references missing project key %d", k))
		}
	}
	for _, o := range v.OrderList {
		if v.Batches[o.BatchKey] == nil {
			bad = append(bad, fmt.Sprintf("sell order %d references missing batch key %d", o.Id, o.BatchKey))
		}
		if v.Markets[o.MarketId] == nil {
			bad = append(bad, fmt.Sprintf("sell order %d references missing market %d", o.Id, o.MarketId))
		} else if b := v.Batches[o.BatchKey]; b != nil {
			// the reference must resolve to ITS market: the one of the batch's credit type
			if cl := v.ClassOfBatch(b); cl != nil && cl.CreditTypeAbbrev != v.Markets[o.MarketId].CreditTypeAbbrev {
				bad = append(bad, fmt.Sprintf("sell order %d for batch %s (credit type %s) references market %d of credit type %s", o.Id, b.Denom, cl.CreditTypeAbbrev, o.MarketId, v.Markets[o.MarketId].CreditTypeAbbrev))
			}
		}
	}
	for _, mk := range v.Markets {
		if v.CreditTypes[mk.CreditTypeAbbrev] == nil {
			bad = append(bad, fmt.Sprintf("market %d references missing credit type %s", mk.Id, mk.CreditTypeAbbrev))
		}
	}
	for _, bk := range v.BasketList {
		if seen["k"+bk.BasketDenom] {
			bad = append(bad, "duplicate basket denom "+bk.BasketDenom)
		}
		seen["k"+bk.BasketDenom] = true
		if !reBasket.MatchString(bk.BasketDenom) {
			bad = append(bad, "basket denom "+bk.BasketDenom+" does not match the documented format")
		}
		if v.CreditTypes[bk.CreditTypeAbbrev] == nil {
			bad = append(bad, "basket "+bk.BasketDenom+" references missing credit type")
		}
	}
	for id, cs := range v.BasketClasses {
		if v.Baskets[id] == nil {
			bad = append(bad, fmt.Sprintf("basket class row references missing basket %d", id))
		}
		for c := range cs {
			if v.ClassByID[c] == nil {
				bad = append(bad, fmt.Sprintf("basket class row references missing class %s", c))
			}
		}
	}
	for _, bb := range v.BasketBalList {
		if v.Baskets[bb.BasketId] == nil {
			bad = append(bad, fmt.Sprintf("basket balance references missing basket %d", bb.BasketId))
		}
		if v.BatchByDenom[bb.BatchDenom] == nil {
			bad = append(bad, "basket balance references missing batch "+bb.BatchDenom)
		}
	}
	return bad
}

func (m *C14) Finish(e *eng.Engine, cov map[string]interface{}) {
	cov["evaluations"] = m.scans
	cov["distinct_nontrivial"] = len(m.nontrivial)
	cov["_keys"] = sortedStr(m.nontrivial)
	cov["rule"] = "one evaluation = full scan after genesis, every BeginBlock and every DeliverTx (uniqueness, documented regex AND the chain's validator, parser round trip against the referenced rows, every foreign key); every successful creation's returned id is compared with the documented format applied to a ghost counter advanced only by successful creations; non-trivial = distinct successfully created class / project / batch id checked against the ghost counter"
	cov["creations_checked_against_ghost_counters"] = m.creations
	cov["failed_creations_interleaved"] = m.failedMid
	cov["sequence_numbers_beyond_padding_width"] = m.wide
	cov["samples"] = m.samples
}
