package mon

import (
	"fmt"
	"strings"

	sdk "github.com/cosmos/cosmos-sdk/types"
	"google.golang.org/protobuf/proto"
	"google.golang.org/protobuf/reflect/protoreflect"

	dataapi "github.com/regen-network/regen-ledger/api/v2/regen/data/v1"
	basketapi "github.com/regen-network/regen-ledger/api/v2/regen/ecocredit/basket/v1"
	marketapi "github.com/regen-network/regen-ledger/api/v2/regen/ecocredit/marketplace/v1"
	baseapi "github.com/regen-network/regen-ledger/api/v2/regen/ecocredit/v1"
	"github.com/regen-network/regen-ledger/x/data/v3"
	basetypes "github.com/regen-network/regen-ledger/x/ecocredit/v3/base/types/v1"
	baskettypes "github.com/regen-network/regen-ledger/x/ecocredit/v3/basket/types/v1"
	markettypes "github.com/regen-network/regen-ledger/x/ecocredit/v3/marketplace/types/v1"

	"verifharness/eng"
	"verifharness/obs"
)

// C08: role predicate table on the pre-state + write-set containment + sealed batches stay sealed.
type C08 struct {
	Base
	Gov     string
	checked int
	cells   map[string]*[2]int // "msg|relation" → [accepted, rejected]
	former  map[string]strset  // "role/entity" → former holders
	sealed  int
	samples []interface{}
}

func NewC08(gov string) *C08 {
	return &C08{Base: Base{"C08"}, Gov: gov, cells: map[string]*[2]int{}, former: map[string]strset{}}
}

// role describes what a message requires, evaluated on the pre-state.
type role struct {
	gated   bool
	holds   bool   // signer holds the required role (and the extra state condition) in the pre-state
	why     string // for messages
	roleKey string // role/entity key for former-holder tracking
	holders []string
	else_   bool // signer holds the same role on a different entity
}

func lower(s string) string { return strings.ToLower(s) }

func (m *C08) roleOf(v *obs.View, msg sdk.Msg) role {
	gov := func(authority string) role {
		return role{gated: true, holds: authority == m.Gov, why: "governance authority", roleKey: "gov", holders: []string{m.Gov}}
	}
	classAdmin := func(signer, classID string) role {
		c := v.ClassByID[classID]
		if c == nil {
			return role{gated: true, holds: false, why: "class admin (class does not exist)"}
		}
		r := role{gated: true, holds: obs.Addr(c.Admin) == signer, why: "class admin", roleKey: "class-admin/" + classID, holders: []string{obs.Addr(c.Admin)}}
		for _, o := range v.ClassList {
			if o.Id != classID && obs.Addr(o.Admin) == signer {
				r.else_ = true
			}
		}
		return r
	}
	classIssuer := func(signer string, c *baseapi.Class) role {
		if c == nil {
			return role{gated: true, holds: false, why: "class issuer (class does not exist)"}
		}
		r := role{gated: true, holds: v.Issuers[c.Key][signer], why: "class issuer", roleKey: "class-issuer/" + c.Id, holders: sortedStr(v.Issuers[c.Key])}
		for k, is := range v.Issuers {
			if k != c.Key && is[signer] {
				r.else_ = true
			}
		}
		return r
	}
	batchIssuer := func(signer, denom string, needOpen bool) role {
		b := v.BatchByDenom[denom]
		if b == nil {
			return role{gated: true, holds: false, why: "batch issuer (batch does not exist)"}
		}
		r := role{gated: true, holds: obs.Addr(b.Issuer) == signer && (!needOpen || b.Open), why: "batch issuer", roleKey: "batch-issuer/" + denom, holders: []string{obs.Addr(b.Issuer)}}
		if needOpen {
			r.why = "batch issuer of an open batch"
		}
		for _, o := range v.BatchList {
			if o.Denom != denom && obs.Addr(o.Issuer) == signer {
				r.else_ = true
			}
		}
		return r
	}
	projectAdmin := func(signer, id string) role {
		p := v.ProjectByID[id]
		if p == nil {
			return role{gated: true, holds: false, why: "project admin (project does not exist)"}
		}
		r := role{gated: true, holds: obs.Addr(p.Admin) == signer, why: "project admin", roleKey: "project-admin/" + id, holders: []string{obs.Addr(p.Admin)}}
		for _, o := range v.ProjectList {
			if o.Id != id && obs.Addr(o.Admin) == signer {
				r.else_ = true
			}
		}
		return r
	}
	switch x := msg.(type) {
	case *basetypes.MsgCreateClass:
		if !v.Allowlist {
			return role{}
		}
		return role{gated: true, holds: v.Creators[x.Admin], why: "allow-listed class creator", roleKey: "creator", holders: sortedStr(v.Creators)}
	case *basetypes.MsgCreateProject:
		return classIssuer(x.Admin, v.ClassByID[x.ClassId])
	case *basetypes.MsgCreateBatch:
		p := v.ProjectByID[x.ProjectId]
		if p == nil {
			return role{gated: true, holds: false, why: "class issuer (project does not exist)"}
		}
		return classIssuer(x.Issuer, v.Classes[p.ClassKey])
	case *basetypes.MsgMintBatchCredits:
		return batchIssuer(x.Issuer, x.BatchDenom, true)
	case *basetypes.MsgSealBatch:
		return batchIssuer(x.Issuer, x.BatchDenom, false)
	case *basetypes.MsgUpdateBatchMetadata:
		return batchIssuer(x.Issuer, x.BatchDenom, true)
	case *basetypes.MsgBridgeReceive:
		c := v.ClassByID[x.ClassId]
		if c != nil && x.OriginTx != nil {
			for _, bc := range v.Contracts {
				if bc.ClassKey == c.Key && bc.Contract == x.OriginTx.Contract {
					if b := v.Batches[bc.BatchKey]; b != nil {
						return batchIssuer(x.Issuer, b.Denom, true)
					}
				}
			}
		}
		return classIssuer(x.Issuer, c)
	case *basetypes.MsgUpdateClassAdmin:
		return classAdmin(x.Admin, x.ClassId)
	case *basetypes.MsgUpdateClassIssuers:
		return classAdmin(x.Admin, x.ClassId)
	case *basetypes.MsgUpdateClassMetadata:
		return classAdmin(x.Admin, x.ClassId)
	case *basetypes.MsgUpdateProjectAdmin:
		return projectAdmin(x.Admin, x.ProjectId)
	case *basetypes.MsgUpdateProjectMetadata:
		return projectAdmin(x.Admin, x.ProjectId)
	case *basetypes.MsgAddCreditType:
		return gov(x.Authority)
	case *basetypes.MsgSetClassCreatorAllowlist:
		return gov(x.Authority)
	case *basetypes.MsgAddClassCreator:
		return gov(x.Authority)
	case *basetypes.MsgRemoveClassCreator:
		return gov(x.Authority)
	case *basetypes.MsgUpdateClassFee:
		return gov(x.Authority)
	case *basetypes.MsgAddAllowedBridgeChain:
		return gov(x.Authority)
	case *basetypes.MsgRemoveAllowedBridgeChain:
		return gov(x.Authority)
	case *baskettypes.MsgUpdateBasketFee:
		return gov(x.Authority)
	case *baskettypes.MsgUpdateDateCriteria:
		return gov(x.Authority)
	case *markettypes.MsgAddAllowedDenom:
		return gov(x.Authority)
	case *markettypes.MsgRemoveAllowedDenom:
		return gov(x.Authority)
	case *markettypes.MsgGovSetFeeParams:
		return gov(x.Authority)
	case *markettypes.MsgGovSendFromFeePool:
		return gov(x.Authority)
	case *baskettypes.MsgUpdateCurator:
		b := v.BasketByDenom[x.Denom]
		if b == nil {
			return role{gated: true, why: "basket curator (basket does not exist)"}
		}
		r := role{gated: true, holds: obs.Addr(b.Curator) == x.Curator, why: "basket curator", roleKey: "curator/" + x.Denom, holders: []string{obs.Addr(b.Curator)}}
		for _, o := range v.BasketList {
			if o.BasketDenom != x.Denom && obs.Addr(o.Curator) == x.Curator {
				r.else_ = true
			}
		}
		return r
	case *markettypes.MsgUpdateSellOrders:
		r := role{gated: true, holds: true, why: "sell order owner", roleKey: "seller"}
		for _, u := range x.Updates {
			o := v.Orders[u.SellOrderId]
			if o == nil || obs.Addr(o.Seller) != x.Seller {
				r.holds = false
			}
		}
		for _, o := range v.OrderList {
			if obs.Addr(o.Seller) == x.Seller {
				r.else_ = true
			}
		}
		return r
	case *markettypes.MsgCancelSellOrder:
		o := v.Orders[x.SellOrderId]
		r := role{gated: true, holds: o != nil && obs.Addr(o.Seller) == x.Seller, why: "sell order owner", roleKey: "seller"}
		for _, o2 := range v.OrderList {
			if obs.Addr(o2.Seller) == x.Seller && o2.Id != x.SellOrderId {
				r.else_ = true
			}
		}
		return r
	case *data.MsgRegisterResolver:
		rs := v.Resolvers[x.ResolverId]
		if rs == nil {
			return role{gated: true, why: "resolver manager (resolver does not exist)"}
		}
		r := role{gated: true, holds: len(rs.Manager) == 0 || obs.Addr(rs.Manager) == x.Signer, why: "resolver manager or public resolver", roleKey: fmt.Sprintf("resolver/%d", x.ResolverId), holders: []string{obs.Addr(rs.Manager)}}
		for _, o := range v.ResolverList {
			if o.Id != x.ResolverId && obs.Addr(o.Manager) == x.Signer {
				r.else_ = true
			}
		}
		return r
	}
	return role{}
}

func signerOf(msg sdk.Msg) string {
	defer func() { recover() }()
	s := msg.GetSigners()
	if len(s) == 1 {
		return s[0].String()
	}
	return ""
}

// sameExcept reports whether two rows are equal after copying the listed fields from b into a.
func sameExcept(a, b proto.Message, fields ...string) bool {
	if a == nil || b == nil {
		return false
	}
	c := proto.Clone(a)
	cr, br := c.ProtoReflect(), b.ProtoReflect()
	for _, f := range fields {
		fd := cr.Descriptor().Fields().ByName(protoreflect.Name(f))
		if fd == nil {
			return false
		}
		if br.Has(fd) {
			cr.Set(fd, br.Get(fd))
		} else {
			cr.Clear(fd)
		}
	}
	return proto.Equal(c, b)
}

func (m *C08) writeSet(e *eng.Engine, t *eng.TxRec, where string) {
	pre := t.Pre.V()
	msg := t.Msgs[0]
	changes := obs.DiffTables(t.Pre, t.Post)
	bank := obs.DiffBank(t.Pre, t.Post)
	bad := func(ch obs.RowChange, why string) {
		e.Violate("C08", "write-set", fmt.Sprintf("%s: %s changed %s[%s] (%s)", where, msgName(msg), ch.Table, ch.PK, why))
	}
	bankAllowed := map[string]bool{}
	var ok func(ch obs.RowChange) string // "" = allowed, else reason
	insertOnly := func(ch obs.RowChange) bool { return ch.Before == nil }
	switch x := msg.(type) {
	case *basetypes.MsgUpdateClassAdmin:
		ok = func(ch obs.RowChange) string {
			if ch.Table == obs.TClass && ch.Before != nil && ch.After != nil && ch.Before.(*baseapi.Class).Id == x.ClassId && sameExcept(ch.Before, ch.After, "admin") {
				return ""
			}
			return "only the admin of class " + x.ClassId + " may change"
		}
	case *basetypes.MsgUpdateClassMetadata:
		ok = func(ch obs.RowChange) string {
			if ch.Table == obs.TClass && ch.Before != nil && ch.After != nil && ch.Before.(*baseapi.Class).Id == x.ClassId && sameExcept(ch.Before, ch.After, "metadata") {
				return ""
			}
			return "only the metadata of class " + x.ClassId + " may change"
		}
	case *basetypes.MsgUpdateClassIssuers:
		c := pre.ClassByID[x.ClassId]
		ok = func(ch obs.RowChange) string {
			if ch.Table == obs.TClassIssuer && c != nil {
				var r *baseapi.ClassIssuer
				if ch.Before != nil {
					r = ch.Before.(*baseapi.ClassIssuer)
				} else {
					r = ch.After.(*baseapi.ClassIssuer)
				}
				if r.ClassKey == c.Key {
					return ""
				}
			}
			return "only issuer rows of class " + x.ClassId + " may change"
		}
	case *basetypes.MsgUpdateProjectAdmin:
		ok = func(ch obs.RowChange) string {
			if ch.Table == obs.TProject && ch.Before != nil && ch.After != nil && ch.Before.(*baseapi.Project).Id == x.ProjectId && sameExcept(ch.Before, ch.After, "admin") {
				return ""
			}
			return "only the admin of project " + x.ProjectId + " may change"
		}
	case *basetypes.MsgUpdateProjectMetadata:
		ok = func(ch obs.RowChange) string {
			if ch.Table == obs.TProject && ch.Before != nil && ch.After != nil && ch.Before.(*baseapi.Project).Id == x.ProjectId && sameExcept(ch.Before, ch.After, "metadata") {
				return ""
			}
			return "only the metadata of project " + x.ProjectId + " may change"
		}
	case *basetypes.MsgSealBatch:
		ok = func(ch obs.RowChange) string {
			if ch.Table == obs.TBatch && ch.Before != nil && ch.After != nil {
				b, a := ch.Before.(*baseapi.Batch), ch.After.(*baseapi.Batch)
				if b.Denom == x.BatchDenom && b.Open && !a.Open && sameExcept(ch.Before, ch.After, "open") {
					return ""
				}
			}
			return "only open true->false of batch " + x.BatchDenom + " may change"
		}
	case *basetypes.MsgUpdateBatchMetadata:
		ok = func(ch obs.RowChange) string {
			if ch.Table == obs.TBatch && ch.Before != nil && ch.After != nil && ch.Before.(*baseapi.Batch).Denom == x.BatchDenom && sameExcept(ch.Before, ch.After, "metadata") {
				return ""
			}
			return "only the metadata of batch " + x.BatchDenom + " may change"
		}
	case *basetypes.MsgMintBatchCredits:
		b := pre.BatchByDenom[x.BatchDenom]
		rec := map[string]bool{}
		for _, i := range x.Issuance {
			rec[i.Recipient] = true
		}
		ok = func(ch obs.RowChange) string {
			if b == nil {
				return "batch unknown"
			}
			switch ch.Table {
			case obs.TBatchBalance:
				var r *baseapi.BatchBalance
				if ch.After != nil {
					r = ch.After.(*baseapi.BatchBalance)
				} else {
					return "balance row deleted"
				}
				if r.BatchKey == b.Key && rec[obs.Addr(r.Address)] {
					return ""
				}
			case obs.TBatchSupply:
				if ch.Before != nil && ch.After != nil && ch.After.(*baseapi.BatchSupply).BatchKey == b.Key {
					return ""
				}
			case obs.TOriginTx:
				if insertOnly(ch) {
					r := ch.After.(*baseapi.OriginTxIndex)
					if x.OriginTx != nil && r.Id == x.OriginTx.Id && r.Source == x.OriginTx.Source {
						return ""
					}
				}
			}
			return "mint may only touch recipients' balances of the batch, its supply and the origin tx index"
		}
	case *basetypes.MsgCreateProject:
		c := pre.ClassByID[x.ClassId]
		ok = func(ch obs.RowChange) string {
			switch ch.Table {
			case obs.TProject:
				if insertOnly(ch) {
					return ""
				}
			case obs.TProjectSeq:
				if c != nil && ch.After != nil && ch.After.(*baseapi.ProjectSequence).ClassKey == c.Key {
					return ""
				}
			}
			return "create project may only insert a project and advance the class's project sequence"
		}
	case *basetypes.MsgCreateBatch:
		p := pre.ProjectByID[x.ProjectId]
		ok = func(ch obs.RowChange) string {
			switch ch.Table {
			case obs.TBatch, obs.TBatchSupply, obs.TBatchBalance, obs.TOriginTx, obs.TBatchContract:
				if insertOnly(ch) {
					return ""
				}
			case obs.TBatchSeq:
				if p != nil && ch.After != nil && ch.After.(*baseapi.BatchSequence).ProjectKey == p.Key {
					return ""
				}
			}
			return "create batch may only insert rows of the new batch and advance the project's batch sequence"
		}
	case *basetypes.MsgCreateClass:
		bankAllowed[x.Admin] = true
		ok = func(ch obs.RowChange) string {
			switch ch.Table {
			case obs.TClass, obs.TClassIssuer:
				if insertOnly(ch) {
					return ""
				}
			case obs.TClassSeq:
				if ch.After != nil && ch.After.(*baseapi.ClassSequence).CreditTypeAbbrev == x.CreditTypeAbbrev {
					return ""
				}
			}
			return "create class may only insert the class, its issuers and advance the credit type's class sequence"
		}
	case *basetypes.MsgBridgeReceive:
		ok = func(ch obs.RowChange) string {
			switch ch.Table {
			case obs.TProject, obs.TBatch, obs.TBatchContract, obs.TOriginTx:
				if insertOnly(ch) {
					return ""
				}
			case obs.TProjectSeq, obs.TBatchSeq, obs.TBatchSupply:
				return ""
			case obs.TBatchBalance:
				if ch.After != nil && obs.Addr(ch.After.(*baseapi.BatchBalance).Address) == x.Batch.Recipient {
					return ""
				}
			}
			return "bridge receive may only create project/batch rows or mint to the recipient"
		}
	case *baskettypes.MsgUpdateCurator:
		ok = func(ch obs.RowChange) string {
			if ch.Table == obs.TBasket && ch.Before != nil && ch.After != nil && ch.Before.(*basketapi.Basket).BasketDenom == x.Denom && sameExcept(ch.Before, ch.After, "curator") {
				return ""
			}
			return "only the curator of basket " + x.Denom + " may change"
		}
	case *baskettypes.MsgUpdateDateCriteria:
		ok = func(ch obs.RowChange) string {
			if ch.Table == obs.TBasket && ch.Before != nil && ch.After != nil && ch.Before.(*basketapi.Basket).BasketDenom == x.Denom && sameExcept(ch.Before, ch.After, "date_criteria") {
				return ""
			}
			return "only the date criteria of basket " + x.Denom + " may change"
		}
	case *markettypes.MsgUpdateSellOrders:
		ids := map[uint64]bool{}
		bal := map[sb]bool{}
		for _, u := range x.Updates {
			ids[u.SellOrderId] = true
			if o := pre.Orders[u.SellOrderId]; o != nil {
				bal[sb{obs.Addr(o.Seller), o.BatchKey}] = true
			}
		}
		ok = func(ch obs.RowChange) string {
			switch ch.Table {
			case obs.TSellOrder:
				if ch.Before != nil && ch.After != nil && ids[ch.Before.(*marketapi.SellOrder).Id] {
					if sameExcept(ch.Before, ch.After, "quantity", "market_id", "ask_amount", "disable_auto_retire", "expiration", "maker") {
						return ""
					}
					return "an update may not change seller, batch or id of the order"
				}
			case obs.TBatchBalance:
				if ch.Before != nil && ch.After != nil {
					r := ch.After.(*baseapi.BatchBalance)
					if bal[sb{obs.Addr(r.Address), r.BatchKey}] && sameExcept(ch.Before, ch.After, "tradable_amount", "escrowed_amount") {
						return ""
					}
				}
			case obs.TMarket:
				if insertOnly(ch) {
					return ""
				}
			}
			return "update sell orders may only touch the named orders, the seller's balance in their batches and new markets"
		}
	case *markettypes.MsgCancelSellOrder:
		o := pre.Orders[x.SellOrderId]
		ok = func(ch obs.RowChange) string {
			if o == nil {
				return "order unknown"
			}
			switch ch.Table {
			case obs.TSellOrder:
				if ch.After == nil && ch.Before.(*marketapi.SellOrder).Id == x.SellOrderId {
					return ""
				}
			case obs.TBatchBalance:
				if ch.Before != nil && ch.After != nil {
					r := ch.After.(*baseapi.BatchBalance)
					if obs.Addr(r.Address) == obs.Addr(o.Seller) && r.BatchKey == o.BatchKey && sameExcept(ch.Before, ch.After, "tradable_amount", "escrowed_amount") {
						return ""
					}
				}
			}
			return "cancel may only delete the order and unescrow the seller's credits of its batch"
		}
	case *data.MsgRegisterResolver:
		ok = func(ch obs.RowChange) string {
			switch ch.Table {
			case obs.TDataResolver:
				if insertOnly(ch) && ch.After.(*dataapi.DataResolver).ResolverId == x.ResolverId {
					return ""
				}
			case obs.TDataID, obs.TDataAnchor:
				if insertOnly(ch) {
					return ""
				}
			}
			return "register may only add registrations of that resolver and anchor data not anchored before"
		}
	case *basetypes.MsgAddCreditType:
		ok = func(ch obs.RowChange) string {
			if ch.Table == obs.TCreditType && insertOnly(ch) && ch.After.(*baseapi.CreditType).Abbreviation == x.CreditType.Abbreviation {
				return ""
			}
			return "only the new credit type row"
		}
	case *basetypes.MsgSetClassCreatorAllowlist:
		ok = tableOnly(obs.TAllowlist)
	case *basetypes.MsgAddClassCreator:
		ok = func(ch obs.RowChange) string {
			if ch.Table == obs.TAllowedCreator && insertOnly(ch) && obs.Addr(ch.After.(*baseapi.AllowedClassCreator).Address) == x.Creator {
				return ""
			}
			return "only that creator's row"
		}
	case *basetypes.MsgRemoveClassCreator:
		ok = func(ch obs.RowChange) string {
			if ch.Table == obs.TAllowedCreator && ch.After == nil && obs.Addr(ch.Before.(*baseapi.AllowedClassCreator).Address) == x.Creator {
				return ""
			}
			return "only that creator's row"
		}
	case *basetypes.MsgUpdateClassFee:
		ok = tableOnly(obs.TClassFee)
	case *basetypes.MsgAddAllowedBridgeChain:
		ok = func(ch obs.RowChange) string {
			if ch.Table == obs.TBridgeChain && insertOnly(ch) && ch.After.(*baseapi.AllowedBridgeChain).ChainName == lower(x.ChainName) {
				return ""
			}
			return "only that chain's row"
		}
	case *basetypes.MsgRemoveAllowedBridgeChain:
		ok = func(ch obs.RowChange) string {
			if ch.Table == obs.TBridgeChain && ch.After == nil && ch.Before.(*baseapi.AllowedBridgeChain).ChainName == lower(x.ChainName) {
				return ""
			}
			return "only that chain's row"
		}
	case *baskettypes.MsgUpdateBasketFee:
		ok = tableOnly(obs.TBasketFee)
	case *markettypes.MsgAddAllowedDenom:
		ok = func(ch obs.RowChange) string {
			if ch.Table == obs.TAllowedDenom && insertOnly(ch) && ch.After.(*marketapi.AllowedDenom).BankDenom == x.BankDenom {
				return ""
			}
			return "only that denom's row"
		}
	case *markettypes.MsgRemoveAllowedDenom:
		ok = func(ch obs.RowChange) string {
			if ch.Table == obs.TAllowedDenom && ch.After == nil && ch.Before.(*marketapi.AllowedDenom).BankDenom == x.Denom {
				return ""
			}
			return "only that denom's row"
		}
	case *markettypes.MsgGovSetFeeParams:
		ok = tableOnly(obs.TFeeParams)
	case *markettypes.MsgGovSendFromFeePool:
		bankAllowed[FeePool()] = true
		bankAllowed[x.Recipient] = true
		ok = func(ch obs.RowChange) string { return "fee pool send may not change any table" }
	default:
		return
	}
	for _, ch := range changes {
		if why := ok(ch); why != "" {
			bad(ch, why)
		}
	}
	for _, c := range bank {
		if !bankAllowed[c.Addr] {
			e.Violate("C08", "write-set-bank", fmt.Sprintf("%s: %s changed the bank balance of %s in %s", where, msgName(msg), c.Addr, c.Denom))
		}
	}
}

func tableOnly(name string) func(obs.RowChange) string {
	return func(ch obs.RowChange) string {
		if ch.Table == name {
			return ""
		}
		return "only table " + name + " may change"
	}
}

func (m *C08) AfterTx(e *eng.Engine, t *eng.TxRec) {
	where := fmt.Sprintf("tx step %d (%s, ok=%v)", t.Step, t.Tag, t.OK)
	m.sealedCheck(e, t.Pre, t.Post, where)
	if len(t.Msgs) != 1 {
		return
	}
	msg := t.Msgs[0]
	pre := t.Pre.V()
	r := m.roleOf(pre, msg)
	if !r.gated {
		return
	}
	m.checked++
	signer := signerOf(msg)
	// relation of the signer to the role
	rel := "stranger"
	switch {
	case r.holds:
		rel = "current-holder"
	case signer == m.Gov:
		rel = "authority"
	case r.roleKey != "" && m.former[r.roleKey][signer]:
		rel = "former-holder"
	case r.else_:
		rel = "holder-elsewhere"
	}
	key := msgName(msg) + "|" + rel
	c := m.cells[key]
	if c == nil {
		c = &[2]int{}
		m.cells[key] = c
	}
	if t.OK {
		c[0]++
		if !r.holds {
			e.Violate("C08", "role", fmt.Sprintf("%s: %s succeeded although signer %s is not the %s (holders: %v)", where, msgName(msg), signer, r.why, r.holders))
		}
		m.writeSet(e, t, where)
		m.roleEffect(e, t, where)
		ParamEffect(e, t, "C08", where)
		if len(m.samples) < 3 && rel == "current-holder" {
			m.samples = append(m.samples, map[string]interface{}{"step": t.Step, "msg": eng.MsgJSON(e.App.Cdc, msg), "role": r.why, "relation": rel, "outcome": "accepted"})
		}
	} else {
		c[1]++
		if len(m.samples) < 6 && rel == "former-holder" {
			m.samples = append(m.samples, map[string]interface{}{"step": t.Step, "msg": eng.MsgJSON(e.App.Cdc, msg), "role": r.why, "relation": rel, "outcome": "rejected", "code": t.Res.Code})
		}
	}
	// former-holder tracking from the observed state change
	if t.OK && r.roleKey != "" {
		post := t.Post.V()
		r2 := m.roleOf(post, msg)
		now := map[string]bool{}
		for _, h := range r2.holders {
			now[h] = true
		}
		for _, h := range r.holders {
			if !now[h] && h != "" {
				if m.former[r.roleKey] == nil {
					m.former[r.roleKey] = strset{}
				}
				m.former[r.roleKey].add(h)
			}
		}
	}
	// issuer removal is performed by the admin: track former issuers of that class as well
	if x, ok := msg.(*basetypes.MsgUpdateClassIssuers); ok && t.OK {
		k := "class-issuer/" + x.ClassId
		for _, rm := range x.RemoveIssuers {
			if m.former[k] == nil {
				m.former[k] = strset{}
			}
			m.former[k].add(rm)
		}
	}
}

func (m *C08) AfterBeginBlock(e *eng.Engine, b *eng.BlockRec) {
	m.sealedCheck(e, b.Pre, b.Post, fmt.Sprintf("BeginBlock h=%d", b.Height))
}

func (m *C08) sealedCheck(e *eng.Engine, a, b *obs.Snapshot, where string) {
	pre, post := a.V(), b.V()
	for _, x := range pre.BatchList {
		if x.Open {
			continue
		}
		m.sealed++
		y := post.Batches[x.Key]
		if y == nil {
			e.Violate("C08", "sealed-batch-deleted", fmt.Sprintf("%s: sealed batch %s disappeared", where, x.Denom))
			continue
		}
		if y.Open {
			e.Violate("C08", "sealed-batch-reopened", fmt.Sprintf("%s: sealed batch %s is open again", where, x.Denom))
		}
		if y.Metadata != x.Metadata {
			e.Violate("C08", "sealed-batch-metadata", fmt.Sprintf("%s: metadata of sealed batch %s changed", where, x.Denom))
		}
		sa, sp := pre.Supplies[x.Key], post.Supplies[x.Key]
		if sa != nil && sp != nil && !eq(supTotal(sa), supTotal(sp)) {
			e.Violate("C08", "sealed-batch-minted", fmt.Sprintf("%s: total of sealed batch %s changed %s -> %s", where, x.Denom, rs(supTotal(sa)), rs(supTotal(sp))))
		}
	}
}

func (m *C08) Finish(e *eng.Engine, cov map[string]interface{}) {
	cov["evaluations"] = m.checked
	both := 0
	cells := map[string]map[string]int{}
	for k, c := range m.cells {
		cells[k] = map[string]int{"accepted": c[0], "rejected": c[1]}
		if c[0]+c[1] > 0 {
			both++
		}
	}
	cov["distinct_nontrivial"] = both
	{
		ks := strset{}
		for k := range m.cells {
			ks.add(k)
		}
		cov["_keys"] = sortedStr(ks)
	}
	cov["rule"] = "one evaluation = one role-gated single-message transaction checked against the role predicate table on the pre-state (success ⇒ signer holds the role) and, when accepted, write-set containment of the row-level diff; non-trivial = distinct populated (message type, signer relation ∈ {current-holder, former-holder, holder-elsewhere, stranger, authority}) cell"
	cov["cells"] = cells
	cov["sealed_batch_step_checks"] = m.sealed
	cov["samples"] = m.samples
}

// roleEffect: a successful role-moving message must move exactly the roles it names (otherwise the
// notion of "former role holder" is void: a revoked issuer that silently keeps the role can still act).
func (m *C08) roleEffect(e *eng.Engine, t *eng.TxRec, where string) {
	RoleEffectOf(e, t, "C08", where)
}

// RoleEffectOf is the role / membership effect oracle (also used by C18's configuration sweep).
func RoleEffectOf(e *eng.Engine, t *eng.TxRec, prop, where string) {
	if !t.OK || len(t.Msgs) != 1 {
		return
	}
	pre, post := t.Pre.V(), t.Post.V()
	bad := func(f string, a ...interface{}) {
		e.Violate(prop, "role-change-effect", where+": "+fmt.Sprintf(f, a...))
	}
	switch x := t.Msgs[0].(type) {
	case *basetypes.MsgUpdateClassIssuers:
		c := pre.ClassByID[x.ClassId]
		if c == nil {
			return
		}
		want := map[string]bool{}
		for a := range pre.Issuers[c.Key] {
			want[a] = true
		}
		for _, r := range x.RemoveIssuers {
			delete(want, r)
		}
		for _, a := range x.AddIssuers {
			want[a] = true
		}
		got := post.Issuers[c.Key]
		for a := range want {
			if !got[a] {
				bad("UpdateClassIssuers(%s) succeeded but %s is not an issuer afterwards", x.ClassId, a)
			}
		}
		for a := range got {
			if !want[a] {
				bad("UpdateClassIssuers(%s) succeeded but %s is still (or newly) an issuer although the message removes it / does not add it", x.ClassId, a)
			}
		}
	case *basetypes.MsgUpdateClassAdmin:
		if c := post.ClassByID[x.ClassId]; c == nil || obs.Addr(c.Admin) != x.NewAdmin {
			bad("UpdateClassAdmin(%s) succeeded but the admin is not %s", x.ClassId, x.NewAdmin)
		}
	case *basetypes.MsgUpdateProjectAdmin:
		if p := post.ProjectByID[x.ProjectId]; p == nil || obs.Addr(p.Admin) != x.NewAdmin {
			bad("UpdateProjectAdmin(%s) succeeded but the admin is not %s", x.ProjectId, x.NewAdmin)
		}
	case *baskettypes.MsgUpdateCurator:
		if b := post.BasketByDenom[x.Denom]; b == nil || obs.Addr(b.Curator) != x.NewCurator {
			bad("UpdateCurator(%s) succeeded but the curator is not %s", x.Denom, x.NewCurator)
		}
	case *basetypes.MsgSetClassCreatorAllowlist:
		if post.Allowlist != x.Enabled {
			bad("SetClassCreatorAllowlist(%v) succeeded but the allowlist flag is %v", x.Enabled, post.Allowlist)
		}
	case *basetypes.MsgAddClassCreator:
		if !post.Creators[x.Creator] {
			bad("AddClassCreator succeeded but %s is not on the list", x.Creator)
		}
	case *basetypes.MsgRemoveClassCreator:
		if post.Creators[x.Creator] {
			bad("RemoveClassCreator succeeded but %s is still on the list", x.Creator)
		}
	case *basetypes.MsgSealBatch:
		if b := post.BatchByDenom[x.BatchDenom]; b == nil || b.Open {
			bad("SealBatch(%s) succeeded but the batch is open", x.BatchDenom)
		}
	case *markettypes.MsgAddAllowedDenom:
		if post.AllowedDenoms[x.BankDenom] == nil {
			bad("AddAllowedDenom succeeded but %s is not allowed", x.BankDenom)
		}
	case *markettypes.MsgRemoveAllowedDenom:
		if post.AllowedDenoms[x.Denom] != nil {
			bad("RemoveAllowedDenom succeeded but %s is still allowed", x.Denom)
		}
	case *basetypes.MsgAddAllowedBridgeChain:
		if !post.BridgeChains[lower(x.ChainName)] {
			bad("AddAllowedBridgeChain succeeded but %s is not allowed", x.ChainName)
		}
	case *basetypes.MsgRemoveAllowedBridgeChain:
		if post.BridgeChains[lower(x.ChainName)] {
			bad("RemoveAllowedBridgeChain succeeded but %s is still allowed", x.ChainName)
		}
	// creations: the role holders of the new entity are exactly the ones the message names
	case *basetypes.MsgCreateClass:
		r, ok := t.Resps[0].(*basetypes.MsgCreateClassResponse)
		if !ok {
			return
		}
		c := post.ClassByID[r.ClassId]
		if c == nil {
			bad("CreateClass answered %s which does not exist", r.ClassId)
			return
		}
		if obs.Addr(c.Admin) != x.Admin {
			bad("CreateClass(%s): admin is %s, the message names %s", r.ClassId, obs.Addr(c.Admin), x.Admin)
		}
		want := map[string]bool{}
		for _, a := range x.Issuers {
			want[a] = true
		}
		got := post.Issuers[c.Key]
		for a := range want {
			if !got[a] {
				bad("CreateClass(%s): %s named as issuer is not an issuer", r.ClassId, a)
			}
		}
		for a := range got {
			if !want[a] {
				bad("CreateClass(%s): %s is an issuer but the message does not name it", r.ClassId, a)
			}
		}
		if c.CreditTypeAbbrev != x.CreditTypeAbbrev {
			bad("CreateClass(%s): credit type %s, the message names %s", r.ClassId, c.CreditTypeAbbrev, x.CreditTypeAbbrev)
		}
	case *basetypes.MsgCreateProject:
		r, ok := t.Resps[0].(*basetypes.MsgCreateProjectResponse)
		if !ok {
			return
		}
		p := post.ProjectByID[r.ProjectId]
		if p == nil {
			bad("CreateProject answered %s which does not exist", r.ProjectId)
			return
		}
		if obs.Addr(p.Admin) != x.Admin {
			bad("CreateProject(%s): admin is %s, the message names %s", r.ProjectId, obs.Addr(p.Admin), x.Admin)
		}
		if c := post.Classes[p.ClassKey]; c == nil || c.Id != x.ClassId {
			bad("CreateProject(%s): not in class %s", r.ProjectId, x.ClassId)
		}
	case *basetypes.MsgCreateBatch:
		r, ok := t.Resps[0].(*basetypes.MsgCreateBatchResponse)
		if !ok {
			return
		}
		b := post.BatchByDenom[r.BatchDenom]
		if b == nil {
			bad("CreateBatch answered %s which does not exist", r.BatchDenom)
			return
		}
		if obs.Addr(b.Issuer) != x.Issuer {
			bad("CreateBatch(%s): issuer is %s, the message names %s", r.BatchDenom, obs.Addr(b.Issuer), x.Issuer)
		}
		if b.Open != x.Open {
			bad("CreateBatch(%s): open=%v, the message says %v", r.BatchDenom, b.Open, x.Open)
		}
		if p := post.Projects[b.ProjectKey]; p == nil || p.Id != x.ProjectId {
			bad("CreateBatch(%s): not in project %s", r.BatchDenom, x.ProjectId)
		}
	case *baskettypes.MsgCreate:
		r, ok := t.Resps[0].(*baskettypes.MsgCreateResponse)
		if !ok {
			return
		}
		if b := post.BasketByDenom[r.BasketDenom]; b == nil || obs.Addr(b.Curator) != x.Curator {
			bad("basket Create(%s): curator is not %s", r.BasketDenom, x.Curator)
		}
	case *markettypes.MsgSell:
		r, ok := t.Resps[0].(*markettypes.MsgSellResponse)
		if !ok {
			return
		}
		for _, id := range r.SellOrderIds {
			if o := post.Orders[id]; o == nil || obs.Addr(o.Seller) != x.Seller {
				bad("Sell: order %d does not belong to the seller %s", id, x.Seller)
			}
		}
	case *data.MsgDefineResolver:
		r, ok := t.Resps[0].(*data.MsgDefineResolverResponse)
		if !ok {
			return
		}
		rv := post.Resolvers[r.ResolverId]
		if rv == nil {
			bad("DefineResolver answered id %d which does not exist", r.ResolverId)
			return
		}
		if pre.Resolvers[r.ResolverId] != nil {
			bad("DefineResolver answered id %d which existed before", r.ResolverId)
		}
		if x.Public {
			if len(rv.Manager) != 0 {
				bad("DefineResolver(public) id %d has a manager %s", r.ResolverId, obs.Addr(rv.Manager))
			}
		} else if obs.Addr(rv.Manager) != x.Definer {
			bad("DefineResolver id %d: manager is %s, the definer is %s", r.ResolverId, obs.Addr(rv.Manager), x.Definer)
		}
		if rv.Url != x.ResolverUrl {
			bad("DefineResolver id %d: url %q, the message says %q", r.ResolverId, rv.Url, x.ResolverUrl)
		}
	}
}

// ParamEffect: a successful parameter-setting governance message leaves exactly the value it names
// (a zero or absent fee means "no fee", as the handlers document). Used by C08 and by C18's sweep.
func ParamEffect(e *eng.Engine, t *eng.TxRec, prop, where string) {
	if !t.OK || len(t.Msgs) != 1 {
		return
	}
	post := t.Post.V()
	bad := func(f string, a ...interface{}) {
		e.Violate(prop, "parameter-effect", where+": "+fmt.Sprintf(f, a...))
	}
	feeWant := func(denom string, amt string, positive bool) string {
		if !positive {
			return "none"
		}
		return amt + denom
	}
	feeGot := func(c interface {
		GetDenom() string
		GetAmount() string
	}, isNil bool) string {
		if isNil {
			return "none"
		}
		return c.GetAmount() + c.GetDenom()
	}
	switch x := t.Msgs[0].(type) {
	case *basetypes.MsgUpdateClassFee:
		want := "none"
		if x.Fee != nil {
			want = feeWant(x.Fee.Denom, x.Fee.Amount.String(), x.Fee.IsPositive())
		}
		got := "none"
		if post.ClassFee != nil && post.ClassFee.Fee != nil {
			got = feeGot(post.ClassFee.Fee, false)
		}
		if got != want {
			bad("UpdateClassFee(%v) succeeded but the stored class fee is %s (expected %s)", x.Fee, got, want)
		}
	case *baskettypes.MsgUpdateBasketFee:
		want := "none"
		if x.Fee != nil {
			want = feeWant(x.Fee.Denom, x.Fee.Amount.String(), x.Fee.IsPositive())
		}
		got := "none"
		if post.BasketFee != nil && post.BasketFee.Fee != nil {
			got = feeGot(post.BasketFee.Fee, false)
		}
		if got != want {
			bad("UpdateBasketFee(%v) succeeded but the stored basket fee is %s (expected %s)", x.Fee, got, want)
		}
	case *markettypes.MsgGovSetFeeParams:
		if post.FeeParams == nil || post.FeeParams.BuyerPercentageFee != x.Fees.BuyerPercentageFee || post.FeeParams.SellerPercentageFee != x.Fees.SellerPercentageFee {
			bad("GovSetFeeParams(%q,%q) succeeded but the stored fee params are %v", x.Fees.BuyerPercentageFee, x.Fees.SellerPercentageFee, post.FeeParams)
		}
	case *baskettypes.MsgUpdateDateCriteria:
		b := post.BasketByDenom[x.Denom]
		if b == nil {
			bad("UpdateDateCriteria(%s) succeeded for an unknown basket", x.Denom)
			return
		}
		w, g := x.NewDateCriteria, b.DateCriteria
		same := (w == nil || (w.MinStartDate == nil && w.StartDateWindow == nil && w.YearsInThePast == 0)) == (g == nil || (g.MinStartDate == nil && g.StartDateWindow == nil && g.YearsInThePast == 0))
		if same && w != nil && g != nil {
			switch {
			case w.MinStartDate != nil:
				same = g.MinStartDate != nil && g.MinStartDate.Seconds == w.MinStartDate.Seconds && g.MinStartDate.Nanos == w.MinStartDate.Nanos
			case w.StartDateWindow != nil:
				same = g.StartDateWindow != nil && g.StartDateWindow.Seconds == w.StartDateWindow.Seconds && g.StartDateWindow.Nanos == w.StartDateWindow.Nanos
			case w.YearsInThePast != 0:
				same = g.YearsInThePast == w.YearsInThePast
			}
		}
		if !same {
			bad("UpdateDateCriteria(%s) succeeded but the stored criteria %v differ from the message's %v", x.Denom, g, w)
		}
	case *basetypes.MsgAddCreditType:
		if ct := post.CreditTypes[x.CreditType.Abbreviation]; ct == nil || ct.Name != x.CreditType.Name || ct.Unit != x.CreditType.Unit || ct.Precision != x.CreditType.Precision {
			bad("AddCreditType(%s) succeeded but the stored credit type is %v", x.CreditType.Abbreviation, ct)
		}
	}
}
