package mon

import (
	"fmt"
	"math/big"
	"time"

	authtypes "github.com/cosmos/cosmos-sdk/x/auth/types"

	"github.com/regen-network/regen-ledger/x/ecocredit/v3/marketplace"
	markettypes "github.com/regen-network/regen-ledger/x/ecocredit/v3/marketplace/types/v1"

	"verifharness/eng"
	"verifharness/obs"
	"verifharness/ref"
)

// C03: ownership safety — a frame condition over all third parties.
type C03 struct {
	Base
	Gov         string
	steps       int
	nontrivial  strset
	fills       int
	expiryMoves int
	failedSame  int
	poolSends   int
	samples     []interface{}
}

func NewC03(gov string) *C03 { return &C03{Base: Base{"C03"}, Gov: gov, nontrivial: strset{}} }

func FeePool() string { return authtypes.NewModuleAddress(marketplace.FeePoolName).String() }

type sb struct {
	seller string
	batch  uint64
}

func (m *C03) AfterTx(e *eng.Engine, t *eng.TxRec) {
	m.steps++
	where := fmt.Sprintf("tx step %d (%s, ok=%v)", t.Step, t.Tag, t.OK)
	if !t.OK {
		if t.Pre.Raw != nil && t.Post.Raw != nil {
			if d := obs.RawDiff(t.Pre, t.Post); d != "" {
				e.Violate("C03", "failed-tx-changed-state", where+": failed transaction changed raw KV: "+d)
			} else {
				m.failedSame++
			}
		}
		return
	}
	pre, post := t.Pre.V(), t.Post.V()
	// purchases of third-party orders, from the pre-state order table
	bought := map[sb]*big.Rat{}
	paidDenom := map[string]map[string]bool{}
	owed := map[[2]string]*big.Rat{} // (seller, ask denom) → Σ quantity × ask × (1 − seller fee rate)
	owedFills := map[[2]string]int{}
	sf := new(big.Rat)
	if pre.FeeParams != nil {
		if r, err := ref.DecOrZero(pre.FeeParams.SellerPercentageFee); err == nil {
			sf = r
		}
	}
	poolOut := map[string]*big.Int{}
	for _, msg := range t.Msgs {
		switch x := msg.(type) {
		case *markettypes.MsgBuyDirect:
			for _, o := range x.Orders {
				so := pre.Orders[o.SellOrderId]
				if so == nil {
					continue
				}
				q := ref.MustDec(o.Quantity)
				if q == nil {
					continue
				}
				k := sb{obs.Addr(so.Seller), so.BatchKey}
				if bought[k] == nil {
					bought[k] = new(big.Rat)
				}
				bought[k].Add(bought[k], q)
				if mk := pre.Markets[so.MarketId]; mk != nil {
					if paidDenom[k.seller] == nil {
						paidDenom[k.seller] = map[string]bool{}
					}
					paidDenom[k.seller][mk.BankDenom] = true
					if ask, ok := new(big.Int).SetString(so.AskAmount, 10); ok {
						kk := [2]string{k.seller, mk.BankDenom}
						if owed[kk] == nil {
							owed[kk] = new(big.Rat)
						}
						pay := new(big.Rat).Mul(q, new(big.Rat).SetInt(ask))
						pay.Mul(pay, new(big.Rat).Sub(big.NewRat(1, 1), sf)) // sf: the rate in force at this message (see MsgGovSetFeeParams below)
						owed[kk].Add(owed[kk], pay)
						owedFills[kk]++
					}
				}
			}
		case *markettypes.MsgGovSetFeeParams:
			// an earlier message of the same (successful) transaction changed the seller fee rate
			if x.Fees != nil {
				if r, err := ref.DecOrZero(x.Fees.SellerPercentageFee); err == nil {
					sf = r
				}
			} else {
				sf = new(big.Rat)
			}
		case *markettypes.MsgGovSendFromFeePool:
			if x.Authority == m.Gov && t.Signers[m.Gov] {
				for _, c := range x.Coins {
					if poolOut[c.Denom] == nil {
						poolOut[c.Denom] = new(big.Int)
					}
					poolOut[c.Denom].Add(poolOut[c.Denom], c.Amount.BigInt())
				}
				m.poolSends++
			}
		}
	}
	// credits
	touched := map[uint64]bool{}
	for k, y := range post.Balances {
		x := pre.Balances[k]
		if x == nil || x.Row.TradableAmount != y.Row.TradableAmount || x.Row.EscrowedAmount != y.Row.EscrowedAmount || x.Row.RetiredAmount != y.Row.RetiredAmount {
			touched[k.BatchKey] = true
		}
	}
	for k, x := range pre.Balances {
		if t.Signers[k.Addr] {
			continue
		}
		T, _, E := post.BalOf(k.Addr, k.BatchKey)
		if x.T != nil && T.Cmp(x.T) < 0 {
			e.Violate("C03", "third-party-tradable-decreased", fmt.Sprintf("%s: tradable balance of non-signer %s in batch %d went %s -> %s", where, k.Addr, k.BatchKey, rs(x.T), rs(T)))
		}
		if x.E == nil {
			continue
		}
		dec := sub(x.E, E)
		b := bought[sb{k.Addr, k.BatchKey}]
		if b != nil && b.Sign() > 0 {
			m.fills++
			if !eq(dec, b) {
				e.Violate("C03", "fill-escrow-delta", fmt.Sprintf("%s: seller %s batch %d escrow went %s -> %s but purchased quantity was %s", where, k.Addr, k.BatchKey, rs(x.E), rs(E), rs(b)))
			}
		} else if dec.Sign() > 0 {
			e.Violate("C03", "third-party-escrow-decreased", fmt.Sprintf("%s: escrowed balance of non-signer %s in batch %d went %s -> %s without a purchase", where, k.Addr, k.BatchKey, rs(x.E), rs(E)))
		}
	}
	// coins
	touchedDenoms := map[string]bool{}
	for _, c := range obs.DiffBank(t.Pre, t.Post) {
		touchedDenoms[c.Denom] = true
		if t.Signers[c.Addr] || c.After.Cmp(c.Before) >= 0 {
			continue
		}
		if c.Addr == FeePool() {
			if out := poolOut[c.Denom]; out != nil {
				// exactly the coins sent — or less, when another message of the same transaction paid
				// fees into the pool; never more
				dec := new(big.Int).Sub(c.Before, c.After)
				if dec.Cmp(out) == 0 || (len(t.Msgs) > 1 && dec.Cmp(out) < 0) {
					continue
				}
				e.Violate("C03", "fee-pool-delta", fmt.Sprintf("%s: fee pool %s went %s -> %s but the authority sent %s", where, c.Denom, c.Before, c.After, out))
				continue
			}
		}
		e.Violate("C03", "third-party-coins-decreased", fmt.Sprintf("%s: bank balance of non-signer %s in %s went %s -> %s", where, c.Addr, c.Denom, c.Before, c.After))
	}
	// sellers are paid in the ask denomination: never less than before
	for s, ds := range paidDenom {
		if t.Signers[s] {
			continue
		}
		for d := range ds {
			if t.Post.BankOf(s, d).Cmp(t.Pre.BankOf(s, d)) < 0 {
				e.Violate("C03", "seller-not-paid", fmt.Sprintf("%s: seller %s balance in %s decreased", where, s, d))
			}
		}
	}
	// ... and is paid what the fills owe it, in the ask denomination (within one base unit per fill)
	for kk, want := range owed {
		if t.Signers[kk[0]] {
			continue
		}
		got := new(big.Int).Sub(t.Post.BankOf(kk[0], kk[1]), t.Pre.BankOf(kk[0], kk[1]))
		// one-sided: at least what the fills owe (other messages of the same transaction may pay the
		// seller more; the exact amount is C07's clause)
		d := new(big.Rat).Sub(want, new(big.Rat).SetInt(got))
		if d.Cmp(big.NewRat(int64(owedFills[kk]), 1)) > 0 {
			e.Violate("C03", "seller-not-paid-in-ask-denom", fmt.Sprintf("%s: seller %s lost escrowed credits to a purchase and received %s %s, the fills owe it %s %s", where, kk[0], got, kk[1], rs(want), kk[1]))
		}
	}
	// non-trivial: >=3 third parties held something in a touched batch or denom
	n := 0
	seen := map[string]bool{}
	for k, x := range pre.Balances {
		if !t.Signers[k.Addr] && touched[k.BatchKey] && !seen[k.Addr] && (x.T.Sign() > 0 || x.E.Sign() > 0) {
			seen[k.Addr] = true
			n++
		}
	}
	for a, ds := range t.Pre.Bank {
		if t.Signers[a] || seen[a] {
			continue
		}
		for d, v := range ds {
			if touchedDenoms[d] && v.Sign() > 0 {
				seen[a] = true
				n++
				break
			}
		}
	}
	if n >= 3 {
		key := e.K(fmt.Sprintf("%d", t.Step))
		m.nontrivial.add(key)
		if len(m.samples) < 3 {
			m.samples = append(m.samples, map[string]interface{}{"step": t.Step, "tag": t.Tag, "third_parties_with_holdings_in_touched_batches_or_denoms": n, "msgs": e.TxJSON(t.TxBytes)})
		}
	}
}

func (m *C03) AfterBeginBlock(e *eng.Engine, b *eng.BlockRec) {
	m.steps++
	where := fmt.Sprintf("BeginBlock h=%d", b.Height)
	if d := obs.DiffBank(b.Pre, b.Post); len(d) > 0 {
		e.Violate("C03", "block-moved-coins", fmt.Sprintf("%s: bank balance of %s in %s changed %s -> %s", where, d[0].Addr, d[0].Denom, d[0].Before, d[0].After))
	}
	if d := obs.DiffSupply(b.Pre, b.Post); len(d) > 0 {
		e.Violate("C03", "block-moved-supply", fmt.Sprintf("%s: bank supply of %s changed %s -> %s", where, d[0].Denom, d[0].Before, d[0].After))
	}
	pre, post := b.Pre.V(), b.Post.V()
	moved := false
	keys := map[obs.BalKey]bool{}
	for k := range pre.Balances {
		keys[k] = true
	}
	for k := range post.Balances {
		keys[k] = true
	}
	for k := range keys {
		t0, r0, e0 := pre.BalOf(k.Addr, k.BatchKey)
		t1, r1, e1 := post.BalOf(k.Addr, k.BatchKey)
		if !eq(r0, r1) {
			e.Violate("C03", "block-changed-retired", fmt.Sprintf("%s: retired balance of %s batch %d changed %s -> %s", where, k.Addr, k.BatchKey, rs(r0), rs(r1)))
		}
		if !eq(add(t0, e0), add(t1, e1)) {
			e.Violate("C03", "block-changed-holdings", fmt.Sprintf("%s: tradable+escrowed of %s batch %d changed %s -> %s", where, k.Addr, k.BatchKey, rs(add(t0, e0)), rs(add(t1, e1))))
		}
		if e1.Cmp(e0) > 0 {
			e.Violate("C03", "block-increased-escrow", fmt.Sprintf("%s: escrow of %s batch %d rose %s -> %s", where, k.Addr, k.BatchKey, rs(e0), rs(e1)))
		}
		if e1.Cmp(e0) < 0 {
			moved = true
		}
	}
	// "only moves an account's OWN credits from escrow back to tradable": the escrow an account loses in
	// this block is exactly the quantity of ITS OWN orders that had expired by the block time (pre-state
	// order table) — nobody else's expiry may release (or lock up) its credits.
	if b.Panic == nil {
		due := map[obs.BalKey]*big.Rat{}
		for _, o := range pre.OrderList {
			if o.Expiration == nil {
				continue
			}
			if t := time.Unix(o.Expiration.Seconds, int64(o.Expiration.Nanos)).UTC(); t.After(b.Time) {
				continue
			}
			q := ref.MustDec(o.Quantity)
			if q == nil {
				continue
			}
			k := obs.BalKey{Addr: obs.Addr(o.Seller), BatchKey: o.BatchKey}
			if due[k] == nil {
				due[k] = new(big.Rat)
			}
			due[k].Add(due[k], q)
		}
		for k := range keys {
			_, _, e0 := pre.BalOf(k.Addr, k.BatchKey)
			_, _, e1 := post.BalOf(k.Addr, k.BatchKey)
			want := due[k]
			if want == nil {
				want = new(big.Rat)
			}
			if got := new(big.Rat).Sub(e0, e1); got.Cmp(want) != 0 {
				e.Violate("C03", "block-released-foreign-escrow", fmt.Sprintf("%s: escrow of %s batch %d fell by %s but its own orders expired by the block time sum to %s", where, k.Addr, k.BatchKey, rs(got), rs(want)))
			}
		}
	}
	if moved {
		m.expiryMoves++
	}
}

func (m *C03) Finish(e *eng.Engine, cov map[string]interface{}) {
	cov["evaluations"] = m.steps
	cov["distinct_nontrivial"] = len(m.nontrivial)
	cov["_keys"] = sortedStr(m.nontrivial)
	cov["rule"] = "one evaluation = pre/post frame check over every account that did not sign (all batches, all bank denoms, module accounts included) around one DeliverTx or BeginBlock; non-trivial = distinct successful transaction for which >=3 third-party accounts held a non-zero balance in a batch or denom the transaction touched"
	cov["fills_of_third_party_orders"] = m.fills
	cov["expiry_blocks_that_moved_credits"] = m.expiryMoves
	cov["failed_txs_with_identical_raw_kv"] = m.failedSame
	cov["authority_fee_pool_sends"] = m.poolSends
	cov["samples"] = m.samples
}
