package mon

import (
	"fmt"
	"math/rand"
	"strings"
	"time"

	"github.com/regen-network/regen-ledger/x/ecocredit/v3/base"
)

// C14 pure sub-monitor: formatters, validators and prefix parsers on generated and arbitrary strings.
//   - Format* outputs always validate and parse back to their inputs;
//   - if ValidateBatchDenom(s) accepts, the parsers' outputs validate as class / project ids and are
//     prefixes of s that end at a '-';  likewise for accepted project ids and class ids;
//   - the chain's validators agree with the documented regular expressions (harness copy).

type C14PureResult struct {
	Evaluations int
	Accepted    int
	Formatted   int
	Cells       map[string]int
	Violations  []string // "clause: message"
	Samples     []interface{}
}

var c14Abbrevs = []string{"C", "CC", "CCC", "B", "BIO", "KSH", "Z", "AB"}

func c14Mutate(rng *rand.Rand, s string) (string, string) {
	if s == "" {
		return "-", "dash"
	}
	i := rng.Intn(len(s))
	switch rng.Intn(12) {
	case 0:
		return s[:i] + s[i+1:], "delete-char"
	case 1:
		return s[:i] + "-" + s[i:], "insert-dash"
	case 2:
		return s[:i] + string(rune('0'+rng.Intn(10))) + s[i:], "insert-digit"
	case 3:
		return strings.ToLower(s), "lower-case"
	case 4:
		return s[:i] + "٣" + s[i:], "arabic-indic-digit" // unicode.IsNumber is true for it
	case 5:
		return s[:i] + "Ⅳ" + s[i:], "roman-numeral-rune"
	case 6:
		return s + "-", "trailing-dash"
	case 7:
		return "-" + s, "leading-dash"
	case 8:
		return s[:i] + " " + s[i:], "space"
	case 9:
		return s + s, "doubled"
	case 10:
		return s[:i] + string(rune('A'+rng.Intn(26))) + s[i:], "insert-letter"
	}
	return s[:i] + "\x00" + s[i:], "nul"
}

func RunC14Pure(seed int64, n int) *C14PureResult {
	rng := rand.New(rand.NewSource(seed ^ 0xc14))
	r := &C14PureResult{Cells: map[string]int{}}
	bad := func(clause, f string, a ...interface{}) {
		if len(r.Violations) < 20 {
			r.Violations = append(r.Violations, clause+": "+fmt.Sprintf(f, a...))
		}
	}
	seqs := []uint64{1, 2, 9, 10, 11, 99, 100, 101, 999, 1000, 1001, 9999, 10000, 123456, 18446744073709551615}
	dates := []time.Time{time.Date(1, 1, 1, 0, 0, 0, 0, time.UTC), time.Date(987, 6, 15, 0, 0, 0, 0, time.UTC), time.Date(1969, 12, 31, 23, 59, 59, 999, time.UTC),
		time.Date(1970, 1, 1, 0, 0, 0, 0, time.UTC), time.Date(2020, 2, 29, 12, 0, 0, 0, time.UTC), time.Date(9999, 12, 31, 23, 59, 59, 0, time.UTC),
		time.Date(2021, 1, 1, 0, 0, 0, 0, time.FixedZone("plus14", 14*3600)), time.Date(2021, 12, 31, 23, 0, 0, 0, time.FixedZone("minus12", -12*3600))}
	checkAccepted := func(s string) {
		// whatever the chain's validators accept must parse consistently
		if base.ValidateBatchDenom(s) == nil {
			r.Accepted++
			r.Cells["accepted-batch-denom"]++
			if !reBatch.MatchString(s) {
				bad("validator-vs-format", "ValidateBatchDenom accepts %q which does not match the documented format", s)
			}
			p, c := base.GetProjectIDFromBatchDenom(s), base.GetClassIDFromBatchDenom(s)
			if base.ValidateProjectID(p) != nil || !strings.HasPrefix(s, p+"-") {
				bad("parser", "GetProjectIDFromBatchDenom(%q) = %q is not a valid project id prefix ending at a '-'", s, p)
			}
			if base.ValidateClassID(c) != nil || !strings.HasPrefix(s, c+"-") || !strings.HasPrefix(p, c+"-") {
				bad("parser", "GetClassIDFromBatchDenom(%q) = %q is not a valid class id prefix of the project id %q", s, c, p)
			}
			if base.GetClassIDFromProjectID(p) != c {
				bad("parser", "class id of %q through the project id is %q, directly %q", s, base.GetClassIDFromProjectID(p), c)
			}
		} else if reBatch.MatchString(s) {
			bad("validator-vs-format", "ValidateBatchDenom rejects %q which matches the documented format", s)
		}
		if base.ValidateProjectID(s) == nil {
			r.Accepted++
			r.Cells["accepted-project-id"]++
			if !reProject.MatchString(s) {
				bad("validator-vs-format", "ValidateProjectID accepts %q which does not match the documented format", s)
			}
			c := base.GetClassIDFromProjectID(s)
			if base.ValidateClassID(c) != nil || !strings.HasPrefix(s, c+"-") {
				bad("parser", "GetClassIDFromProjectID(%q) = %q is not a valid class id prefix ending at a '-'", s, c)
			}
		} else if reProject.MatchString(s) {
			bad("validator-vs-format", "ValidateProjectID rejects %q which matches the documented format", s)
		}
		if base.ValidateClassID(s) == nil {
			r.Accepted++
			r.Cells["accepted-class-id"]++
			if !reClass.MatchString(s) {
				bad("validator-vs-format", "ValidateClassID accepts %q which does not match the documented format", s)
			}
			a := base.GetCreditTypeAbbrevFromClassID(s)
			if base.ValidateCreditTypeAbbreviation(a) != nil || !strings.HasPrefix(s, a) || strings.TrimLeft(s[len(a):], "0123456789") != "" {
				bad("parser", "GetCreditTypeAbbrevFromClassID(%q) = %q is not the abbreviation prefix", s, a)
			}
		} else if reClass.MatchString(s) {
			bad("validator-vs-format", "ValidateClassID rejects %q which matches the documented format", s)
		}
	}
	for i := 0; i < n; i++ {
		r.Evaluations++
		ab := c14Abbrevs[rng.Intn(len(c14Abbrevs))]
		cs, ps, bs := seqs[rng.Intn(len(seqs))], seqs[rng.Intn(len(seqs))], seqs[rng.Intn(len(seqs))]
		if rng.Intn(3) == 0 {
			cs, ps, bs = uint64(rng.Intn(2000)), uint64(rng.Intn(20000)), uint64(rng.Intn(20000))
		}
		s, e := dates[rng.Intn(len(dates))], dates[rng.Intn(len(dates))]
		cid := base.FormatClassID(ab, cs)
		pid := base.FormatProjectID(cid, ps)
		den, err := base.FormatBatchDenom(pid, bs, &s, &e)
		r.Formatted++
		// formatter outputs equal the documented format and validate (sequence 0 is never issued)
		if cs > 0 {
			if want := fmtClass(ab, cs); cid != want {
				bad("format", "FormatClassID(%s,%d) = %q, documented %q", ab, cs, cid, want)
			}
			if base.ValidateClassID(cid) != nil {
				bad("format", "FormatClassID output %q rejected by ValidateClassID", cid)
			}
			if base.GetCreditTypeAbbrevFromClassID(cid) != ab {
				bad("parse-back", "abbreviation of %q parses to %q, formatted from %q", cid, base.GetCreditTypeAbbrevFromClassID(cid), ab)
			}
			if ps > 0 {
				if want := fmtProject(cid, ps); pid != want {
					bad("format", "FormatProjectID(%s,%d) = %q, documented %q", cid, ps, pid, want)
				}
				if base.ValidateProjectID(pid) != nil {
					bad("format", "FormatProjectID output %q rejected by ValidateProjectID", pid)
				}
				if base.GetClassIDFromProjectID(pid) != cid {
					bad("parse-back", "class id of %q parses to %q, formatted from %q", pid, base.GetClassIDFromProjectID(pid), cid)
				}
				if err != nil {
					bad("format", "FormatBatchDenom(%s,%d,%s,%s) failed: %v", pid, bs, s, e, err)
				} else if bs > 0 {
					if want := fmtBatch(pid, bs, s, e); den != want {
						bad("format", "FormatBatchDenom = %q, documented %q", den, want)
					}
					if base.ValidateBatchDenom(den) != nil {
						bad("format", "FormatBatchDenom output %q rejected by ValidateBatchDenom", den)
					}
					if base.GetProjectIDFromBatchDenom(den) != pid || base.GetClassIDFromBatchDenom(den) != cid {
						bad("parse-back", "%q parses to project %q class %q, formatted from %q / %q", den, base.GetProjectIDFromBatchDenom(den), base.GetClassIDFromBatchDenom(den), pid, cid)
					}
					r.Cells[fmt.Sprintf("formatted/abbrev%d/class-digits%d/project-digits%d/batch-digits%d", len(ab), len(fmt.Sprint(cs)), len(fmt.Sprint(ps)), len(fmt.Sprint(bs)))]++
				}
			}
		}
		// arbitrary strings: 1–3 mutations of a formatted id
		for _, start := range []string{cid, pid, den} {
			m := start
			var kinds []string
			for k := 0; k < 1+rng.Intn(3); k++ {
				var kind string
				m, kind = c14Mutate(rng, m)
				kinds = append(kinds, kind)
			}
			r.Evaluations++
			r.Cells["mutated/"+kinds[0]]++
			func() {
				defer func() {
					if p := recover(); p != nil {
						bad("panic", "validators/parsers panicked on %q: %v", m, p)
					}
				}()
				checkAccepted(m)
				// parsers must not panic on anything
				_ = base.GetProjectIDFromBatchDenom(m)
				_ = base.GetClassIDFromBatchDenom(m)
				_ = base.GetClassIDFromProjectID(m)
				_ = base.GetCreditTypeAbbrevFromClassID(m)
			}()
			if len(r.Samples) < 4 && i%997 == 3 {
				r.Samples = append(r.Samples, map[string]interface{}{"from": start, "mutations": kinds, "string": m, "accepted_as_batch_denom": base.ValidateBatchDenom(m) == nil})
			}
		}
		checkAccepted(cid)
		checkAccepted(pid)
		if err == nil {
			checkAccepted(den)
		}
	}
	return r
}
