package mon

import (
	"encoding/hex"
	"encoding/json"
	"fmt"
	"time"

	"github.com/regen-network/regen-ledger/x/data/v3"

	"verifharness/eng"
	"verifharness/obs"
)

// C16: anchors, attestations and registrations are permanent and collision-proof.
type C16 struct {
	Base
	first       map[string]anchorGhost // iri → (id, time)
	dataFirst   map[string]time.Time   // canonical bytes of the content hash → block time of its first successful anchoring (any message)
	genesisIRI  map[string]bool        // IRIs that came with the genesis (their content hashes are not known to the ghost)
	firstTS     int
	byID        map[string]string    // id → iri
	att         map[string]time.Time // iri|attestor → time
	reg         map[string]bool      // resolver|iri
	scans       int
	collided    strset // IRIs whose id was allocated at collision index >= 1 (detected via shared 4-byte prefix)
	reanchors   int
	varint      int
	maxChain    int
	chains      map[string]int // id prefix → number of IRIs sharing it
	queryProbes int
	responses   int
	regChecks   int
	failedSame  int
	samples     []interface{}
	MinLen      int // prefix length of the hasher under test (for chain statistics)
	HashLen     int
}

type anchorGhost struct {
	id string
	t  time.Time
}

func NewC16() *C16 {
	return &C16{Base: Base{"C16"}, first: map[string]anchorGhost{}, byID: map[string]string{}, att: map[string]time.Time{}, reg: map[string]bool{}, collided: strset{}, chains: map[string]int{}, MinLen: 4, HashLen: 8}
}

func tsTime(seconds int64, nanos int32) time.Time { return time.Unix(seconds, int64(nanos)).UTC() }

func (m *C16) OnGenesis(e *eng.Engine, g map[string]json.RawMessage, s *obs.Snapshot) {
	// ghost from the genesis document
	var d map[string]json.RawMessage
	if json.Unmarshal(g["data"], &d) == nil {
		ids := map[string]string{}
		for _, r := range GenRows(d[obs.TDataID]) {
			ids[gs(r, "id")] = gs(r, "iri")
		}
		_ = ids
	}
	// the import itself is C09's subject; here the ghost starts from what the imported chain shows
	m.genesisIRI = map[string]bool{}
	for iri := range s.V().IDByIRI {
		m.genesisIRI[iri] = true
	}
	m.observe(e, s, "genesis", time.Time{}, true)
}

// observe scans the five tables: ghost entries must persist unchanged; new entries are recorded.
func (m *C16) observe(e *eng.Engine, s *obs.Snapshot, where string, blockTime time.Time, genesis bool) {
	m.scans++
	v := s.V()
	seenIRI := map[string]string{}
	seenID := map[string]string{}
	for _, d := range v.DataIDs {
		id := string(d.Id)
		if o, dup := seenIRI[d.Iri]; dup && o != id {
			e.Violate("C16", "iri-two-ids", fmt.Sprintf("%s: IRI %s has two ids %x and %x", where, d.Iri, o, id))
		}
		if o, dup := seenID[id]; dup && o != d.Iri {
			e.Violate("C16", "id-two-iris", fmt.Sprintf("%s: id %x is shared by IRIs %s and %s", where, id, o, d.Iri))
		}
		seenIRI[d.Iri] = id
		seenID[id] = d.Iri
		a := v.Anchors[id]
		if a == nil || a.Timestamp == nil {
			e.Violate("C16", "anchor-missing", fmt.Sprintf("%s: data id %x (%s) has no anchor row", where, id, d.Iri))
			continue
		}
		at := tsTime(a.Timestamp.Seconds, a.Timestamp.Nanos)
		g, known := m.first[d.Iri]
		if !known {
			if !genesis && !at.Equal(blockTime) {
				e.Violate("C16", "anchor-timestamp", fmt.Sprintf("%s: IRI %s first appeared in the block with time %s but its anchor timestamp is %s", where, d.Iri, blockTime, at))
			}
			m.first[d.Iri] = anchorGhost{id, at}
			if o, clash := m.byID[id]; clash && o != d.Iri {
				e.Violate("C16", "id-reused", fmt.Sprintf("%s: id %x previously belonged to %s, now to %s", where, id, o, d.Iri))
			}
			m.byID[id] = d.Iri
			// chain statistics: ids sharing the hasher's fixed-length prefix collided
			pl := m.MinLen
			if pl > len(id) {
				pl = len(id)
			}
			pre := id[:pl]
			m.chains[pre]++
			if m.chains[pre] >= 2 {
				m.collided.add(d.Iri)
				if m.chains[pre] > m.maxChain {
					m.maxChain = m.chains[pre]
				}
			}
			if len(id) > m.HashLen {
				m.varint++
			}
			if len(m.samples) < 4 && m.chains[pre] >= 3 {
				m.samples = append(m.samples, map[string]interface{}{"iri": d.Iri, "id_hex": hex.EncodeToString(d.Id), "ids_sharing_prefix": m.chains[pre], "anchored_at": at.Format(time.RFC3339Nano)})
			}
			continue
		}
		if g.id != id {
			e.Violate("C16", "id-changed", fmt.Sprintf("%s: IRI %s had id %x, now %x", where, d.Iri, g.id, id))
		}
		if !g.t.Equal(at) {
			e.Violate("C16", "anchor-timestamp-changed", fmt.Sprintf("%s: anchor timestamp of %s changed %s -> %s", where, d.Iri, g.t, at))
		}
	}
	for iri, g := range m.first {
		if seenIRI[iri] == "" {
			e.Violate("C16", "anchor-disappeared", fmt.Sprintf("%s: anchored IRI %s (id %x) disappeared", where, iri, g.id))
			delete(m.first, iri)
		}
	}
	for id := range v.Anchors {
		if _, ok := seenID[id]; !ok {
			e.Violate("C16", "anchor-without-id", fmt.Sprintf("%s: anchor row %x has no data id row", where, id))
		}
	}
	seenAtt := map[string]bool{}
	for _, a := range v.Attestors {
		iri := v.IRIByID[string(a.Id)]
		if iri == "" {
			e.Violate("C16", "attestation-dangling", fmt.Sprintf("%s: attestation refers to unknown id %x", where, a.Id))
			continue
		}
		k := iri + "|" + obs.Addr(a.Attestor)
		seenAtt[k] = true
		at := tsTime(a.Timestamp.GetSeconds(), a.Timestamp.GetNanos())
		g, known := m.att[k]
		if !known {
			if !genesis && !at.Equal(blockTime) {
				e.Violate("C16", "attestation-timestamp", fmt.Sprintf("%s: attestation %s first appeared at block time %s with timestamp %s", where, k, blockTime, at))
			}
			m.att[k] = at
		} else if !g.Equal(at) {
			e.Violate("C16", "attestation-timestamp-changed", fmt.Sprintf("%s: attestation %s timestamp changed %s -> %s", where, k, g, at))
		}
	}
	for k := range m.att {
		if !seenAtt[k] {
			e.Violate("C16", "attestation-disappeared", fmt.Sprintf("%s: attestation %s disappeared", where, k))
			delete(m.att, k)
		}
	}
	seenReg := map[string]bool{}
	for _, r := range v.DataResolver {
		iri := v.IRIByID[string(r.Id)]
		if iri == "" {
			e.Violate("C16", "registration-dangling", fmt.Sprintf("%s: registration refers to unknown id %x", where, r.Id))
			continue
		}
		if v.Resolvers[r.ResolverId] == nil {
			e.Violate("C16", "registration-unknown-resolver", fmt.Sprintf("%s: registration refers to unknown resolver %d", where, r.ResolverId))
		}
		k := fmt.Sprintf("%d|%s", r.ResolverId, iri)
		seenReg[k] = true
		m.reg[k] = true
	}
	for k := range m.reg {
		if !seenReg[k] {
			e.Violate("C16", "registration-lost", fmt.Sprintf("%s: resolver registration %s disappeared", where, k))
			delete(m.reg, k)
		}
	}
}

func (m *C16) AfterBeginBlock(e *eng.Engine, b *eng.BlockRec) {
	m.observe(e, b.Post, fmt.Sprintf("BeginBlock h=%d", b.Height), b.Time, true) // nothing may appear in BeginBlock; genesis=true skips the new-entry time check
	for _, n := range []string{obs.TDataID, obs.TDataAnchor, obs.TDataAttestor, obs.TResolver, obs.TDataResolver} {
		if b.Pre.TableHash(n) != b.Post.TableHash(n) {
			e.Violate("C16", "block-changed-data", fmt.Sprintf("BeginBlock h=%d changed table %s", b.Height, n))
		}
	}
}

func iriOf(ch interface{ ToIRI() (string, error) }) string {
	s, err := ch.ToIRI()
	if err != nil {
		return ""
	}
	return s
}

func (m *C16) AfterTx(e *eng.Engine, t *eng.TxRec) {
	where := fmt.Sprintf("tx step %d (%s, ok=%v)", t.Step, t.Tag, t.OK)
	if !t.OK {
		same := true
		for _, n := range []string{obs.TDataID, obs.TDataAnchor, obs.TDataAttestor, obs.TResolver, obs.TDataResolver} {
			if t.Pre.TableHash(n) != t.Post.TableHash(n) {
				same = false
				e.Violate("C16", "failed-tx-changed-data", fmt.Sprintf("%s: failed transaction changed table %s", where, n))
			}
		}
		if same {
			m.failedSame++
		}
		return
	}
	pre := t.Pre.V()
	// re-anchors of IRIs that are already known (before observing the post-state)
	for _, msg := range t.Msgs {
		var iris []string
		switch x := msg.(type) {
		case *data.MsgAnchor:
			iris = append(iris, iriOf(x.ContentHash))
		case *data.MsgAttest:
			for _, h := range x.ContentHashes {
				iris = append(iris, iriOf(h))
			}
		case *data.MsgRegisterResolver:
			for _, h := range x.ContentHashes {
				iris = append(iris, iriOf(h))
			}
		}
		for _, iri := range iris {
			if _, ok := m.first[iri]; ok && m.collided[iri] {
				m.reanchors++
			}
		}
	}
	// per piece of DATA (content hash bytes, independent of the chain's own IRI encoding): the anchor
	// timestamp of data that is anchored for the first time is this block's time
	if m.dataFirst == nil {
		m.dataFirst = map[string]time.Time{}
	}
	firstNow := map[string]bool{}
	note := func(h interface{ Marshal() ([]byte, error) }, kind string) string {
		bz, err := h.Marshal()
		if err != nil {
			return ""
		}
		k := kind + string(bz)
		if _, ok := m.dataFirst[k]; !ok {
			m.dataFirst[k] = t.BlockTime
			firstNow[k] = true
		}
		return k
	}
	for i, msg := range t.Msgs {
		switch x := msg.(type) {
		case *data.MsgAnchor:
			if x.ContentHash == nil {
				continue
			}
			var k string
			if x.ContentHash.Graph != nil {
				k = note(x.ContentHash.Graph, "g")
			} else if x.ContentHash.Raw != nil {
				k = note(x.ContentHash.Raw, "r")
			}
			if r, ok := t.Resps[i].(*data.MsgAnchorResponse); ok && k != "" && !m.genesisIRI[r.Iri] {
				m.firstTS++
				want := m.dataFirst[k]
				if r.Timestamp == nil || !tsTime(r.Timestamp.Seconds, r.Timestamp.Nanos).Equal(want) {
					e.Violate("C16", "anchor-timestamp-of-data", fmt.Sprintf("%s: this content hash was first anchored at %s but Anchor answers %v (IRI %s) — the timestamp of different data", where, want, r.Timestamp, r.Iri))
				}
			}
		case *data.MsgAttest:
			for _, h := range x.ContentHashes {
				if h != nil {
					note(h, "g")
				}
			}
		case *data.MsgRegisterResolver:
			for _, h := range x.ContentHashes {
				if h == nil {
					continue
				}
				if h.Graph != nil {
					note(h.Graph, "g")
				} else if h.Raw != nil {
					note(h.Raw, "r")
				}
			}
		}
	}
	m.observe(e, t.Post, where, t.BlockTime, false)
	// "never disappears" as a user sees it: every IRI this transaction anchored, attested or registered
	// answers the chain's own AnchorByIRI query, with the first anchoring's timestamp
	for _, msg := range t.Msgs {
		var iris []string
		switch x := msg.(type) {
		case *data.MsgAnchor:
			iris = append(iris, iriOf(x.ContentHash))
		case *data.MsgAttest:
			for _, h := range x.ContentHashes {
				iris = append(iris, iriOf(h))
			}
		case *data.MsgRegisterResolver:
			for _, h := range x.ContentHashes {
				iris = append(iris, iriOf(h))
			}
		}
		for _, iri := range iris {
			g, known := m.first[iri]
			if iri == "" || !known {
				continue
			}
			m.queryProbes++
			var r data.QueryAnchorByIRIResponse
			err := e.App.Query("/regen.data.v2.Query/AnchorByIRI", &data.QueryAnchorByIRIRequest{Iri: iri}, &r)
			if err != nil || r.Anchor == nil || r.Anchor.Iri != iri {
				e.Violate("C16", "anchor-not-retrievable", fmt.Sprintf("%s: %s is anchored but AnchorByIRI does not return it (err %v, answer %+v)", where, iri, err, r.Anchor))
			} else if r.Anchor.Timestamp == nil || !tsTime(r.Anchor.Timestamp.Seconds, r.Anchor.Timestamp.Nanos).Equal(g.t) {
				e.Violate("C16", "anchor-query-timestamp", fmt.Sprintf("%s: AnchorByIRI(%s) answers timestamp %v, first anchoring was at %s", where, iri, r.Anchor.Timestamp, g.t))
			}
		}
	}
	post := t.Post.V()
	for i, msg := range t.Msgs {
		switch x := msg.(type) {
		case *data.MsgAnchor:
			iri := iriOf(x.ContentHash)
			if r, ok := t.Resps[i].(*data.MsgAnchorResponse); ok {
				m.responses++
				g, known := m.first[iri]
				if r.Iri != iri {
					e.Violate("C16", "anchor-response-iri", fmt.Sprintf("%s: response iri %q, content hash's IRI is %q", where, r.Iri, iri))
				}
				if !known {
					e.Violate("C16", "anchor-not-stored", fmt.Sprintf("%s: Anchor succeeded but IRI %s is not in state", where, iri))
				} else if r.Timestamp == nil || !tsTime(r.Timestamp.Seconds, r.Timestamp.Nanos).Equal(g.t) {
					e.Violate("C16", "anchor-response-timestamp", fmt.Sprintf("%s: response timestamp %v, first anchoring of %s was at %s", where, r.Timestamp, iri, g.t))
				}
			}
		case *data.MsgAttest:
			if r, ok := t.Resps[i].(*data.MsgAttestResponse); ok {
				m.responses++
				if r.Timestamp == nil || !tsTime(r.Timestamp.Seconds, r.Timestamp.Nanos).Equal(t.BlockTime) {
					e.Violate("C16", "attest-response-timestamp", fmt.Sprintf("%s: Attest response timestamp %v != block time %s", where, r.Timestamp, t.BlockTime))
				}
				// the response lists exactly the new attestations
				newOnes := map[string]bool{}
				for _, h := range x.ContentHashes {
					iri := iriOf(h)
					had := false
					if id, ok := pre.IDByIRI[iri]; ok {
						for _, a := range pre.Attestors {
							if string(a.Id) == id && obs.Addr(a.Attestor) == x.Attestor {
								had = true
							}
						}
					}
					if !had {
						newOnes[iri] = true
					}
					if _, ok := m.att[iri+"|"+x.Attestor]; !ok {
						e.Violate("C16", "attestation-not-stored", fmt.Sprintf("%s: Attest succeeded but (%s, %s) is not in state", where, iri, x.Attestor))
					}
				}
				got := map[string]bool{}
				for _, s := range r.Iris {
					got[s] = true
				}
				if len(t.Msgs) == 1 && len(got) != len(newOnes) {
					e.Violate("C16", "attest-response-iris", fmt.Sprintf("%s: Attest response lists %d new IRIs, %d are new", where, len(got), len(newOnes)))
				}
			}
		case *data.MsgRegisterResolver:
			m.regChecks++
			rs := pre.Resolvers[x.ResolverId]
			if rs == nil && len(t.Msgs) > 1 {
				rs = post.Resolvers[x.ResolverId] // defined earlier in the same transaction (resolvers never change)
			}
			if rs == nil {
				e.Violate("C16", "register-unknown-resolver", fmt.Sprintf("%s: RegisterResolver succeeded for unknown resolver %d", where, x.ResolverId))
			} else if len(rs.Manager) != 0 && obs.Addr(rs.Manager) != x.Signer {
				e.Violate("C16", "register-not-manager", fmt.Sprintf("%s: %s registered data to private resolver %d managed by %s", where, x.Signer, x.ResolverId, obs.Addr(rs.Manager)))
			}
			for _, h := range x.ContentHashes {
				if !m.reg[fmt.Sprintf("%d|%s", x.ResolverId, iriOf(h))] {
					e.Violate("C16", "registration-not-stored", fmt.Sprintf("%s: RegisterResolver succeeded but (%d, %s) is not in state", where, x.ResolverId, iriOf(h)))
				}
			}
		case *data.MsgDefineResolver:
			if r, ok := t.Resps[i].(*data.MsgDefineResolverResponse); ok {
				nr := post.Resolvers[r.ResolverId]
				if nr == nil || nr.Url != x.ResolverUrl || (x.Public && len(nr.Manager) != 0) || (!x.Public && obs.Addr(nr.Manager) != x.Definer) {
					e.Violate("C16", "define-resolver", fmt.Sprintf("%s: DefineResolver response id %d does not match the stored resolver", where, r.ResolverId))
				}
				if pre.Resolvers[r.ResolverId] != nil {
					e.Violate("C16", "resolver-id-reused", fmt.Sprintf("%s: resolver id %d already existed", where, r.ResolverId))
				}
			}
		}
	}
	// resolvers never change or disappear
	for id, r := range pre.Resolvers {
		n := post.Resolvers[id]
		if n == nil || n.Url != r.Url || string(n.Manager) != string(r.Manager) {
			e.Violate("C16", "resolver-changed", fmt.Sprintf("%s: resolver %d changed or disappeared", where, id))
		}
	}
}

func (m *C16) Finish(e *eng.Engine, cov map[string]interface{}) {
	cov["anchor_timestamps_checked_per_content_hash"] = m.firstTS
	cov["evaluations"] = m.scans
	cov["distinct_nontrivial"] = len(m.collided)
	cov["_keys"] = sortedStr(m.collided)
	cov["rule"] = "one evaluation = scan of the five data tables against the ghost (first-seen id and timestamp per IRI, attestation timestamps, registrations) after every BeginBlock and DeliverTx; non-trivial = distinct IRI whose id shares the hasher's fixed-length prefix with an earlier IRI, i.e. was allocated at collision index >= 1"
	cov["iris_tracked"] = len(m.first)
	cov["attestations_tracked"] = len(m.att)
	cov["registrations_tracked"] = len(m.reg)
	cov["max_collision_chain_length"] = m.maxChain
	cov["ids_in_varint_fallback"] = m.varint
	cov["reanchors_of_collided_iris"] = m.reanchors
	cov["responses_checked"] = m.responses
	cov["anchor_by_iri_probes"] = m.queryProbes
	cov["register_resolver_manager_checks"] = m.regChecks
	cov["failed_txs_without_data_change"] = m.failedSame
	cov["samples"] = m.samples
}
