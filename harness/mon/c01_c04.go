package mon

import (
	"encoding/json"
	"fmt"
	"math/big"
	"sort"

	sdk "github.com/cosmos/cosmos-sdk/types"

	basetypes "github.com/regen-network/regen-ledger/x/ecocredit/v3/base/types/v1"

	"verifharness/eng"
	"verifharness/obs"
	"verifharness/ref"
)

// ---------------------------------------------------------------- C01 conservation

type C01 struct {
	Base
	steps      int
	states     strset // distinct ledger states
	nontrivial strset // distinct states with one batch spread over >=3 ledgers
	changed    map[string]counter
	invEvals   int
	samples    []interface{}
}

func NewC01() *C01 {
	return &C01{Base: Base{"C01"}, states: strset{}, nontrivial: strset{}, changed: map[string]counter{}}
}

type ledgerSums struct {
	T, E, R, K *big.Rat // tradable, escrowed, retired, basket
}

// ConservationScan is the exact-rational oracle; it returns complaints and per-batch sums.
func ConservationScan(s *obs.Snapshot) ([]string, map[uint64]*ledgerSums) {
	v := s.V()
	var bad []string
	sums := map[uint64]*ledgerSums{}
	get := func(k uint64) *ledgerSums {
		x := sums[k]
		if x == nil {
			x = &ledgerSums{new(big.Rat), new(big.Rat), new(big.Rat), new(big.Rat)}
			sums[k] = x
		}
		return x
	}
	for _, b := range v.BalanceList {
		prec := precisionOf(v, b.Row.BatchKey)
		who := fmt.Sprintf("balance[%s,batch %d]", obs.Addr(b.Row.Address), b.Row.BatchKey)
		for _, f := range [][2]string{{"tradable", b.Row.TradableAmount}, {"retired", b.Row.RetiredAmount}, {"escrowed", b.Row.EscrowedAmount}} {
			if c := checkAmount(f[1], prec); c != "" {
				bad = append(bad, who+"."+f[0]+": "+c)
			}
		}
		if _, ok := v.Supplies[b.Row.BatchKey]; !ok {
			bad = append(bad, who+": batch has no supply row")
		}
		x := get(b.Row.BatchKey)
		if b.T != nil {
			x.T.Add(x.T, b.T)
		}
		if b.E != nil {
			x.E.Add(x.E, b.E)
		}
		if b.R != nil {
			x.R.Add(x.R, b.R)
		}
	}
	for _, bb := range v.BasketBalList {
		b := v.BatchByDenom[bb.BatchDenom]
		who := fmt.Sprintf("basket_balance[basket %d,%s]", bb.BasketId, bb.BatchDenom)
		if b == nil {
			bad = append(bad, who+": unknown batch")
			continue
		}
		if c := checkAmount(bb.Balance, precisionOf(v, b.Key)); c != "" {
			bad = append(bad, who+": "+c)
		}
		if _, ok := v.Supplies[b.Key]; !ok {
			bad = append(bad, who+": batch has no supply row")
		}
		if r := ref.MustDec(bb.Balance); r != nil {
			x := get(b.Key)
			x.K.Add(x.K, r)
		}
	}
	var keys []uint64
	for k := range v.Supplies {
		keys = append(keys, k)
	}
	sort.Slice(keys, func(i, j int) bool { return keys[i] < keys[j] })
	for _, k := range keys {
		sp := v.Supplies[k]
		prec := precisionOf(v, k)
		for _, f := range [][2]string{{"tradable", sp.Row.TradableAmount}, {"retired", sp.Row.RetiredAmount}, {"cancelled", sp.Row.CancelledAmount}} {
			if c := checkAmount(f[1], prec); c != "" {
				bad = append(bad, fmt.Sprintf("supply[batch %d].%s: %s", k, f[0], c))
			}
		}
		x := get(k)
		if sp.T != nil {
			held := add(add(x.T, x.E), x.K)
			if !eq(held, sp.T) {
				bad = append(bad, fmt.Sprintf("batch %d: tradable supply %s != Σtradable %s + Σescrowed %s + Σbasket %s", k, rs(sp.T), rs(x.T), rs(x.E), rs(x.K)))
			}
		}
		if sp.R != nil && !eq(x.R, sp.R) {
			bad = append(bad, fmt.Sprintf("batch %d: retired supply %s != Σretired %s", k, rs(sp.R), rs(x.R)))
		}
	}
	return bad, sums
}

func (m *C01) check(e *eng.Engine, s *obs.Snapshot, where string) {
	m.steps++
	bad, sums := ConservationScan(s)
	if len(bad) > 0 {
		e.Violate("C01", "conservation", where+": "+firstN(bad, 6))
	}
	// the chain's own invariant on the same state
	ctx := e.App.Ctx()
	for _, inv := range e.App.Invariants {
		if inv.Route != "batch-supply" {
			continue
		}
		m.invEvals++
		msg, broken := inv.Inv(ctx)
		if broken {
			e.Violate("C01", "chain-invariant", where+": registered batch-supply invariant reports: "+msg)
		}
	}
	h := s.TableHash(obs.TBatchBalance, obs.TBatchSupply, obs.TBasketBalance)
	if m.states.add(h) {
		for k, x := range sums {
			n := 0
			for _, r := range []*big.Rat{x.T, x.E, x.R, x.K} {
				if r.Sign() > 0 {
					n++
				}
			}
			if n >= 3 {
				if m.nontrivial.add(h) && len(m.samples) < 3 {
					m.samples = append(m.samples, map[string]string{"where": where, "batch": fmt.Sprint(k), "tradable": rs(x.T), "escrowed": rs(x.E), "retired": rs(x.R), "in_baskets": rs(x.K)})
				}
				break
			}
		}
	}
}

func (m *C01) OnGenesis(e *eng.Engine, _ map[string]json.RawMessage, s *obs.Snapshot) {
	m.check(e, s, "genesis")
}
func (m *C01) AfterBeginBlock(e *eng.Engine, b *eng.BlockRec) {
	m.check(e, b.Post, fmt.Sprintf("BeginBlock h=%d", b.Height))
}
func (m *C01) AfterTx(e *eng.Engine, t *eng.TxRec) {
	m.check(e, t.Post, fmt.Sprintf("tx step %d (%s, ok=%v)", t.Step, t.Tag, t.OK))
	if t.OK && len(t.Msgs) == 1 {
		// which ledgers did this message type move?
		_, a := ConservationScan(t.Pre)
		_, b := ConservationScan(t.Post)
		name := msgName(t.Msgs[0])
		c := m.changed[name]
		if c == nil {
			c = counter{}
			m.changed[name] = c
		}
		for k, y := range b {
			x := a[k]
			if x == nil {
				x = &ledgerSums{zero, zero, zero, zero}
			}
			if !eq(x.T, y.T) {
				c.inc("tradable")
			}
			if !eq(x.E, y.E) {
				c.inc("escrowed")
			}
			if !eq(x.R, y.R) {
				c.inc("retired")
			}
			if !eq(x.K, y.K) {
				c.inc("basket")
			}
		}
	}
}
func (m *C01) Finish(e *eng.Engine, cov map[string]interface{}) {
	cov["evaluations"] = m.steps
	cov["distinct_nontrivial"] = len(m.nontrivial)
	cov["_keys"] = sortedStr(m.nontrivial)
	cov["distinct_ledger_states"] = len(m.states)
	cov["chain_invariant_evaluations"] = m.invEvals
	cov["rule"] = "one evaluation = full exact-rational scan of BatchBalance/BatchSupply/BasketBalance + the registered batch-supply invariant after genesis, every BeginBlock and every DeliverTx (successful or not); non-trivial = distinct ledger state (hash of the three tables) in which some batch simultaneously has holdings in >=3 of {tradable, escrowed, retired, basket}"
	ch := map[string]interface{}{}
	for k, v := range m.changed {
		ch[k] = v.JSON()
	}
	cov["ledgers_changed_by_message_type"] = ch
	cov["samples"] = m.samples
}

// ---------------------------------------------------------------- C02 issuance accounting

type C02 struct {
	Base
	issued     map[string]*big.Rat // batch denom → issued
	sealedAt   map[string]bool
	mech       map[string]strset // batch → mechanisms that moved its columns
	steps      int
	postSeal   int
	issuances  int
	samples    []interface{}
	nontrivial strset
}

func NewC02() *C02 {
	return &C02{Base: Base{"C02"}, issued: map[string]*big.Rat{}, sealedAt: map[string]bool{}, mech: map[string]strset{}, nontrivial: strset{}}
}

func supTotal(s *obs.Sup) *big.Rat {
	t := new(big.Rat)
	for _, r := range []*big.Rat{s.T, s.R, s.C} {
		if r != nil {
			t.Add(t, r)
		}
	}
	return t
}

func (m *C02) OnGenesis(e *eng.Engine, g map[string]json.RawMessage, s *obs.Snapshot) {
	// ghost initialised from the genesis DOCUMENT (supply rows + batch rows), not from the chain
	var eco map[string]json.RawMessage
	if json.Unmarshal(g["ecocredit"], &eco) != nil {
		return
	}
	denomOf := map[string]string{}
	for _, b := range GenRows(eco[obs.TBatch]) {
		denomOf[gs(b, "key")] = gs(b, "denom")
		if !gb(b, "open") {
			m.sealedAt[gs(b, "denom")] = true
		}
	}
	for _, sp := range GenRows(eco[obs.TBatchSupply]) {
		t := new(big.Rat)
		for _, a := range []string{gs(sp, "tradable_amount"), gs(sp, "retired_amount"), gs(sp, "cancelled_amount")} {
			if r, err := ref.DecOrZero(a); err == nil {
				t.Add(t, r)
			}
		}
		m.issued[denomOf[gs(sp, "batch_key")]] = t
	}
	m.compare(e, s, "genesis")
}

func issuanceSum(is []*basetypes.BatchIssuance) *big.Rat {
	t := new(big.Rat)
	for _, i := range is {
		for _, a := range []string{i.TradableAmount, i.RetiredAmount} {
			if r, err := ref.DecOrZero(a); err == nil {
				t.Add(t, r)
			}
		}
	}
	return t
}

func (m *C02) compare(e *eng.Engine, s *obs.Snapshot, where string) {
	m.steps++
	v := s.V()
	for _, b := range v.BatchList {
		sp := v.Supplies[b.Key]
		if sp == nil {
			e.Violate("C02", "supply-row", fmt.Sprintf("%s: batch %s has no supply row", where, b.Denom))
			continue
		}
		want := m.issued[b.Denom]
		if want == nil {
			e.Violate("C02", "unknown-batch", fmt.Sprintf("%s: batch %s exists but no successful issuing message created it", where, b.Denom))
			m.issued[b.Denom] = supTotal(sp)
			continue
		}
		if !eq(supTotal(sp), want) {
			e.Violate("C02", "ghost-equality", fmt.Sprintf("%s: batch %s tradable+retired+cancelled = %s but issued = %s", where, b.Denom, rs(supTotal(sp)), rs(want)))
			m.issued[b.Denom] = supTotal(sp) // resync so that one defect is reported once
		}
		if !b.Open {
			m.sealedAt[b.Denom] = true
		} else if m.sealedAt[b.Denom] {
			e.Violate("C02", "reopened", fmt.Sprintf("%s: batch %s was sealed and is open again", where, b.Denom))
		}
	}
}

func (m *C02) AfterBeginBlock(e *eng.Engine, b *eng.BlockRec) {
	m.compare(e, b.Post, fmt.Sprintf("BeginBlock h=%d", b.Height))
}

func (m *C02) AfterTx(e *eng.Engine, t *eng.TxRec) {
	where := fmt.Sprintf("tx step %d (%s)", t.Step, t.Tag)
	pre := t.Pre.V()
	if t.OK {
		for i, msg := range t.Msgs {
			switch x := msg.(type) {
			case *basetypes.MsgCreateBatch:
				if r, ok := t.Resps[i].(*basetypes.MsgCreateBatchResponse); ok {
					m.issued[r.BatchDenom] = issuanceSum(x.Issuance)
					m.issuances++
				}
			case *basetypes.MsgSealBatch:
				// sealed is what the issuer's successful message says, not only what the row shows
				// (the comparison below reports a batch that is still open as "reopened")
				m.sealedAt[x.BatchDenom] = true
			case *basetypes.MsgMintBatchCredits:
				if m.sealedAt[x.BatchDenom] {
					e.Violate("C02", "mint-after-seal", fmt.Sprintf("%s: MintBatchCredits succeeded on sealed batch %s", where, x.BatchDenom))
				}
				if m.issued[x.BatchDenom] != nil {
					m.issued[x.BatchDenom] = add(m.issued[x.BatchDenom], issuanceSum(x.Issuance))
					m.issuances++
				}
			case *basetypes.MsgBridgeReceive:
				if r, ok := t.Resps[i].(*basetypes.MsgBridgeReceiveResponse); ok {
					amt, _ := ref.DecOrZero(x.Batch.Amount)
					if amt == nil {
						amt = new(big.Rat)
					}
					if _, existed := pre.BatchByDenom[r.BatchDenom]; existed || m.issued[r.BatchDenom] != nil {
						if m.sealedAt[r.BatchDenom] {
							e.Violate("C02", "mint-after-seal", fmt.Sprintf("%s: BridgeReceive minted into sealed batch %s", where, r.BatchDenom))
						}
						m.issued[r.BatchDenom] = add(m.issued[r.BatchDenom], amt)
					} else {
						m.issued[r.BatchDenom] = amt
					}
					m.issuances++
				}
			}
		}
	} else {
		for _, msg := range t.Msgs {
			if x, ok := msg.(*basetypes.MsgMintBatchCredits); ok && m.sealedAt[x.BatchDenom] {
				m.postSeal++
			}
		}
	}
	m.compare(e, t.Post, where)
	// mechanisms that moved totals between columns while the equality held
	if t.OK {
		post := t.Post.V()
		for _, b := range post.BatchList {
			a, c := pre.Supplies[b.Key], post.Supplies[b.Key]
			if a == nil || c == nil {
				continue
			}
			if !eq(a.T, c.T) || !eq(a.R, c.R) || !eq(a.C, c.C) {
				ms := m.mech[b.Denom]
				if ms == nil {
					ms = strset{}
					m.mech[b.Denom] = ms
				}
				for _, msg := range t.Msgs {
					ms.add(msgName(msg))
				}
				if len(ms) >= 3 {
					m.nontrivial.add(b.Denom)
				}
			}
		}
	}
}

func (m *C02) Finish(e *eng.Engine, cov map[string]interface{}) {
	cov["evaluations"] = m.steps
	cov["distinct_nontrivial"] = len(m.nontrivial)
	cov["_keys"] = sortedStr(m.nontrivial)
	cov["rule"] = "one evaluation = comparison of every batch's tradable+retired+cancelled supply with the ghost ledger of successfully issued amounts after genesis, every BeginBlock and every DeliverTx; non-trivial = distinct batch whose supply columns were moved by >=3 different message types while the ghost equality held"
	cov["issuing_messages_accounted"] = m.issuances
	cov["post_seal_mint_attempts_rejected"] = m.postSeal
	cov["batches_tracked"] = len(m.issued)
	var smp []interface{}
	for _, d := range sortedStr(m.nontrivial) {
		if len(smp) < 3 {
			smp = append(smp, map[string]interface{}{"batch": d, "issued": rs(m.issued[d]), "moved_by": sortedStr(m.mech[d])})
		}
	}
	if len(smp) == 0 {
		for d, ms := range m.mech {
			smp = append(smp, map[string]interface{}{"batch": d, "moved_by": sortedStr(ms)})
			break
		}
	}
	cov["samples"] = smp
}

// ---------------------------------------------------------------- C04 permanence

type C04 struct {
	Base
	steps    int
	rewrites map[string]int // handler → accepted executions that rewrote a row with non-zero retired
	rows     strset
	samples  []interface{}
}

func NewC04() *C04 { return &C04{Base: Base{"C04"}, rewrites: map[string]int{}, rows: strset{}} }

func (m *C04) mono(e *eng.Engine, pre, post *obs.Snapshot, where string) {
	m.steps++
	a, b := pre.V(), post.V()
	for k, x := range a.Balances {
		if x.R == nil || x.R.Sign() == 0 {
			continue
		}
		_, r, _ := b.BalOf(k.Addr, k.BatchKey)
		if r.Cmp(x.R) < 0 {
			e.Violate("C04", "retired-balance-decreased", fmt.Sprintf("%s: retired balance of %s in batch %d went %s -> %s", where, k.Addr, k.BatchKey, rs(x.R), rs(r)))
		}
	}
	for k, x := range a.Supplies {
		y := b.Supplies[k]
		var yr, yc *big.Rat = zero, zero
		if y != nil {
			if y.R != nil {
				yr = y.R
			}
			if y.C != nil {
				yc = y.C
			}
		}
		if x.R != nil && yr.Cmp(x.R) < 0 {
			e.Violate("C04", "retired-supply-decreased", fmt.Sprintf("%s: retired supply of batch %d went %s -> %s", where, k, rs(x.R), rs(yr)))
		}
		if x.C != nil && yc.Cmp(x.C) < 0 {
			e.Violate("C04", "cancelled-supply-decreased", fmt.Sprintf("%s: cancelled supply of batch %d went %s -> %s", where, k, rs(x.C), rs(yc)))
		}
	}
}

func (m *C04) AfterBeginBlock(e *eng.Engine, b *eng.BlockRec) {
	m.mono(e, b.Pre, b.Post, fmt.Sprintf("BeginBlock h=%d", b.Height))
	m.countRewrites("prune", b.Pre, b.Post)
}

func (m *C04) countRewrites(name string, pre, post *obs.Snapshot) {
	a, b := pre.V(), post.V()
	for k, y := range b.Balances {
		x := a.Balances[k]
		if x == nil || x.R == nil || x.R.Sign() == 0 {
			continue
		}
		if x.Row.TradableAmount != y.Row.TradableAmount || x.Row.EscrowedAmount != y.Row.EscrowedAmount || x.Row.RetiredAmount != y.Row.RetiredAmount {
			m.rewrites[name]++
			m.rows.add(fmt.Sprintf("%s/%s/%d", name, k.Addr, k.BatchKey))
			if len(m.samples) < 4 {
				m.samples = append(m.samples, map[string]string{"handler": name, "account": k.Addr, "batch": fmt.Sprint(k.BatchKey), "retired_before": x.Row.RetiredAmount, "retired_after": y.Row.RetiredAmount, "tradable_before": x.Row.TradableAmount, "tradable_after": y.Row.TradableAmount})
			}
		}
	}
}

func (m *C04) AfterTx(e *eng.Engine, t *eng.TxRec) {
	m.mono(e, t.Pre, t.Post, fmt.Sprintf("tx step %d (%s, ok=%v)", t.Step, t.Tag, t.OK))
	if t.OK && len(t.Msgs) == 1 {
		m.countRewrites(msgName(t.Msgs[0]), t.Pre, t.Post)
	}
}

func (m *C04) Finish(e *eng.Engine, cov map[string]interface{}) {
	cov["evaluations"] = m.steps
	cov["distinct_nontrivial"] = len(m.rows)
	cov["_keys"] = sortedStr(m.rows)
	cov["rule"] = "one evaluation = comparison of every retired balance, retired supply and cancelled supply with the previous snapshot (after every BeginBlock and DeliverTx incl. failed ones; absent row = 0); non-trivial = distinct (handler, account, batch) whose BatchBalance row was rewritten by an accepted execution while its retired column was non-zero"
	cov["rewrites_of_rows_with_retired_by_handler"] = m.rewrites
	cov["samples"] = m.samples
}

var _ = sdk.AccAddress{}
