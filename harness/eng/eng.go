// Package eng is the execution engine: it drives the chain harness block by block, snapshots the
// state around every BeginBlock and every DeliverTx, feeds the monitors and records a replayable trace.
package eng

import (
	"encoding/base64"
	"encoding/json"
	"fmt"
	"os"
	"path/filepath"
	"sort"
	"strings"
	"time"

	abci "github.com/cometbft/cometbft/abci/types"
	"github.com/cosmos/cosmos-sdk/codec"
	sdk "github.com/cosmos/cosmos-sdk/types"
	txtypes "github.com/cosmos/cosmos-sdk/types/tx"
	gogoproto "github.com/cosmos/gogoproto/proto"

	"verifharness/chain"
	"verifharness/obs"
)

// Tx is what a generator proposes.
type Tx struct {
	Msgs []sdk.Msg
	Gas  uint64
	Tag  string
}

// TxRec is one delivered transaction as the monitors see it.
type TxRec struct {
	Step      int
	Height    int64
	BlockTime time.Time
	Tag       string
	Msgs      []sdk.Msg // decoded from the wire bytes
	Respelled int       // address fields that were sent in a non-canonical (upper-case) spelling
	Signers   map[string]bool
	TxBytes   []byte
	Res       abci.ResponseDeliverTx
	OK        bool
	Resps     []gogoproto.Message // typed responses (nil entries when unknown), only when OK
	Events    []abci.Event
	Pre, Post *obs.Snapshot
}

// BlockRec is one BeginBlock.
type BlockRec struct {
	Step      int
	Height    int64
	Time      time.Time
	Pre, Post *obs.Snapshot
	Panic     interface{}
	Events    []abci.Event
}

// Monitor is an online oracle over the observed execution.
type Monitor interface {
	Prop() string
	OnGenesis(e *Engine, genesis map[string]json.RawMessage, s *obs.Snapshot)
	AfterBeginBlock(e *Engine, b *BlockRec)
	AfterTx(e *Engine, t *TxRec)
	Finish(e *Engine, cov map[string]interface{})
}

// TraceBlock / Trace: the replayable record.
type TraceBlock struct {
	Time string   `json:"time"`
	Txs  []string `json:"txs"` // base64 tx bytes
	Tags []string `json:"tags,omitempty"`
}

type Trace struct {
	Genesis     map[string]json.RawMessage `json:"genesis"`
	GenesisTime string                     `json:"genesis_time"`
	Hasher      string                     `json:"hasher,omitempty"`
	Blocks      []*TraceBlock              `json:"blocks"`
}

type Violation struct {
	Prop    string
	Clause  string
	Message string
	Step    int
	Replay  string
}

// Reporter collects verdict lines.
type Reporter struct {
	ReplayDir  string
	Violations []Violation
	Known      []string // KNOWN-FINDING lines already printed
	knownSeen  map[string]bool
	MaxPrint   int
	printed    int
}

func (r *Reporter) KnownFinding(prop, what string) {
	if r.knownSeen == nil {
		r.knownSeen = map[string]bool{}
	}
	line := fmt.Sprintf("KNOWN-FINDING: property=%s %s", prop, what)
	if r.knownSeen[line] {
		return
	}
	r.knownSeen[line] = true
	r.Known = append(r.Known, line)
	fmt.Println(line)
}

type Engine struct {
	App                    *chain.App
	Obs                    *obs.Observer
	Monitors               []Monitor
	Rep                    *Reporter
	Trace                  *Trace
	Cur                    *obs.Snapshot
	Step                   int
	RawSnaps               bool // take raw KV dumps in snapshots
	SeedTag                string
	cur                    *TraceBlock
	Stats                  map[string]*MsgStat // per message type URL
	TxOK                   int
	Respelled, RespelledOK int // transactions carrying an upper-case address spelling (sent, accepted)
	TxFail                 int
	Blocks                 int
	HasherID               string
	// PropOverride relabels violations of auxiliary monitors (e.g. C01 scans on a re-imported chain
	// are C09 evidence); ClausePrefix says where.
	PropOverride string
	ClausePrefix string
	// hooks
	OnBlockCommitted func(e *Engine, hash []byte)
}

type MsgStat struct{ OK, Fail int }

func New(app *chain.App, rep *Reporter, raw bool) *Engine {
	return &Engine{App: app, Obs: obs.NewObserver(app), Rep: rep, RawSnaps: raw, Stats: map[string]*MsgStat{}}
}

// K makes a step- or height-based key unique across workers.
func (e *Engine) K(s string) string { return e.SeedTag + ":" + s }

func (e *Engine) Snap() *obs.Snapshot { return e.Obs.Snap(obs.Opts{Raw: e.RawSnaps}) }

// Init delivers the genesis and notifies the monitors.
func (e *Engine) Init(genesis map[string]json.RawMessage, t time.Time) error {
	if err := e.App.InitChain(genesis, t); err != nil {
		return err
	}
	e.Trace = &Trace{Genesis: genesis, GenesisTime: t.UTC().Format(time.RFC3339Nano), Hasher: e.HasherID}
	e.Cur = e.Snap()
	for _, m := range e.Monitors {
		m.OnGenesis(e, genesis, e.Cur)
	}
	return nil
}

// NextBlock ends the current block (if any), commits and begins a new one at time t.
func (e *Engine) NextBlock(t time.Time) {
	if e.App.Header.Height > 0 {
		h := e.App.EndBlockCommit()
		if e.OnBlockCommitted != nil {
			e.OnBlockCommitted(e, h)
		}
	}
	e.Step++
	e.Blocks++
	pre := e.Cur
	e.cur = &TraceBlock{Time: t.UTC().Format(time.RFC3339Nano)}
	e.Trace.Blocks = append(e.Trace.Blocks, e.cur)
	ev, p := e.App.BeginBlock(t)
	b := &BlockRec{Step: e.Step, Height: e.App.Header.Height, Time: t.UTC(), Pre: pre, Panic: p, Events: ev}
	if p != nil {
		// BeginBlock panicked: the deliver state may be unusable; monitors decide, engine stops the run.
		b.Post = pre
		for _, m := range e.Monitors {
			m.AfterBeginBlock(e, b)
		}
		panic(fmt.Sprintf("BeginBlock panicked at height %d: %v", b.Height, p))
	}
	e.Cur = e.Snap()
	b.Post = e.Cur
	for _, m := range e.Monitors {
		m.AfterBeginBlock(e, b)
	}
}

// Commit ends the current block and commits, leaving the chain between blocks (quiescent point).
func (e *Engine) Commit() []byte {
	h := e.App.EndBlockCommit()
	if e.OnBlockCommitted != nil {
		e.OnBlockCommitted(e, h)
	}
	return h
}

// Resume begins a new block after Commit (same as NextBlock but without the end-of-block step).
func (e *Engine) Resume(t time.Time) {
	if e.App.InBlock {
		panic("Resume while in block")
	}
	e.Step++
	e.Blocks++
	pre := e.Cur
	e.cur = &TraceBlock{Time: t.UTC().Format(time.RFC3339Nano)}
	e.Trace.Blocks = append(e.Trace.Blocks, e.cur)
	ev, p := e.App.BeginBlock(t)
	b := &BlockRec{Step: e.Step, Height: e.App.Header.Height, Time: t.UTC(), Pre: pre, Panic: p, Events: ev}
	if p != nil {
		b.Post = pre
		for _, m := range e.Monitors {
			m.AfterBeginBlock(e, b)
		}
		panic(fmt.Sprintf("BeginBlock panicked at height %d: %v", b.Height, p))
	}
	e.Cur = e.Snap()
	b.Post = e.Cur
	for _, m := range e.Monitors {
		m.AfterBeginBlock(e, b)
	}
}

const DefaultGas = 50_000_000

// Exec encodes, delivers and monitors one transaction.
func (e *Engine) Exec(tx Tx) *TxRec {
	gas := tx.Gas
	if gas == 0 {
		gas = DefaultGas
	}
	bz, err := e.App.EncodeTx(gas, tx.Msgs...)
	if err != nil {
		// cannot be put on the wire (e.g. nil message): not a chain execution
		return nil
	}
	return e.ExecBytes(bz, tx.Tag)
}

func (e *Engine) ExecBytes(bz []byte, tag string) *TxRec {
	e.Step++
	e.cur.Txs = append(e.cur.Txs, base64.StdEncoding.EncodeToString(bz))
	e.cur.Tags = append(e.cur.Tags, tag)
	rec := &TxRec{Step: e.Step, Height: e.App.Header.Height, BlockTime: e.App.Header.Time, Tag: tag, TxBytes: bz, Pre: e.Cur, Signers: map[string]bool{}}
	if dtx, err := e.App.TxCfg.TxDecoder()(bz); err == nil {
		rec.Msgs = dtx.GetMsgs()
		// signers first (from the spelling as sent), then canonical spellings for the monitors
		for _, m := range rec.Msgs {
			func() {
				defer func() { recover() }() // GetSigners panics on malformed addresses
				for _, s := range m.GetSigners() {
					rec.Signers[s.String()] = true
				}
			}()
		}
	}
	if n := CanonAddrs(rec.Msgs); n > 0 {
		rec.Respelled = n
		e.Respelled++
	}
	rec.Res = e.App.Deliver(bz)
	rec.OK = rec.Res.Code == 0
	if rec.OK && rec.Respelled > 0 {
		e.RespelledOK++
	}
	rec.Events = rec.Res.Events
	if rec.OK {
		var md sdk.TxMsgData
		if err := gogoproto.Unmarshal(rec.Res.Data, &md); err == nil {
			for _, any := range md.MsgResponses {
				var pm txtypes.MsgResponse
				if err := e.App.IR.UnpackAny(any, &pm); err == nil {
					rec.Resps = append(rec.Resps, pm.(gogoproto.Message))
				} else {
					rec.Resps = append(rec.Resps, nil)
				}
			}
		}
		e.TxOK++
	} else {
		e.TxFail++
	}
	for _, m := range rec.Msgs {
		u := sdk.MsgTypeURL(m)
		st := e.Stats[u]
		if st == nil {
			st = &MsgStat{}
			e.Stats[u] = st
		}
		if rec.OK {
			st.OK++
		} else {
			st.Fail++
		}
	}
	e.Cur = e.Snap()
	rec.Post = e.Cur
	for _, m := range e.Monitors {
		m.AfterTx(e, rec)
	}
	return rec
}

// Violate records a violation, writes the replay file and prints the verdict line.
func (e *Engine) Violate(prop, clause, msg string) {
	if e.PropOverride != "" && prop != e.PropOverride {
		clause = e.ClausePrefix + prop + "/" + clause
		prop = e.PropOverride
	}
	r := e.Rep
	v := Violation{Prop: prop, Clause: clause, Message: msg, Step: e.Step}
	// de-duplicate by clause: report each clause at most 3 times
	n := 0
	for _, o := range r.Violations {
		if o.Prop == prop && o.Clause == clause {
			n++
		}
	}
	r.Violations = append(r.Violations, v)
	if n >= 3 || r.printed >= 10 {
		return
	}
	r.printed++
	path := filepath.Join(r.ReplayDir, fmt.Sprintf("%s-%s-%d.json", prop, sanitize(e.SeedTag), len(r.Violations)))
	_ = os.MkdirAll(r.ReplayDir, 0o755)
	out := map[string]interface{}{
		"property": prop, "clause": clause, "monitor_message": msg, "step": e.Step, "kind": "chain-trace",
		"trace": e.Trace, "last_txs_json": e.lastTxsJSON(3),
	}
	bz, _ := json.MarshalIndent(out, "", " ")
	_ = os.WriteFile(path, bz, 0o644)
	r.Violations[len(r.Violations)-1].Replay = path
	fmt.Printf("# violation %s [%s] step %d: %s\n", prop, clause, e.Step, trunc(msg, 1500))
	fmt.Printf("VIOLATION property=%s replay=%s\n", prop, path)
}

func sanitize(s string) string {
	return strings.Map(func(r rune) rune {
		if r >= 'a' && r <= 'z' || r >= 'A' && r <= 'Z' || r >= '0' && r <= '9' || r == '-' {
			return r
		}
		return '_'
	}, s)
}

func trunc(s string, n int) string {
	if len(s) > n {
		return s[:n] + "…"
	}
	return s
}

// lastTxsJSON renders the last n transactions of the current block as proto-JSON for human readers.
func (e *Engine) lastTxsJSON(n int) []interface{} {
	var out []interface{}
	if e.cur == nil {
		return out
	}
	txs := e.cur.Txs
	if len(txs) > n {
		txs = txs[len(txs)-n:]
	}
	for _, b64 := range txs {
		bz, _ := base64.StdEncoding.DecodeString(b64)
		out = append(out, e.TxJSON(bz))
	}
	return out
}

func (e *Engine) TxJSON(bz []byte) interface{} {
	dtx, err := e.App.TxCfg.TxDecoder()(bz)
	if err != nil {
		return "undecodable"
	}
	var l []interface{}
	for _, m := range dtx.GetMsgs() {
		l = append(l, MsgJSON(e.App.Cdc, m))
	}
	return l
}

func MsgJSON(cdc codec.Codec, m sdk.Msg) interface{} {
	j, err := cdc.MarshalInterfaceJSON(m)
	if err != nil {
		return fmt.Sprintf("%T: %v", m, err)
	}
	return json.RawMessage(j)
}

// StatsJSON returns accepted/rejected counts per message type.
func (e *Engine) StatsJSON() map[string]interface{} {
	out := map[string]interface{}{}
	var keys []string
	for k := range e.Stats {
		keys = append(keys, k)
	}
	sort.Strings(keys)
	for _, k := range keys {
		out[k] = map[string]int{"accepted": e.Stats[k].OK, "rejected": e.Stats[k].Fail}
	}
	return out
}

// Replay re-executes a recorded trace verbatim.
func (e *Engine) Replay(tr *Trace) error {
	gt, err := time.Parse(time.RFC3339Nano, tr.GenesisTime)
	if err != nil {
		return err
	}
	if err := e.Init(tr.Genesis, gt); err != nil {
		return err
	}
	for _, b := range tr.Blocks {
		t, err := time.Parse(time.RFC3339Nano, b.Time)
		if err != nil {
			return err
		}
		e.NextBlock(t)
		for i, s := range b.Txs {
			bz, err := base64.StdEncoding.DecodeString(s)
			if err != nil {
				return err
			}
			tag := ""
			if i < len(b.Tags) {
				tag = b.Tags[i]
			}
			e.ExecBytes(bz, tag)
		}
	}
	return nil
}
