package eng

import (
	"reflect"
	"strings"

	sdk "github.com/cosmos/cosmos-sdk/types"
)

// Address spellings. Bech32 accepts an all-upper-case spelling of every address; the workload uses it
// (gen.Respell) so that string comparisons of addresses inside the chain are exercised. The monitors
// reason about accounts, not spellings: the decoded copy of a transaction's messages that they receive
// has every address-valued string field rewritten to the canonical (lower-case) spelling. The bytes
// delivered to the chain keep the original spelling.

// AddrFields returns pointers to every string field (recursively) of the messages whose value is a
// valid account address of the chain.
func AddrFields(msgs []sdk.Msg) []*string {
	var out []*string
	var walk func(v reflect.Value, depth int)
	walk = func(v reflect.Value, depth int) {
		if depth > 6 {
			return
		}
		switch v.Kind() {
		case reflect.Ptr, reflect.Interface:
			if !v.IsNil() {
				walk(v.Elem(), depth+1)
			}
		case reflect.Struct:
			for i := 0; i < v.NumField(); i++ {
				if v.Type().Field(i).PkgPath != "" { // unexported
					continue
				}
				walk(v.Field(i), depth+1)
			}
		case reflect.Slice:
			if v.Type().Elem().Kind() == reflect.Uint8 {
				return
			}
			for i := 0; i < v.Len(); i++ {
				walk(v.Index(i), depth+1)
			}
		case reflect.String:
			if !v.CanAddr() || !v.CanSet() {
				return
			}
			s := v.String()
			if len(s) < 20 || !strings.HasPrefix(strings.ToLower(s), "regen1") {
				return
			}
			if _, err := sdk.AccAddressFromBech32(s); err == nil {
				out = append(out, v.Addr().Interface().(*string))
			}
		}
	}
	for _, m := range msgs {
		func() {
			defer func() { recover() }()
			walk(reflect.ValueOf(m), 0)
		}()
	}
	return out
}

// CanonAddrs rewrites non-canonical spellings in place and returns how many fields were rewritten.
func CanonAddrs(msgs []sdk.Msg) int {
	n := 0
	for _, p := range AddrFields(msgs) {
		a, err := sdk.AccAddressFromBech32(*p)
		if err != nil {
			continue
		}
		if c := a.String(); c != *p {
			*p = c
			n++
		}
	}
	return n
}
