package special

import (
	"bufio"
	"bytes"
	"encoding/base64"
	"encoding/hex"
	"encoding/json"
	"fmt"
	"math/rand"
	"os"
	"os/exec"
	"path/filepath"
	"regexp"
	"sort"
	"strings"
	"time"

	abci "github.com/cometbft/cometbft/abci/types"
	sdk "github.com/cosmos/cosmos-sdk/types"

	basetypes "github.com/regen-network/regen-ledger/x/ecocredit/v3/base/types/v1"

	"verifharness/chain"
	"verifharness/eng"
	"verifharness/gen"
	"verifharness/mon"
	"verifharness/obs"
	"verifharness/run"
)

// C10: determinism across processes / restarts / kills, schedules under the race detector,
// no trace of failed messages (raw KV + gas-fault enumeration + erasure).

func init() {
	handlers["C10"] = &handler{
		plan: func(tier string) *PlanT {
			if tier == "thorough" {
				return &PlanT{Workers: 8, Variants: []string{"default", "open"}, Steps: 1500}
			}
			return &PlanT{Workers: 1, Variants: []string{"default", "open"}, Steps: 700}
		},
		run: runC10,
		floor: func(tier string, c map[string]interface{}) string {
			var miss []string
			for k, v := range map[string]float64{"process_executions_compared": 10, "abort_points_enumerated": 1500, "failed_txs_with_identical_raw_kv": 100, "race_replica_runs": 1, "distinct_nontrivial": 2, "executions_with_restart_or_kill": 4} {
				if numf(c, k) < v {
					miss = append(miss, fmt.Sprintf("%s=%v < %v", k, c[k], v))
				}
			}
			sort.Strings(miss)
			if len(miss) > 0 {
				return "coverage floor not reached: " + strings.Join(miss, ", ")
			}
			return ""
		},
		assumptions: []string{
			"process kill = SIGKILL of the replay process (data written with write() survives; an OS crash / torn disk write is out of scope)",
			"the race detector sees only the interleavings that happened; replicas share keeper, module, codec and ORM objects the way DeliverTx/Query/Simulate share them in a node",
			"gas-fault abort points = every gas consumption of the sampled successful transaction (every store read/write/iterator step and handler ConsumeGas)",
		},
		replay: replayC10,
	}
}

func FormatTx(r abci.ResponseDeliverTx) string {
	ev, _ := json.Marshal(r.Events)
	return fmt.Sprintf("tx code=%d codespace=%s data=%s gas_wanted=%d gas_used=%d events=%s", r.Code, r.Codespace, hex.EncodeToString(r.Data), r.GasWanted, r.GasUsed, ev)
}

// recorder monitor: the engine's own in-process execution is one more execution to compare with.
type c10Rec struct {
	mon.Base
	lines      []string
	cur        []string
	failedSame int
	failed     int
	okTxs      int
	types      map[string]bool
}

func (m *c10Rec) AfterTx(e *eng.Engine, t *eng.TxRec) {
	m.cur = append(m.cur, FormatTx(t.Res))
	for _, x := range t.Msgs {
		m.types[sdk.MsgTypeURL(x)] = true
	}
	if t.OK {
		m.okTxs++
		return
	}
	m.failed++
	if d := obs.RawDiff(t.Pre, t.Post); d != "" {
		e.Violate("C10", "failed-tx-left-trace", fmt.Sprintf("tx step %d (%s): failed transaction (code %d) changed raw KV: %s", t.Step, t.Tag, t.Res.Code, d))
	} else {
		m.failedSame++
	}
}

type gasFault struct {
	rng       *rand.Rand
	perType   int
	sampled   map[string]int
	points    int
	byType    map[string]int
	txs       int
	skipped   int
	samples   []interface{}
	maxPoints int
}

// intercept performs the gas-fault enumeration for a sampled transaction before it is executed.
func (gf *gasFault) intercept(e *eng.Engine, tx *eng.Tx) {
	if len(tx.Msgs) != 1 {
		return
	}
	u := sdk.MsgTypeURL(tx.Msgs[0])
	if gf.sampled[u] >= gf.perType {
		return
	}
	// probe: original message + a message that fails in its handler without consuming gas
	// (authority check is the first statement), so the recorded consumptions are exactly the original's
	probe := eng.Tx{Msgs: []sdk.Msg{tx.Msgs[0], &basetypes.MsgUpdateClassFee{Authority: gen.ActorAddr(0).String()}}, Tag: "gas-probe"}
	e.App.Gas.Armed = true
	e.App.Gas.Points = nil
	r := e.Exec(probe)
	e.App.Gas.Armed = false
	pts := append([]uint64(nil), e.App.Gas.Points...)
	if r == nil || r.OK {
		if r != nil && r.OK {
			e.Violate("C10", "probe-succeeded", "gas probe transaction succeeded although its last message must fail")
		}
		return
	}
	if !strings.Contains(r.Res.Log, "message index: 1") {
		gf.skipped++ // the original message itself fails in this state: not a successful transaction
		return
	}
	if d := obs.RawDiff(r.Pre, r.Post); d != "" {
		e.Violate("C10", "failed-tx-left-trace", "gas probe (multi-message tx whose last message fails) changed raw KV: "+d)
	}
	// distinct cumulative values
	var cs []uint64
	for i, p := range pts {
		if i == 0 || p != pts[i-1] {
			cs = append(cs, p)
		}
	}
	if len(cs) > gf.maxPoints {
		// keep the run bounded: PRNG-chosen subset, always including first and last
		idx := gf.rng.Perm(len(cs))[:gf.maxPoints]
		sort.Ints(idx)
		var sub []uint64
		for _, i := range idx {
			sub = append(sub, cs[i])
		}
		sub[0], sub[len(sub)-1] = cs[0], cs[len(cs)-1]
		cs = sub
	}
	gf.sampled[u]++
	gf.txs++
	for _, c := range cs {
		if c == 0 {
			continue
		}
		lim := c - 1
		rr := e.Exec(eng.Tx{Msgs: tx.Msgs, Gas: lim, Tag: fmt.Sprintf("gas-fault@%d", c)})
		if rr == nil {
			continue
		}
		gf.points++
		gf.byType[u]++
		if rr.OK {
			e.Violate("C10", "gas-fault-not-aborted", fmt.Sprintf("%s delivered with gas limit %d (one below a recorded consumption) succeeded", u, lim))
			return // the message has been applied; do not continue the enumeration on changed state
		}
		if rr.Res.Code != 11 { // sdkerrors.ErrOutOfGas
			e.Violate("C10", "gas-fault-other-error", fmt.Sprintf("%s with gas limit %d failed with code %d (%s) instead of out-of-gas: %s", u, lim, rr.Res.Code, rr.Res.Codespace, trunc(rr.Res.Log, 200)))
		}
		if d := obs.RawDiff(rr.Pre, rr.Post); d != "" {
			e.Violate("C10", "gas-fault-left-trace", fmt.Sprintf("%s aborted by gas exhaustion at consumption %d left a trace in raw KV: %s", u, c, d))
		}
	}
	if len(gf.samples) < 4 {
		gf.samples = append(gf.samples, map[string]interface{}{"message_type": u, "abort_points": len(cs), "first": cs[0], "last": cs[len(cs)-1]})
	}
}

func binDir() string {
	self, err := os.Executable()
	if err != nil {
		return "/verif/bin"
	}
	return filepath.Dir(self)
}

type c10Stats struct {
	procExecs, restartExecs int
	raceRuns                int
	raceReports, raceDedup  int
	raceThirdParty          int
	orders, switches        int
	queries                 int
	twinBlocks, twinTxs     int
	traces                  int
	nontrivial              map[string]bool
	samples                 []interface{}
}

func readLines(p string) []string {
	bz, err := os.ReadFile(p)
	if err != nil {
		return nil
	}
	var out []string
	sc := bufio.NewScanner(bytes.NewReader(bz))
	sc.Buffer(make([]byte, 1<<20), 1<<26)
	for sc.Scan() {
		if sc.Text() != "" {
			out = append(out, sc.Text())
		}
	}
	return out
}

func firstMismatch(a, b []string) string {
	n := len(a)
	if len(b) < n {
		n = len(b)
	}
	for i := 0; i < n; i++ {
		if a[i] != b[i] {
			return fmt.Sprintf("line %d: %s  !=  %s", i+1, trunc(a[i], 300), trunc(b[i], 300))
		}
	}
	if len(a) != len(b) {
		return fmt.Sprintf("lengths differ: %d vs %d lines", len(a), len(b))
	}
	return ""
}

var tzs = []string{"UTC", "Pacific/Kiritimati", "America/Los_Angeles", "Asia/Kathmandu"}

func runChild(tmp string, name string, env []string, args ...string) (string, error) {
	cmd := exec.Command("timeout", append([]string{"-s", "QUIT", "1200", filepath.Join(binDir(), name)}, args...)...)
	cmd.Env = append(os.Environ(), env...)
	var buf bytes.Buffer
	cmd.Stdout, cmd.Stderr = &buf, &buf
	err := cmd.Run()
	return buf.String(), err
}

// processAgreement runs the separate-process executions of one trace and compares all outputs.
func processAgreement(e *eng.Engine, st *c10Stats, rng *rand.Rand, tmp, traceFile string, want []string, nBlocks int, tier, tag string) {
	type pat struct {
		name string
		args []string
		kill []string // sequence of extra invocations (resume) for kill patterns
	}
	var pats []pat
	for i := 0; i < 3; i++ {
		pats = append(pats, pat{name: fmt.Sprintf("plain-%d", i)})
	}
	pats = append(pats, pat{name: "restart-every-block", args: []string{"-restart", "every"}})
	var set []string
	for h := 1; h <= nBlocks; h++ {
		if rng.Intn(4) == 0 {
			set = append(set, fmt.Sprint(h))
		}
	}
	pats = append(pats, pat{name: "restart-subset", args: []string{"-restart", "set:" + strings.Join(set, ",")}})
	nk := 2
	if tier == "thorough" {
		nk = 4
		var set2 []string
		for h := 1; h <= nBlocks; h++ {
			if rng.Intn(2) == 0 {
				set2 = append(set2, fmt.Sprint(h))
			}
		}
		pats = append(pats, pat{name: "restart-subset-2", args: []string{"-restart", "set:" + strings.Join(set2, ",")}})
	}
	// process kills at block boundaries and in the middle of a block
	var kb, km pat
	kb.name, km.name = "sigkill-after-commit", "sigkill-mid-block"
	hs := rng.Perm(nBlocks)
	if len(hs) > nk {
		hs = hs[:nk]
	}
	sort.Ints(hs)
	for _, h := range hs {
		kb.kill = append(kb.kill, fmt.Sprintf("-kill-after=%d", h+1))
		km.kill = append(km.kill, fmt.Sprintf("-kill-mid=%d:%d", h+1, rng.Intn(3)))
	}
	pats = append(pats, kb, km)
	for pi, p := range pats {
		dbdir := filepath.Join(tmp, fmt.Sprintf("db-%s-%s", tag, p.name))
		out := filepath.Join(tmp, fmt.Sprintf("out-%s-%s.txt", tag, p.name))
		env := []string{"TZ=" + tzs[pi%len(tzs)]}
		base := []string{"-trace", traceFile, "-db", dbdir, "-out", out}
		if len(p.kill) == 0 {
			if log, err := runChild(tmp, "vreplay", env, append(base, p.args...)...); err != nil {
				e.Violate("C10", "replay-process-failed", fmt.Sprintf("trace %s, execution %s failed: %v: %s", tag, p.name, err, trunc(log, 400)))
				continue
			}
		} else {
			for ki, k := range p.kill {
				args := append(append([]string{}, base...), k)
				if ki > 0 {
					args = append(args, "-resume")
				}
				runChild(tmp, "vreplay", env, args...) // ends by SIGKILL (or normally when the kill point is not reached)
			}
			if log, err := runChild(tmp, "vreplay", env, append(append([]string{}, base...), "-resume")...); err != nil {
				e.Violate("C10", "replay-process-failed", fmt.Sprintf("trace %s, execution %s (final resume) failed: %v: %s", tag, p.name, err, trunc(log, 400)))
				continue
			}
			st.restartExecs++
		}
		if len(p.args) > 0 {
			st.restartExecs++
		}
		st.procExecs++
		got := readLines(out)
		if d := firstMismatch(want, got); d != "" {
			e.Violate("C10", "executions-disagree/"+p.name, fmt.Sprintf("trace %s: execution %s (separate process, TZ=%s) differs from the recording execution: %s", tag, p.name, tzs[pi%len(tzs)], d))
		}
		os.RemoveAll(dbdir)
	}
}

var reRaceFn = regexp.MustCompile(`^\s+([^\s(]+)\(`)

// parseRaceLogs counts WARNING: DATA RACE blocks, de-duplicated by the pair of outermost
// regen-ledger / harness entry points; blocks whose both stacks lie wholly in third-party modules are
// attributed to the dependency.
func parseRaceLogs(glob string) (total int, dedup map[string]string, thirdParty int) {
	dedup = map[string]string{}
	files, _ := filepath.Glob(glob)
	for _, f := range files {
		bz, _ := os.ReadFile(f)
		blocks := strings.Split(string(bz), "WARNING: DATA RACE")
		for _, b := range blocks[1:] {
			total++
			// stacks are separated by blank lines; take function names
			var stacks [][]string
			for _, part := range strings.Split(b, "\n\n") {
				var fns []string
				for _, l := range strings.Split(part, "\n") {
					if m := reRaceFn.FindStringSubmatch(l); m != nil {
						fns = append(fns, m[1])
					}
				}
				if len(fns) > 0 {
					stacks = append(stacks, fns)
				}
			}
			if len(stacks) > 2 {
				stacks = stacks[:2]
			}
			// attribution by ACCESS SITE: the first non-runtime frame of each stack is where the racing
			// access happens; a report is regen-ledger's if either access site is in regen-ledger code
			ours := false
			var keyParts []string
			for _, s := range stacks {
				site := ""
				for _, fn := range s {
					if strings.HasPrefix(fn, "runtime.") || strings.HasPrefix(fn, "sync.") || strings.HasPrefix(fn, "sync/atomic.") || strings.HasPrefix(fn, "internal/") {
						continue
					}
					site = fn
					break
				}
				if strings.Contains(site, "regen-network/regen-ledger") {
					ours = true
				}
				keyParts = append(keyParts, site)
			}
			sort.Strings(keyParts)
			if !ours {
				thirdParty++
				continue
			}
			k := strings.Join(keyParts, " <-> ")
			if _, ok := dedup[k]; !ok {
				dedup[k] = trunc(b, 1800)
			}
		}
	}
	return
}

func raceRun(e *eng.Engine, st *c10Stats, tmp, traceFile string, want []string, K int, rep int, tag string) {
	prefix := filepath.Join(tmp, fmt.Sprintf("race-%s-%d", tag, rep))
	logp := prefix + ".racelog"
	env := []string{"GORACE=halt_on_error=0 log_path=" + logp, "TZ=" + tzs[rep%len(tzs)]}
	log, err := runChild(tmp, "vrace", env, "-trace", traceFile, "-replicas", fmt.Sprint(K), "-out", prefix, "-queries")
	st.raceRuns++
	if err != nil && !strings.Contains(err.Error(), "exit status 66") {
		e.Violate("C10", "race-run-failed", fmt.Sprintf("race-detector run failed: %v: %s", err, trunc(log, 600)))
		return
	}
	total, dedup, third := parseRaceLogs(logp + "*")
	st.raceReports += total
	st.raceDedup += len(dedup)
	st.raceThirdParty += third
	for k, b := range dedup {
		e.Violate("C10", "data-race", fmt.Sprintf("race detector report involving regen-ledger code (%s):\n%s", k, b))
	}
	for i := 0; i < K; i++ {
		got := readLines(fmt.Sprintf("%s.%d", prefix, i))
		if d := firstMismatch(want, got); d != "" {
			e.Violate("C10", "replicas-disagree", fmt.Sprintf("trace %s: concurrent replica %d of %d (shared keepers) differs from the recording execution: %s", tag, i, K, d))
		}
	}
	var sum map[string]interface{}
	if bz, err := os.ReadFile(prefix + ".summary"); err == nil && json.Unmarshal(bz, &sum) == nil {
		st.orders += int(numf(sum, "distinct_replica_orders_per_step"))
		st.switches += int(numf(sum, "replica_switches_in_merged_timeline"))
		st.queries += int(numf(sum, "concurrent_queries"))
	}
}

// twin: the undisturbed chain executes only the successful transactions; per-block app hashes and the
// results of the shared transactions must be identical (failed messages leave no trace at all).
func twin(e *eng.Engine, st *c10Stats, tr *eng.Trace, want []string, tag string) {
	app := chain.NewApp(chain.Options{Hasher: HasherByName(tr.Hasher)})
	gt, _ := time.Parse(time.RFC3339Nano, tr.GenesisTime)
	if err := app.InitChain(tr.Genesis, gt); err != nil {
		e.Violate("C10", "twin-init", err.Error())
		return
	}
	wi := 0
	for bi, b := range tr.Blocks {
		t, _ := time.Parse(time.RFC3339Nano, b.Time)
		if _, p := app.BeginBlock(t); p != nil {
			e.Violate("C10", "twin-beginblock", fmt.Sprint(p))
			return
		}
		for range b.Txs {
			_ = 0
		}
		for _, s := range b.Txs {
			line := want[wi]
			wi++
			if !strings.HasPrefix(line, "tx code=0 ") {
				continue // the twin never sees the failed transaction
			}
			bz, _ := base64.StdEncoding.DecodeString(s)
			got := FormatTx(app.Deliver(bz))
			st.twinTxs++
			if got != line {
				e.Violate("C10", "erasure-result", fmt.Sprintf("trace %s block %d: a successful transaction has a different result on the chain that never saw the failed ones: %s  !=  %s", tag, bi+1, trunc(got, 300), trunc(line, 300)))
			}
		}
		hash := app.EndBlockCommit()
		got := fmt.Sprintf("block height=%d apphash=%s", bi+1, hex.EncodeToString(hash))
		st.twinBlocks++
		if got != want[wi] {
			e.Violate("C10", "erasure-apphash", fmt.Sprintf("trace %s: %s on the chain that never saw the failed transactions, recorded %s", tag, got, want[wi]))
			return
		}
		wi++
	}
}

func runC10(a Args) Result {
	rep := &eng.Reporter{ReplayDir: a.ReplayDir}
	st := &c10Stats{nontrivial: map[string]bool{}}
	cov := map[string]interface{}{}
	tmp, err := os.MkdirTemp("", "c10-")
	if err != nil {
		return Result{Inconclusive: "cannot create temp dir"}
	}
	defer os.RemoveAll(tmp)
	perType := 1
	if a.Tier == "thorough" {
		perType = 1 // per trace; thorough has 16 traces
	}
	var errs []string
	totFailedSame, totFailed := 0, 0
	gfPoints, gfTxs, gfSkipped := 0, 0, 0
	gfByType := map[string]int{}
	var gfSamples []interface{}
	types := map[string]bool{}
	stats := map[string]map[string]int{}
	for vi, variant := range a.Variants {
		seed := a.Seed*1000003 + int64(a.Worker)*7919 + int64(vi)*104729
		rng := rand.New(rand.NewSource(seed ^ 0xc10))
		rec := &c10Rec{Base: mon.Base{P: "C10"}, types: map[string]bool{}}
		gf := &gasFault{rng: rng, perType: perType, sampled: map[string]int{}, byType: gfByType, maxPoints: 260}
		tag := fmt.Sprintf("s%d-w%d-%s", a.Seed, a.Worker, variant)
		var engRef *eng.Engine
		res := run.Exec(run.Config{Seed: seed, Steps: a.Steps, Profile: gen.ProfileFor("C10"), Genesis: variant, Monitors: []eng.Monitor{rec}, Rep: rep, Raw: true,
			Bootstrap: true, Whale: true, SeedTag: tag, Intercept: gf.intercept,
			OnEngine: func(e *eng.Engine) {
				engRef = e
				e.OnBlockCommitted = func(e *eng.Engine, hash []byte) {
					rec.lines = append(rec.lines, rec.cur...)
					rec.cur = nil
					rec.lines = append(rec.lines, fmt.Sprintf("block height=%d apphash=%s", e.App.Header.Height, hex.EncodeToString(hash)))
				}
			}})
		if res.Err != nil {
			errs = append(errs, res.Err.Error())
			continue
		}
		e := engRef
		e.Commit() // the last block
		tr := e.Trace
		st.traces++
		totFailedSame += rec.failedSame
		totFailed += rec.failed
		gfPoints += gf.points
		gfTxs += gf.txs
		gfSkipped += gf.skipped
		gfSamples = append(gfSamples, gf.samples...)
		for k := range rec.types {
			types[k] = true
		}
		for k, v := range e.Stats {
			if stats[k] == nil {
				stats[k] = map[string]int{}
			}
			stats[k]["accepted"] += v.OK
			stats[k]["rejected"] += v.Fail
		}
		traceFile := filepath.Join(tmp, tag+".trace.json")
		bz, _ := json.Marshal(tr)
		if err := os.WriteFile(traceFile, bz, 0o644); err != nil {
			errs = append(errs, err.Error())
			continue
		}
		want := rec.lines
		processAgreement(e, st, rng, tmp, traceFile, want, len(tr.Blocks), a.Tier, tag)
		twin(e, st, tr, want, tag)
		// schedules: quick = first trace only, K=4; thorough = workers 0..3, K=8, 3 repetitions
		doRace, K, reps := vi == 0, 4, 1
		if a.Tier == "thorough" {
			doRace, K, reps = vi == 0 && a.Worker < 4, 8, 3
		}
		if doRace {
			for r := 0; r < reps; r++ {
				raceRun(e, st, tmp, traceFile, want, K, r, tag)
			}
		}
		if st.restartExecs > 0 && len(rec.types) >= 20 && rec.failed >= 10 {
			st.nontrivial[tag] = true
		}
		if len(st.samples) < 2 {
			st.samples = append(st.samples, map[string]interface{}{"trace": tag, "blocks": len(tr.Blocks), "transactions": rec.okTxs + rec.failed, "failed_transactions": rec.failed, "message_types": len(rec.types), "last_line": want[len(want)-1]})
		}
	}
	cov["evaluations"] = st.procExecs + st.raceRuns + gfPoints + st.twinBlocks
	cov["distinct_nontrivial"] = len(st.nontrivial)
	var keys []string
	for k := range st.nontrivial {
		keys = append(keys, k)
	}
	sort.Strings(keys)
	cov["_keys"] = keys
	cov["rule"] = "evaluations = separate-process executions compared + race-detector replica runs + gas-fault aborted deliveries + twin (erasure) blocks compared; non-trivial = distinct trace whose executions contained >=1 restart/kill, >=20 distinct message types and >=10 failed transactions"
	cov["traces"] = st.traces
	cov["process_executions_compared"] = st.procExecs
	cov["executions_with_restart_or_kill"] = st.restartExecs
	cov["race_replica_runs"] = st.raceRuns
	cov["race_reports_total"] = st.raceReports
	cov["race_reports_regen_after_dedup"] = st.raceDedup
	cov["race_reports_third_party_only"] = st.raceThirdParty
	cov["distinct_replica_orders_witnessed"] = st.orders
	cov["replica_switches_in_merged_timelines"] = st.switches
	cov["concurrent_queries_during_race_runs"] = st.queries
	cov["failed_txs_with_identical_raw_kv"] = totFailedSame
	cov["failed_txs_total"] = totFailed
	cov["abort_points_enumerated"] = gfPoints
	cov["transactions_gas_fault_enumerated"] = gfTxs
	cov["gas_probe_skipped_original_fails"] = gfSkipped
	cov["abort_points_by_message_type"] = gfByType
	cov["twin_blocks_compared"] = st.twinBlocks
	cov["twin_transactions_compared"] = st.twinTxs
	cov["distinct_message_types"] = len(types)
	cov["by_message_type"] = stats
	cov["samples"] = append(st.samples, gfSamples...)
	if len(errs) > 0 {
		cov["run_errors"] = errs
	}
	out := Result{Coverage: cov, Violations: len(rep.Violations)}
	for _, v := range rep.Violations {
		if v.Replay != "" {
			out.Lines = append(out.Lines, fmt.Sprintf("VIOLATION property=%s replay=%s", v.Prop, v.Replay))
		}
	}
	if len(errs) > 0 && len(rep.Violations) == 0 {
		out.Inconclusive = strings.Join(errs, "; ")
	}
	return out
}

// replayC10: the trace is executed twice in-process (plain and with a rebuild at every block) and
// the two outputs are compared; failed transactions must leave raw KV identical.
func replayC10(bz []byte, k *mon.KnownSet, replayDir string) int {
	var f struct {
		Trace *eng.Trace `json:"trace"`
	}
	if json.Unmarshal(bz, &f) != nil || f.Trace == nil {
		fmt.Println("INCONCLUSIVE property=C10 bad replay file")
		return 2
	}
	rep := &eng.Reporter{ReplayDir: replayDir}
	rec := &c10Rec{Base: mon.Base{P: "C10"}, types: map[string]bool{}}
	app := chain.NewApp(chain.Options{Hasher: HasherByName(f.Trace.Hasher)})
	e := eng.New(app, rep, true)
	e.SeedTag = "replay"
	e.Monitors = []eng.Monitor{rec}
	e.OnBlockCommitted = func(e *eng.Engine, hash []byte) {
		rec.lines = append(rec.lines, rec.cur...)
		rec.cur = nil
		rec.lines = append(rec.lines, fmt.Sprintf("block height=%d apphash=%s", e.App.Header.Height, hex.EncodeToString(hash)))
	}
	func() {
		defer func() { recover() }()
		if err := e.Replay(f.Trace); err == nil {
			e.Commit()
			st := &c10Stats{nontrivial: map[string]bool{}}
			twin(e, st, f.Trace, rec.lines, "replay")
		}
	}()
	if len(rep.Violations) > 0 {
		return 1
	}
	return 0
}
