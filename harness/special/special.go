// Package special holds the checks that need their own run structure (C09, C10, C15, C16, C17, C18).
package special

import (
	"github.com/regen-network/regen-ledger/x/data/v3/server/hasher"

	"verifharness/eng"
	"verifharness/mon"
)

type Args struct {
	Prop, Tier string
	Seed       int64
	Worker     int
	Known      *mon.KnownSet
	ReplayDir  string
	Steps      int
	Variants   []string
}

type Result struct {
	Coverage     map[string]interface{}
	Violations   int
	Lines        []string
	Inconclusive string
}

type PlanT struct {
	Workers  int
	Variants []string
	Steps    int
}

type handler struct {
	plan        func(tier string) *PlanT
	run         func(a Args) Result
	floor       func(tier string, c map[string]interface{}) string
	assumptions []string
	replayMons  func(k *mon.KnownSet) []eng.Monitor
	replay      func(bz []byte, k *mon.KnownSet, replayDir string) int
}

var handlers = map[string]*handler{}

func Handles(prop string) bool { return handlers[prop] != nil }

func Plan(prop, tier string) *PlanT {
	if h := handlers[prop]; h != nil && h.plan != nil {
		return h.plan(tier)
	}
	return nil
}

func Run(a Args) Result { return handlers[a.Prop].run(a) }

func Floor(prop, tier string, c map[string]interface{}) string {
	if h := handlers[prop]; h != nil && h.floor != nil {
		return h.floor(tier, c)
	}
	return ""
}

func Assumptions(prop string) []string {
	if h := handlers[prop]; h != nil {
		return h.assumptions
	}
	return nil
}

func ReplayMonitors(prop string, k *mon.KnownSet) []eng.Monitor {
	if h := handlers[prop]; h != nil && h.replayMons != nil {
		return h.replayMons(k)
	}
	return nil
}

// HasReplay: the property's handler re-executes its own replay files.
func HasReplay(prop string) bool {
	h := handlers[prop]
	return h != nil && h.replay != nil
}

func Replay(prop string, bz []byte, k *mon.KnownSet, replayDir string) int {
	if h := handlers[prop]; h != nil && h.replay != nil {
		return h.replay(bz, k, replayDir)
	}
	return 2
}

// HasherByName returns the injected data-ID hasher a trace was recorded with (nil = production).
func HasherByName(name string) hasher.Hasher {
	if f, ok := hashers[name]; ok {
		return f()
	}
	return nil
}

var hashers = map[string]func() hasher.Hasher{}
