package special

import (
	"crypto/sha256"
	"fmt"
	"hash"
	"hash/fnv"
	"sort"
	"strings"

	"github.com/regen-network/regen-ledger/x/data/v3/server/hasher"

	"verifharness/chain"
	"verifharness/eng"
	"verifharness/gen"
	"verifharness/mon"
	"verifharness/run"
)

// weakHash is a hash.Hash with only N distinct outputs of a chosen length.
type weakHash struct {
	buf    []byte
	n      uint32
	size   int
	repeat bool // all output bytes equal (successive collision indices yield the same candidate id)
}

func (w *weakHash) Write(p []byte) (int, error) { w.buf = append(w.buf, p...); return len(p), nil }
func (w *weakHash) Reset()                      { w.buf = nil }
func (w *weakHash) Size() int                   { return w.size }
func (w *weakHash) BlockSize() int              { return 1 }
func (w *weakHash) Sum(b []byte) []byte {
	f := fnv.New32a()
	f.Write(w.buf)
	class := uint32(0)
	if w.n > 0 {
		class = f.Sum32() % w.n
	}
	out := make([]byte, w.size)
	if w.repeat {
		for i := range out {
			out[i] = byte(class + 1)
		}
	} else {
		h := sha256.Sum256([]byte(fmt.Sprintf("class-%d", class)))
		copy(out, h[:])
	}
	return append(b, out...)
}

func mkHasher(n uint32, size, minLen int, repeat bool) func() hasher.Hasher {
	return func() hasher.Hasher {
		h, err := hasher.NewHasherWithOptions(hasher.HashOptions{NewHash: func() hash.Hash { return &weakHash{n: n, size: size, repeat: repeat} }, MinLength: minLen})
		if err != nil {
			panic(err)
		}
		return h
	}
}

type hasherSpec struct {
	name            string
	minLen, hashLen int
}

var hasherSpecs = []hasherSpec{
	{"production", 4, 8},
	{"const", 4, 8}, {"mod2", 4, 8}, {"mod4", 4, 8}, {"mod16", 4, 8},
	{"repeat4", 4, 8}, {"minlen8-mod4", 8, 8}, {"hash1byte-mod3", 1, 1}, {"const-repeat", 4, 8}, {"mod16-minlen1", 1, 8},
}

func init() {
	hashers["const"] = mkHasher(1, 8, 4, false)
	hashers["mod2"] = mkHasher(2, 8, 4, false)
	hashers["mod4"] = mkHasher(4, 8, 4, false)
	hashers["mod16"] = mkHasher(16, 8, 4, false)
	hashers["repeat4"] = mkHasher(4, 8, 4, true)
	hashers["minlen8-mod4"] = mkHasher(4, 8, 8, false)
	hashers["hash1byte-mod3"] = mkHasher(3, 1, 1, false)
	hashers["const-repeat"] = mkHasher(1, 8, 4, true)
	hashers["mod16-minlen1"] = mkHasher(16, 8, 1, false)

	handlers["C16"] = &handler{
		plan: func(tier string) *PlanT {
			if tier == "thorough" {
				return &PlanT{Workers: 16, Variants: []string{"default"}, Steps: 2000}
			}
			return &PlanT{Workers: 1, Variants: []string{"default"}, Steps: 600}
		},
		run: runC16,
		floor: func(tier string, c map[string]interface{}) string {
			if numf(c, "distinct_nontrivial") < 100 || numf(c, "max_collision_chain_length") < 10 || numf(c, "ids_in_varint_fallback") < 10 || numf(c, "reanchors_of_collided_iris") < 20 {
				return fmt.Sprintf("coverage floor not reached: distinct_nontrivial=%v max_collision_chain_length=%v ids_in_varint_fallback=%v reanchors_of_collided_iris=%v", c["distinct_nontrivial"], c["max_collision_chain_length"], c["ids_in_varint_fallback"], c["reanchors_of_collided_iris"])
			}
			return ""
		},
		assumptions: []string{"weak hashers are injected through the verif-tagged constructor x/data/server.NewServerWithHasher and built with the production hasher.NewHasherWithOptions (the production CreateID code runs; only the hash.Hash is weak)"},
		replayMons:  func(k *mon.KnownSet) []eng.Monitor { return []eng.Monitor{mon.NewC16()} },
	}
}

func runC16(a Args) Result {
	rep := &eng.Reporter{ReplayDir: a.ReplayDir}
	cov := map[string]interface{}{}
	specs := hasherSpecs
	if a.Tier == "quick" {
		specs = []hasherSpec{hasherSpecs[0], hasherSpecs[1], hasherSpecs[3], hasherSpecs[5], hasherSpecs[6], hasherSpecs[7]}
	}
	var errs []string
	var names []string
	per := map[string]interface{}{}
	for hi, sp := range specs {
		m := mon.NewC16()
		m.MinLen, m.HashLen = sp.minLen, sp.hashLen
		app := chain.NewApp(chain.Options{Hasher: HasherByName(sp.name)})
		seed := a.Seed*1000003 + int64(a.Worker)*7919 + int64(hi)*104729
		tag := fmt.Sprintf("s%d-w%d-%s", a.Seed, a.Worker, sp.name)
		res := run.Exec(run.Config{Seed: seed, Steps: a.Steps, Profile: gen.ProfileFor("C16"), Genesis: "default", Monitors: []eng.Monitor{m}, Rep: rep, App: app,
			SeedTag: tag, OnEngine: func(e *eng.Engine) { e.HasherID = sp.name }})
		if res.Err != nil {
			errs = append(errs, res.Err.Error())
		}
		c := map[string]interface{}{}
		m.Finish(res.Engine, c)
		// merge into the run's coverage: sums, max for max_*, union of keys (prefixed by hasher)
		if ks, ok := c["_keys"].([]string); ok {
			var l []string
			if o, ok := cov["_keys"].([]string); ok {
				l = o
			}
			for _, k := range ks {
				l = append(l, sp.name+"/"+k)
			}
			cov["_keys"] = l
		}
		for k, v := range c {
			switch x := v.(type) {
			case int:
				if strings.HasPrefix(k, "max_") {
					if o, _ := cov[k].(int); x > o {
						cov[k] = x
					}
				} else {
					o, _ := cov[k].(int)
					cov[k] = o + x
				}
			case string:
				cov[k] = x
			case []interface{}:
				if o, ok := cov[k].([]interface{}); ok {
					if len(o) < 6 {
						cov[k] = append(o, x...)
					}
				} else {
					cov[k] = x
				}
			}
		}
		per[sp.name] = map[string]interface{}{"iris": c["iris_tracked"], "collided_iris": c["distinct_nontrivial"], "max_chain": c["max_collision_chain_length"], "varint_ids": c["ids_in_varint_fallback"]}
		names = append(names, sp.name)
	}
	if ks, ok := cov["_keys"].([]string); ok {
		sort.Strings(ks)
		cov["distinct_nontrivial"] = len(ks)
	}
	cov["hashers"] = names
	cov["per_hasher"] = per
	if len(errs) > 0 {
		cov["run_errors"] = errs
	}
	out := Result{Coverage: cov, Violations: len(rep.Violations)}
	for _, v := range rep.Violations {
		if v.Replay != "" {
			out.Lines = append(out.Lines, fmt.Sprintf("VIOLATION property=%s replay=%s", v.Prop, v.Replay))
		}
	}
	if len(errs) > 0 && len(rep.Violations) == 0 {
		out.Inconclusive = strings.Join(errs, "; ")
	}
	return out
}
