package special

import (
	"crypto/sha256"
	"fmt"
	"math/big"
	"sort"
	"strings"

	"github.com/cosmos/cosmos-sdk/types/bech32"
	"github.com/cosmos/cosmos-sdk/types/query"
	gogoproto "github.com/cosmos/gogoproto/proto"
	gogotypes "github.com/cosmos/gogoproto/types"
	"google.golang.org/protobuf/proto"
	"google.golang.org/protobuf/types/known/timestamppb"

	dataapi "github.com/regen-network/regen-ledger/api/v2/regen/data/v1"
	basketapi "github.com/regen-network/regen-ledger/api/v2/regen/ecocredit/basket/v1"
	marketapi "github.com/regen-network/regen-ledger/api/v2/regen/ecocredit/marketplace/v1"
	baseapi "github.com/regen-network/regen-ledger/api/v2/regen/ecocredit/v1"
	"github.com/regen-network/regen-ledger/x/data/v3"
	basetypes "github.com/regen-network/regen-ledger/x/ecocredit/v3/base/types/v1"
	baskettypes "github.com/regen-network/regen-ledger/x/ecocredit/v3/basket/types/v1"
	markettypes "github.com/regen-network/regen-ledger/x/ecocredit/v3/marketplace/types/v1"

	"verifharness/chain"
	"verifharness/obs"
)

const (
	pBase   = "/regen.ecocredit.v1.Query/"
	pBasket = "/regen.ecocredit.basket.v1.Query/"
	pMarket = "/regen.ecocredit.marketplace.v1.Query/"
	pData   = "/regen.data.v2.Query/"
)

// ---------------------------------------------------------------------------------------------
// expected response items, built from scanned rows only

func gts(t *timestamppb.Timestamp) *gogotypes.Timestamp {
	if t == nil {
		return nil
	}
	return &gogotypes.Timestamp{Seconds: t.Seconds, Nanos: t.Nanos}
}

func (c *qc) cached(row interface{}, tag string, f func() string) string {
	type key struct {
		r interface{}
		t string
	}
	k := key{row, tag}
	if s, ok := c.jsCache[k]; ok {
		return s
	}
	s := f()
	c.jsCache[k] = s
	return s
}

// toGogo transcodes a state row into the gogoproto type the response declares for it (same message).
func toGogo(from proto.Message, to gogoproto.Message) {
	bz, err := proto.Marshal(from)
	if err != nil {
		panic(err)
	}
	if err := gogoproto.Unmarshal(bz, to); err != nil {
		panic(err)
	}
}

func (c *qc) classInfo(cl *baseapi.Class) string {
	return c.cached(cl, "", func() string {
		return c.js(&basetypes.ClassInfo{Id: cl.Id, Admin: obs.Addr(cl.Admin), Metadata: cl.Metadata, CreditTypeAbbrev: cl.CreditTypeAbbrev})
	})
}

func (c *qc) projectInfoMsg(p *baseapi.Project) *basetypes.ProjectInfo {
	cid := "<dangling class key>"
	if cl := c.v.Classes[p.ClassKey]; cl != nil {
		cid = cl.Id
	}
	return &basetypes.ProjectInfo{Id: p.Id, Admin: obs.Addr(p.Admin), ClassId: cid, Jurisdiction: p.Jurisdiction, Metadata: p.Metadata, ReferenceId: p.ReferenceId}
}

func (c *qc) projectInfo(p *baseapi.Project) string {
	return c.cached(p, "", func() string { return c.js(c.projectInfoMsg(p)) })
}

func (c *qc) batchInfoMsg(b *baseapi.Batch) *basetypes.BatchInfo {
	pid := "<dangling project key>"
	if p := c.v.Projects[b.ProjectKey]; p != nil {
		pid = p.Id
	}
	return &basetypes.BatchInfo{Issuer: obs.Addr(b.Issuer), ProjectId: pid, Denom: b.Denom, Metadata: b.Metadata,
		StartDate: gts(b.StartDate), EndDate: gts(b.EndDate), IssuanceDate: gts(b.IssuanceDate), Open: b.Open}
}

func (c *qc) batchInfo(b *baseapi.Batch) string {
	return c.cached(b, "", func() string { return c.js(c.batchInfoMsg(b)) })
}

func (c *qc) balInfoMsg(b *baseapi.BatchBalance) *basetypes.BatchBalanceInfo {
	den := "<dangling batch key>"
	if bt := c.v.Batches[b.BatchKey]; bt != nil {
		den = bt.Denom
	}
	return &basetypes.BatchBalanceInfo{Address: obs.Addr(b.Address), BatchDenom: den, TradableAmount: b.TradableAmount, RetiredAmount: b.RetiredAmount, EscrowedAmount: b.EscrowedAmount}
}

func (c *qc) balInfo(b *baseapi.BatchBalance) string {
	return c.cached(b, "", func() string { return c.js(c.balInfoMsg(b)) })
}

func (c *qc) orderInfoMsg(o *marketapi.SellOrder) *markettypes.SellOrderInfo {
	den, ask := "<dangling batch key>", "<dangling market id>"
	if bt := c.v.Batches[o.BatchKey]; bt != nil {
		den = bt.Denom
	}
	if m := c.v.Markets[o.MarketId]; m != nil {
		ask = m.BankDenom
	}
	return &markettypes.SellOrderInfo{Id: o.Id, Seller: obs.Addr(o.Seller), BatchDenom: den, Quantity: o.Quantity, AskDenom: ask, AskAmount: o.AskAmount,
		DisableAutoRetire: o.DisableAutoRetire, Expiration: gts(o.Expiration)}
}

func (c *qc) orderInfo(o *marketapi.SellOrder) string {
	return c.cached(o, "", func() string { return c.js(c.orderInfoMsg(o)) })
}

func (c *qc) basketInfoMsg(b *basketapi.Basket) *baskettypes.BasketInfo {
	bi := &baskettypes.BasketInfo{BasketDenom: b.BasketDenom, Name: b.Name, DisableAutoRetire: b.DisableAutoRetire, CreditTypeAbbrev: b.CreditTypeAbbrev,
		Exponent: b.Exponent, Curator: obs.Addr(b.Curator)}
	if b.DateCriteria != nil {
		dc := &baskettypes.DateCriteria{}
		toGogo(b.DateCriteria, dc)
		bi.DateCriteria = dc
	}
	return bi
}

func pairJS(a, b string) string { return `{"state_row":` + a + `,"info":` + b + `}` }

// basketPair: the deprecated Baskets entry (the state row) next to its BasketsInfo entry.
func (c *qc) basketPair(b *basketapi.Basket) string {
	return c.cached(b, "pair", func() string {
		row := &baskettypes.Basket{}
		toGogo(b, row)
		return pairJS(c.js(row), c.js(c.basketInfoMsg(b)))
	})
}

func (c *qc) bbPair(b *basketapi.BasketBalance) string {
	return c.cached(b, "pair", func() string {
		row := &baskettypes.BasketBalance{}
		toGogo(b, row)
		return pairJS(c.js(row), c.js(&baskettypes.BasketBalanceInfo{BatchDenom: b.BatchDenom, Balance: b.Balance}))
	})
}

func (c *qc) attInfo(a *dataapi.DataAttestor) string {
	return c.cached(a, "", func() string {
		iri, ok := c.v.IRIByID[string(a.Id)]
		if !ok {
			iri = "<dangling data id>"
		}
		return c.js(&data.AttestationInfo{Iri: iri, Attestor: obs.Addr(a.Attestor), Timestamp: gts(a.Timestamp)})
	})
}

func (c *qc) resInfo(r *dataapi.Resolver) string {
	return c.cached(r, "", func() string {
		return c.js(&data.ResolverInfo{Id: r.Id, Url: r.Url, Manager: obs.Addr(r.Manager)})
	})
}

// ---------------------------------------------------------------------------------------------
// filter values

func (c *qc) addr(b []byte) string {
	s := obs.Addr(b)
	if s != "" {
		c.goodAddr[s] = true
		c.addrRaw[s] = append([]byte(nil), b...)
	}
	return s
}

// buildAddrPool collects every address that occurs anywhere in the observed tables.
func (c *qc) buildAddrPool() {
	set := map[string]bool{}
	add := func(b []byte) {
		if len(b) > 0 {
			set[c.addr(b)] = true
		}
	}
	v := c.v
	for _, x := range v.ClassList {
		add(x.Admin)
	}
	for _, t := range []string{obs.TClassIssuer} {
		if tb := c.sn.Tables[t]; tb != nil {
			for _, r := range tb.Rows {
				add(r.Msg.(*baseapi.ClassIssuer).Issuer)
			}
		}
	}
	for _, x := range v.ProjectList {
		add(x.Admin)
	}
	for _, x := range v.BatchList {
		add(x.Issuer)
	}
	for _, x := range v.BalanceList {
		add(x.Row.Address)
	}
	for _, x := range v.OrderList {
		add(x.Seller)
	}
	for _, x := range v.BasketList {
		add(x.Curator)
	}
	for _, x := range v.Attestors {
		add(x.Attestor)
	}
	for _, x := range v.ResolverList {
		add(x.Manager)
	}
	if tb := c.sn.Tables[obs.TAllowedCreator]; tb != nil {
		for _, r := range tb.Rows {
			add(r.Msg.(*baseapi.AllowedClassCreator).Address)
		}
	}
	for s := range set {
		c.addrPool = append(c.addrPool, s)
	}
	sort.Strings(c.addrPool)
}

// relatedGroups returns, for a sorted list of distinct strings (compared through key()), the values
// that are a proper prefix of another value, each followed by its extensions.
func relatedGroups(sorted []string, key func(string) string) [][]string {
	ks := make([]string, len(sorted))
	for i, s := range sorted {
		ks[i] = key(s)
	}
	idx := make([]int, len(sorted))
	for i := range idx {
		idx[i] = i
	}
	sort.Slice(idx, func(a, b int) bool { return ks[idx[a]] < ks[idx[b]] })
	var groups [][]string
	for a := 0; a < len(idx); a++ {
		root := ks[idx[a]]
		if root == "" {
			continue
		}
		var g []string
		for b := a + 1; b < len(idx) && strings.HasPrefix(ks[idx[b]], root); b++ {
			if ks[idx[b]] != root {
				g = append(g, sorted[idx[b]])
			}
		}
		if len(g) > 0 {
			groups = append(groups, append([]string{sorted[idx[a]]}, g...))
		}
	}
	return groups
}

// chooseFilters: every prefix-related present value (up to relCap, whole root+extension groups),
// a PRNG sample of the other present values, mangled neighbours of some of them, fixed absent values.
func (c *qc) chooseFilters(present []string, key func(string) string, mangle func(string) []fv, absent []fv) []fv {
	set := map[string]bool{}
	var distinct []string
	for _, s := range present {
		if !set[s] {
			set[s] = true
			distinct = append(distinct, s)
		}
	}
	sort.Strings(distinct)
	var out []fv
	seen := map[string]bool{}
	add := func(f fv) {
		if !seen[f.s] {
			seen[f.s] = true
			out = append(out, f)
		}
	}
	groups := relatedGroups(distinct, key)
	c.r.Shuffle(len(groups), func(i, j int) { groups[i], groups[j] = groups[j], groups[i] })
	var chosen []string
	nrel := 0
	for _, g := range groups {
		if nrel >= c.relCap {
			break
		}
		for i, s := range g {
			if i > 3 { // root + up to three extensions per group
				break
			}
			if !seen[s] {
				add(fv{s, "present"})
				chosen = append(chosen, s)
				nrel++
			}
		}
	}
	perm := c.r.Perm(len(distinct))
	n := 0
	for _, i := range perm {
		if n >= c.nSample {
			break
		}
		if !seen[distinct[i]] {
			add(fv{distinct[i], "present"})
			chosen = append(chosen, distinct[i])
			n++
		}
	}
	if mangle != nil {
		c.r.Shuffle(len(chosen), func(i, j int) { chosen[i], chosen[j] = chosen[j], chosen[i] })
		for i, s := range chosen {
			if i >= c.nMangle {
				break
			}
			for _, m := range mangle(s) {
				if set[m.s] {
					m.origin = "present"
				}
				add(m)
			}
		}
	}
	for _, a := range absent {
		if set[a.s] {
			a.origin = "present"
		}
		add(a)
	}
	return out
}

func ident(s string) string { return s }

func mangleID(s string) []fv {
	var out []fv
	if len(s) > 1 {
		out = append(out, fv{s[:len(s)-1], "prefix-of-present"})
	}
	out = append(out, fv{s + "0", "extension-of-present"}, fv{s + "-", "extension-of-present"})
	if l := strings.ToLower(s); l != s {
		out = append(out, fv{l, "absent"})
	}
	return out
}

// mangleDenom: a batch denom with one more / one less trailing digit, and the next sequence number.
func mangleDenom(s string) []fv {
	out := []fv{{s + "0", "extension-of-present"}, {s + "1", "extension-of-present"}}
	if len(s) > 1 {
		out = append(out, fv{s[:len(s)-1], "prefix-of-present"})
	}
	if i := strings.LastIndexByte(s, '-'); i > 0 {
		out = append(out, fv{s[:i], "prefix-of-present"})
	}
	return out
}

func (c *qc) classFilters() []fv {
	var p []string
	for _, x := range c.v.ClassList {
		p = append(p, x.Id)
	}
	return c.chooseFilters(p, ident, mangleID, []fv{{"", "absent"}, {"ZZZ999", "absent"}, {"C", "absent"}, {"C1", "absent"}, {"C0", "absent"}})
}

func (c *qc) projectFilters() []fv {
	var p []string
	for _, x := range c.v.ProjectList {
		p = append(p, x.Id)
	}
	abs := []fv{{"", "absent"}, {"ZZZ999-001", "absent"}}
	// a class id is a prefix of its projects' ids
	if len(c.v.ClassList) > 0 {
		abs = append(abs, fv{c.v.ClassList[c.r.Intn(len(c.v.ClassList))].Id, "prefix-of-present"})
	}
	return c.chooseFilters(p, ident, mangleID, abs)
}

func (c *qc) denomFilters(only func(*baseapi.Batch) bool) []fv {
	var p, pref []string
	for _, x := range c.v.BatchList {
		if only == nil || only(x) {
			pref = append(pref, x.Denom)
		}
		p = append(p, x.Denom)
	}
	// prefer batches that have rows for this query, fill with the rest
	if len(pref) >= c.nSample {
		p = pref
	}
	abs := []fv{{"", "absent"}, {"C01-001-20200101-20210101-999", "absent"}, {"not a denom", "malformed"}}
	if len(c.v.ProjectList) > 0 {
		abs = append(abs, fv{c.v.ProjectList[c.r.Intn(len(c.v.ProjectList))].Id, "prefix-of-present"})
	}
	return c.chooseFilters(p, ident, mangleDenom, abs)
}

func (c *qc) rawKey(s string) string { return string(c.addrRaw[s]) }

func (c *qc) mangleAddr(s string) []fv {
	b := c.addrRaw[s]
	var out []fv
	if len(b) == 0 {
		return nil
	}
	fl := append([]byte(nil), b...)
	fl[len(fl)-1] ^= 1
	out = append(out, fv{c.addr(fl), "last-byte"})
	if len(b) > 1 {
		out = append(out, fv{c.addr(b[:len(b)-1]), "prefix-of-present"})
	}
	out = append(out, fv{c.addr(append(append([]byte(nil), b...), 0)), "extension-of-present"})
	// the same bytes under a foreign prefix, and a damaged checksum: malformed for this chain
	if f, err := bech32.ConvertAndEncode("cosmos", b); err == nil {
		out = append(out, fv{f, "malformed"})
	}
	last := s[len(s)-1]
	repl := byte('q')
	if last == 'q' {
		repl = 'p'
	}
	out = append(out, fv{s[:len(s)-1] + string(repl), "malformed"})
	return out
}

func (c *qc) addrFilters() []fv {
	abs := []fv{{"", "malformed"}, {"regen1", "malformed"}, {"not-an-address", "malformed"}}
	h := sha256.Sum256([]byte("c17-absent-address"))
	abs = append(abs, fv{c.addr(h[:20]), "absent"}, fv{c.addr(h[:32]), "absent"})
	save := c.nSample
	if c.nSample < 10 {
		c.nSample = 10 // there are few addresses: take (almost) all of them
	}
	out := c.chooseFilters(c.addrPool, c.rawKey, c.mangleAddr, abs)
	c.nSample = save
	return out
}

func (c *qc) iriFilters() []fv {
	var p []string
	attested := map[string]bool{}
	for _, a := range c.v.Attestors {
		attested[string(a.Id)] = true
	}
	for _, r := range c.v.DataResolver {
		attested[string(r.Id)] = true
	}
	var pref []string
	for _, d := range c.v.DataIDs {
		p = append(p, d.Iri)
		if attested[string(d.Id)] {
			pref = append(pref, d.Iri)
		}
	}
	if len(pref) >= c.nSample {
		// most anchored data has neither attestations nor resolvers: sample where rows are
		p = append(pref, p[:min(len(p), 2)]...)
	}
	h := sha256.Sum256([]byte("c17-absent-content"))
	abs := []fv{{"", "malformed"}, {"regen:notaniri", "malformed"}}
	if iri, err := (data.ContentHash{Graph: &data.ContentHash_Graph{Hash: h[:], DigestAlgorithm: 1, CanonicalizationAlgorithm: 1}}).ToIRI(); err == nil {
		abs = append(abs, fv{iri, "absent"})
	}
	if iri, err := (data.ContentHash{Raw: &data.ContentHash_Raw{Hash: h[:], DigestAlgorithm: 1, FileExtension: "csv"}}).ToIRI(); err == nil {
		abs = append(abs, fv{iri, "absent"})
	}
	mangle := func(s string) []fv {
		out := []fv{{s + "0", "extension-of-present"}}
		if len(s) > 1 {
			out = append(out, fv{s[:len(s)-1], "prefix-of-present"})
		}
		if i := strings.LastIndexByte(s, '.'); i > 0 {
			out = append(out, fv{s[:i], "prefix-of-present"}, fv{s[:i] + ".bin", "absent"})
		}
		return out
	}
	return c.chooseFilters(p, ident, mangle, abs)
}

func min(a, b int) int {
	if a < b {
		return a
	}
	return b
}

// ---------------------------------------------------------------------------------------------
// the list queries

func all(c *qc, f string) bool { return true }

func (c *qc) isGoodAddr(f string) bool { return c.goodAddr[f] }

func c17ListQueries() []*listQuery {
	var qs []*listQuery
	add := func(q *listQuery) { qs = append(qs, q) }

	// ---- base: classes
	add(&listQuery{name: "base/Classes", paged: true,
		call: func(c *qc, f string, pr *query.PageRequest) ([]string, *query.PageResponse, error) {
			var r basetypes.QueryClassesResponse
			err := c.q(pBase+"Classes", &basetypes.QueryClassesRequest{Pagination: pr}, &r)
			return jsl(c, r.Classes), r.Pagination, err
		},
		expect: func(c *qc, f string) ([]string, bool) {
			var out []string
			for _, x := range c.v.ClassList {
				out = append(out, c.classInfo(x))
			}
			return out, true
		}})
	add(&listQuery{name: "base/ClassesByAdmin", paged: true, filtered: true,
		call: func(c *qc, f string, pr *query.PageRequest) ([]string, *query.PageResponse, error) {
			var r basetypes.QueryClassesByAdminResponse
			err := c.q(pBase+"ClassesByAdmin", &basetypes.QueryClassesByAdminRequest{Admin: f, Pagination: pr}, &r)
			return jsl(c, r.Classes), r.Pagination, err
		},
		expect: func(c *qc, f string) ([]string, bool) {
			var out []string
			for _, x := range c.v.ClassList {
				if f != "" && obs.Addr(x.Admin) == f {
					out = append(out, c.classInfo(x))
				}
			}
			return out, c.isGoodAddr(f)
		},
		filters: func(c *qc) []fv { return c.addrFilters() }})
	add(&listQuery{name: "base/ClassIssuers", paged: true, filtered: true,
		call: func(c *qc, f string, pr *query.PageRequest) ([]string, *query.PageResponse, error) {
			var r basetypes.QueryClassIssuersResponse
			err := c.q(pBase+"ClassIssuers", &basetypes.QueryClassIssuersRequest{ClassId: f, Pagination: pr}, &r)
			return r.Issuers, r.Pagination, err
		},
		expect: func(c *qc, f string) ([]string, bool) {
			cl := c.v.ClassByID[f]
			if cl == nil {
				return nil, false
			}
			var out []string
			if tb := c.sn.Tables[obs.TClassIssuer]; tb != nil {
				for _, r := range tb.Rows {
					if m := r.Msg.(*baseapi.ClassIssuer); m.ClassKey == cl.Key {
						out = append(out, obs.Addr(m.Issuer))
					}
				}
			}
			return out, true
		},
		filters: func(c *qc) []fv { return c.classFilters() }})

	// ---- base: projects
	add(&listQuery{name: "base/Projects", paged: true,
		call: func(c *qc, f string, pr *query.PageRequest) ([]string, *query.PageResponse, error) {
			var r basetypes.QueryProjectsResponse
			err := c.q(pBase+"Projects", &basetypes.QueryProjectsRequest{Pagination: pr}, &r)
			return jsl(c, r.Projects), r.Pagination, err
		},
		expect: func(c *qc, f string) ([]string, bool) {
			var out []string
			for _, x := range c.v.ProjectList {
				out = append(out, c.projectInfo(x))
			}
			return out, true
		}})
	add(&listQuery{name: "base/ProjectsByClass", paged: true, filtered: true,
		call: func(c *qc, f string, pr *query.PageRequest) ([]string, *query.PageResponse, error) {
			var r basetypes.QueryProjectsByClassResponse
			err := c.q(pBase+"ProjectsByClass", &basetypes.QueryProjectsByClassRequest{ClassId: f, Pagination: pr}, &r)
			return jsl(c, r.Projects), r.Pagination, err
		},
		expect: func(c *qc, f string) ([]string, bool) {
			cl := c.v.ClassByID[f]
			if cl == nil {
				return nil, false
			}
			var out []string
			for _, x := range c.v.ProjectList {
				if x.ClassKey == cl.Key {
					out = append(out, c.projectInfo(x))
				}
			}
			return out, true
		},
		filters: func(c *qc) []fv { return c.classFilters() }})
	add(&listQuery{name: "base/ProjectsByReferenceId", paged: true, filtered: true,
		call: func(c *qc, f string, pr *query.PageRequest) ([]string, *query.PageResponse, error) {
			var r basetypes.QueryProjectsByReferenceIdResponse
			err := c.q(pBase+"ProjectsByReferenceId", &basetypes.QueryProjectsByReferenceIdRequest{ReferenceId: f, Pagination: pr}, &r)
			return jsl(c, r.Projects), r.Pagination, err
		},
		expect: func(c *qc, f string) ([]string, bool) {
			if f == "" {
				return nil, false // documented: an empty reference id is rejected
			}
			var out []string
			for _, x := range c.v.ProjectList {
				if x.ReferenceId == f {
					out = append(out, c.projectInfo(x))
				}
			}
			return out, true
		},
		filters: func(c *qc) []fv {
			var p []string
			for _, x := range c.v.ProjectList {
				if x.ReferenceId != "" {
					p = append(p, x.ReferenceId)
				}
			}
			return c.chooseFilters(p, ident, func(s string) []fv {
				out := []fv{{s + "0", "extension-of-present"}, {strings.ToLower(s), "absent"}}
				if len(s) > 1 {
					out = append(out, fv{s[:len(s)-1], "prefix-of-present"})
				}
				return out
			}, []fv{{"", "absent"}, {"NO-SUCH-REFERENCE", "absent"}, {"VCS-", "prefix-of-present"}, {"REF-", "prefix-of-present"}})
		}})
	add(&listQuery{name: "base/ProjectsByAdmin", paged: true, filtered: true,
		call: func(c *qc, f string, pr *query.PageRequest) ([]string, *query.PageResponse, error) {
			var r basetypes.QueryProjectsByAdminResponse
			err := c.q(pBase+"ProjectsByAdmin", &basetypes.QueryProjectsByAdminRequest{Admin: f, Pagination: pr}, &r)
			return jsl(c, r.Projects), r.Pagination, err
		},
		expect: func(c *qc, f string) ([]string, bool) {
			var out []string
			for _, x := range c.v.ProjectList {
				if f != "" && obs.Addr(x.Admin) == f {
					out = append(out, c.projectInfo(x))
				}
			}
			return out, c.isGoodAddr(f)
		},
		filters: func(c *qc) []fv { return c.addrFilters() }})

	// ---- base: batches
	add(&listQuery{name: "base/Batches", paged: true,
		call: func(c *qc, f string, pr *query.PageRequest) ([]string, *query.PageResponse, error) {
			var r basetypes.QueryBatchesResponse
			err := c.q(pBase+"Batches", &basetypes.QueryBatchesRequest{Pagination: pr}, &r)
			return jsl(c, r.Batches), r.Pagination, err
		},
		expect: func(c *qc, f string) ([]string, bool) {
			var out []string
			for _, x := range c.v.BatchList {
				out = append(out, c.batchInfo(x))
			}
			return out, true
		}})
	add(&listQuery{name: "base/BatchesByIssuer", paged: true, filtered: true,
		call: func(c *qc, f string, pr *query.PageRequest) ([]string, *query.PageResponse, error) {
			var r basetypes.QueryBatchesByIssuerResponse
			err := c.q(pBase+"BatchesByIssuer", &basetypes.QueryBatchesByIssuerRequest{Issuer: f, Pagination: pr}, &r)
			return jsl(c, r.Batches), r.Pagination, err
		},
		expect: func(c *qc, f string) ([]string, bool) {
			var out []string
			for _, x := range c.v.BatchList {
				if f != "" && obs.Addr(x.Issuer) == f {
					out = append(out, c.batchInfo(x))
				}
			}
			return out, c.isGoodAddr(f)
		},
		filters: func(c *qc) []fv { return c.addrFilters() }})
	add(&listQuery{name: "base/BatchesByClass", paged: true, filtered: true,
		call: func(c *qc, f string, pr *query.PageRequest) ([]string, *query.PageResponse, error) {
			var r basetypes.QueryBatchesByClassResponse
			err := c.q(pBase+"BatchesByClass", &basetypes.QueryBatchesByClassRequest{ClassId: f, Pagination: pr}, &r)
			return jsl(c, r.Batches), r.Pagination, err
		},
		expect: func(c *qc, f string) ([]string, bool) {
			cl := c.v.ClassByID[f]
			if cl == nil {
				return nil, false
			}
			// batch → project → class (the class a batch was issued under)
			var out []string
			for _, x := range c.v.BatchList {
				if p := c.v.Projects[x.ProjectKey]; p != nil && p.ClassKey == cl.Key {
					out = append(out, c.batchInfo(x))
				}
			}
			return out, true
		},
		filters: func(c *qc) []fv { return c.classFilters() }})
	add(&listQuery{name: "base/BatchesByProject", paged: true, filtered: true,
		call: func(c *qc, f string, pr *query.PageRequest) ([]string, *query.PageResponse, error) {
			var r basetypes.QueryBatchesByProjectResponse
			err := c.q(pBase+"BatchesByProject", &basetypes.QueryBatchesByProjectRequest{ProjectId: f, Pagination: pr}, &r)
			return jsl(c, r.Batches), r.Pagination, err
		},
		expect: func(c *qc, f string) ([]string, bool) {
			p := c.v.ProjectByID[f]
			if p == nil {
				return nil, false
			}
			var out []string
			for _, x := range c.v.BatchList {
				if x.ProjectKey == p.Key {
					out = append(out, c.batchInfo(x))
				}
			}
			return out, true
		},
		filters: func(c *qc) []fv { return c.projectFilters() }})

	// ---- base: balances
	add(&listQuery{name: "base/Balances", paged: true, filtered: true,
		call: func(c *qc, f string, pr *query.PageRequest) ([]string, *query.PageResponse, error) {
			var r basetypes.QueryBalancesResponse
			err := c.q(pBase+"Balances", &basetypes.QueryBalancesRequest{Address: f, Pagination: pr}, &r)
			return jsl(c, r.Balances), r.Pagination, err
		},
		expect: func(c *qc, f string) ([]string, bool) {
			var out []string
			for _, x := range c.v.BalanceList {
				if f != "" && obs.Addr(x.Row.Address) == f {
					out = append(out, c.balInfo(x.Row))
				}
			}
			return out, c.isGoodAddr(f)
		},
		filters: func(c *qc) []fv { return c.addrFilters() }})
	add(&listQuery{name: "base/BalancesByBatch", paged: true, filtered: true,
		call: func(c *qc, f string, pr *query.PageRequest) ([]string, *query.PageResponse, error) {
			var r basetypes.QueryBalancesByBatchResponse
			err := c.q(pBase+"BalancesByBatch", &basetypes.QueryBalancesByBatchRequest{BatchDenom: f, Pagination: pr}, &r)
			return jsl(c, r.Balances), r.Pagination, err
		},
		expect: func(c *qc, f string) ([]string, bool) {
			b := c.v.BatchByDenom[f]
			if b == nil {
				return nil, false
			}
			var out []string
			for _, x := range c.v.BalanceList {
				if x.Row.BatchKey == b.Key {
					out = append(out, c.balInfo(x.Row))
				}
			}
			return out, true
		},
		filters: func(c *qc) []fv { return c.denomFilters(nil) }})
	add(&listQuery{name: "base/AllBalances", paged: true,
		call: func(c *qc, f string, pr *query.PageRequest) ([]string, *query.PageResponse, error) {
			var r basetypes.QueryAllBalancesResponse
			err := c.q(pBase+"AllBalances", &basetypes.QueryAllBalancesRequest{Pagination: pr}, &r)
			return jsl(c, r.Balances), r.Pagination, err
		},
		expect: func(c *qc, f string) ([]string, bool) {
			var out []string
			for _, x := range c.v.BalanceList {
				out = append(out, c.balInfo(x.Row))
			}
			return out, true
		}})
	add(&listQuery{name: "base/AllowedClassCreators", paged: true,
		call: func(c *qc, f string, pr *query.PageRequest) ([]string, *query.PageResponse, error) {
			var r basetypes.QueryAllowedClassCreatorsResponse
			err := c.q(pBase+"AllowedClassCreators", &basetypes.QueryAllowedClassCreatorsRequest{Pagination: pr}, &r)
			return r.ClassCreators, r.Pagination, err
		},
		expect: func(c *qc, f string) ([]string, bool) {
			var out []string
			if tb := c.sn.Tables[obs.TAllowedCreator]; tb != nil {
				for _, r := range tb.Rows {
					out = append(out, obs.Addr(r.Msg.(*baseapi.AllowedClassCreator).Address))
				}
			}
			return out, true
		}})
	add(&listQuery{name: "base/CreditTypes",
		call: func(c *qc, f string, pr *query.PageRequest) ([]string, *query.PageResponse, error) {
			var r basetypes.QueryCreditTypesResponse
			err := c.q(pBase+"CreditTypes", &basetypes.QueryCreditTypesRequest{}, &r)
			return jsl(c, r.CreditTypes), nil, err
		},
		expect: func(c *qc, f string) ([]string, bool) {
			var out []string
			for _, x := range c.v.CreditTypes {
				out = append(out, c.js(&basetypes.CreditType{Abbreviation: x.Abbreviation, Name: x.Name, Unit: x.Unit, Precision: x.Precision}))
			}
			return out, true
		}})
	add(&listQuery{name: "base/AllowedBridgeChains",
		call: func(c *qc, f string, pr *query.PageRequest) ([]string, *query.PageResponse, error) {
			var r basetypes.QueryAllowedBridgeChainsResponse
			err := c.q(pBase+"AllowedBridgeChains", &basetypes.QueryAllowedBridgeChainsRequest{}, &r)
			return r.AllowedBridgeChains, nil, err
		},
		expect: func(c *qc, f string) ([]string, bool) {
			var out []string
			for x := range c.v.BridgeChains {
				out = append(out, x)
			}
			return out, true
		}})

	// ---- basket
	add(&listQuery{name: "basket/Baskets", paged: true,
		call: func(c *qc, f string, pr *query.PageRequest) ([]string, *query.PageResponse, error) {
			var r baskettypes.QueryBasketsResponse
			err := c.q(pBasket+"Baskets", &baskettypes.QueryBasketsRequest{Pagination: pr}, &r)
			if err == nil && len(r.Baskets) != len(r.BasketsInfo) {
				return nil, nil, fmt.Errorf("response carries %d baskets but %d baskets_info entries", len(r.Baskets), len(r.BasketsInfo))
			}
			var out []string
			for i := range r.Baskets {
				out = append(out, pairJS(c.js(r.Baskets[i]), c.js(r.BasketsInfo[i])))
			}
			return out, r.Pagination, err
		},
		expect: func(c *qc, f string) ([]string, bool) {
			var out []string
			for _, x := range c.v.BasketList {
				out = append(out, c.basketPair(x))
			}
			return out, true
		}})
	add(&listQuery{name: "basket/BasketBalances", paged: true, filtered: true,
		call: func(c *qc, f string, pr *query.PageRequest) ([]string, *query.PageResponse, error) {
			var r baskettypes.QueryBasketBalancesResponse
			err := c.q(pBasket+"BasketBalances", &baskettypes.QueryBasketBalancesRequest{BasketDenom: f, Pagination: pr}, &r)
			if err == nil && len(r.Balances) != len(r.BalancesInfo) {
				return nil, nil, fmt.Errorf("response carries %d balances but %d balances_info entries", len(r.Balances), len(r.BalancesInfo))
			}
			var out []string
			for i := range r.Balances {
				out = append(out, pairJS(c.js(r.Balances[i]), c.js(r.BalancesInfo[i])))
			}
			return out, r.Pagination, err
		},
		expect: func(c *qc, f string) ([]string, bool) {
			b := c.v.BasketByDenom[f]
			if b == nil {
				return nil, false
			}
			var out []string
			for _, x := range c.v.BasketBalList {
				if x.BasketId == b.Id {
					out = append(out, c.bbPair(x))
				}
			}
			return out, true
		},
		filters: func(c *qc) []fv {
			var p []string
			for _, x := range c.v.BasketList {
				p = append(p, x.BasketDenom)
			}
			save := c.nSample
			if c.nSample < 8 {
				c.nSample = 8
			}
			defer func() { c.nSample = save }()
			return c.chooseFilters(p, ident, func(s string) []fv {
				out := []fv{{s + "0", "extension-of-present"}}
				if len(s) > 1 {
					out = append(out, fv{s[:len(s)-1], "prefix-of-present"})
				}
				return out
			}, []fv{{"", "absent"}, {"eco.uC.NOSUCH", "absent"}, {"eco.uC.", "prefix-of-present"}})
		}})

	// ---- marketplace
	add(&listQuery{name: "marketplace/SellOrders", paged: true,
		call: func(c *qc, f string, pr *query.PageRequest) ([]string, *query.PageResponse, error) {
			var r markettypes.QuerySellOrdersResponse
			err := c.q(pMarket+"SellOrders", &markettypes.QuerySellOrdersRequest{Pagination: pr}, &r)
			return jsl(c, r.SellOrders), r.Pagination, err
		},
		expect: func(c *qc, f string) ([]string, bool) {
			var out []string
			for _, x := range c.v.OrderList {
				out = append(out, c.orderInfo(x))
			}
			return out, true
		}})
	add(&listQuery{name: "marketplace/SellOrdersByBatch", paged: true, filtered: true,
		call: func(c *qc, f string, pr *query.PageRequest) ([]string, *query.PageResponse, error) {
			var r markettypes.QuerySellOrdersByBatchResponse
			err := c.q(pMarket+"SellOrdersByBatch", &markettypes.QuerySellOrdersByBatchRequest{BatchDenom: f, Pagination: pr}, &r)
			return jsl(c, r.SellOrders), r.Pagination, err
		},
		expect: func(c *qc, f string) ([]string, bool) {
			b := c.v.BatchByDenom[f]
			if b == nil {
				return nil, false
			}
			var out []string
			for _, x := range c.v.OrderList {
				if x.BatchKey == b.Key {
					out = append(out, c.orderInfo(x))
				}
			}
			return out, true
		},
		filters: func(c *qc) []fv {
			has := map[uint64]bool{}
			for _, o := range c.v.OrderList {
				has[o.BatchKey] = true
			}
			return c.denomFilters(func(b *baseapi.Batch) bool { return has[b.Key] })
		}})
	add(&listQuery{name: "marketplace/SellOrdersBySeller", paged: true, filtered: true,
		call: func(c *qc, f string, pr *query.PageRequest) ([]string, *query.PageResponse, error) {
			var r markettypes.QuerySellOrdersBySellerResponse
			err := c.q(pMarket+"SellOrdersBySeller", &markettypes.QuerySellOrdersBySellerRequest{Seller: f, Pagination: pr}, &r)
			return jsl(c, r.SellOrders), r.Pagination, err
		},
		expect: func(c *qc, f string) ([]string, bool) {
			var out []string
			for _, x := range c.v.OrderList {
				if f != "" && obs.Addr(x.Seller) == f {
					out = append(out, c.orderInfo(x))
				}
			}
			return out, c.isGoodAddr(f)
		},
		filters: func(c *qc) []fv { return c.addrFilters() }})
	add(&listQuery{name: "marketplace/AllowedDenoms", paged: true,
		call: func(c *qc, f string, pr *query.PageRequest) ([]string, *query.PageResponse, error) {
			var r markettypes.QueryAllowedDenomsResponse
			err := c.q(pMarket+"AllowedDenoms", &markettypes.QueryAllowedDenomsRequest{Pagination: pr}, &r)
			return jsl(c, r.AllowedDenoms), r.Pagination, err
		},
		expect: func(c *qc, f string) ([]string, bool) {
			var out []string
			for _, x := range c.v.AllowedDenoms {
				out = append(out, c.js(&markettypes.AllowedDenom{BankDenom: x.BankDenom, DisplayDenom: x.DisplayDenom, Exponent: x.Exponent}))
			}
			return out, true
		}})

	// ---- data
	add(&listQuery{name: "data/AttestationsByAttestor", paged: true, filtered: true,
		call: func(c *qc, f string, pr *query.PageRequest) ([]string, *query.PageResponse, error) {
			var r data.QueryAttestationsByAttestorResponse
			err := c.q(pData+"AttestationsByAttestor", &data.QueryAttestationsByAttestorRequest{Attestor: f, Pagination: pr}, &r)
			return jsl(c, r.Attestations), r.Pagination, err
		},
		expect: func(c *qc, f string) ([]string, bool) {
			var out []string
			for _, x := range c.v.Attestors {
				if f != "" && obs.Addr(x.Attestor) == f {
					out = append(out, c.attInfo(x))
				}
			}
			return out, c.isGoodAddr(f)
		},
		filters: func(c *qc) []fv { return c.addrFilters() }})
	attByID := func(c *qc, iri string) ([]string, bool) {
		id, ok := c.v.IDByIRI[iri]
		if !ok {
			return nil, false
		}
		var out []string
		for _, x := range c.v.Attestors {
			if string(x.Id) == id {
				out = append(out, c.attInfo(x))
			}
		}
		return out, true
	}
	resByID := func(c *qc, iri string) ([]string, bool) {
		id, ok := c.v.IDByIRI[iri]
		if !ok {
			return nil, false
		}
		var out []string
		for _, x := range c.v.DataResolver {
			if string(x.Id) == id {
				if r := c.v.Resolvers[x.ResolverId]; r != nil {
					out = append(out, c.resInfo(r))
				} else {
					out = append(out, fmt.Sprintf("<dangling resolver id %d>", x.ResolverId))
				}
			}
		}
		return out, true
	}
	// by-hash: the hash is mapped to its IRI by the module's pure function, then brute force
	hashOf := func(f string) (*data.ContentHash, string, bool) {
		ch, err := data.ParseIRI(f)
		if err != nil || ch == nil {
			return nil, "", false
		}
		iri, err := ch.ToIRI()
		if err != nil {
			return nil, "", false
		}
		return ch, iri, true
	}
	hashFilters := func(c *qc) []fv {
		var out []fv
		for _, f := range c.iriFilters() {
			if _, _, ok := hashOf(f.s); ok {
				out = append(out, f)
			}
		}
		return out
	}
	add(&listQuery{name: "data/AttestationsByIRI", paged: true, filtered: true,
		call: func(c *qc, f string, pr *query.PageRequest) ([]string, *query.PageResponse, error) {
			var r data.QueryAttestationsByIRIResponse
			err := c.q(pData+"AttestationsByIRI", &data.QueryAttestationsByIRIRequest{Iri: f, Pagination: pr}, &r)
			return jsl(c, r.Attestations), r.Pagination, err
		},
		expect:  attByID,
		filters: func(c *qc) []fv { return c.iriFilters() }})
	add(&listQuery{name: "data/AttestationsByHash", paged: true, filtered: true,
		call: func(c *qc, f string, pr *query.PageRequest) ([]string, *query.PageResponse, error) {
			ch, _, _ := hashOf(f)
			var r data.QueryAttestationsByHashResponse
			err := c.q(pData+"AttestationsByHash", &data.QueryAttestationsByHashRequest{ContentHash: ch, Pagination: pr}, &r)
			return jsl(c, r.Attestations), r.Pagination, err
		},
		expect: func(c *qc, f string) ([]string, bool) {
			_, iri, _ := hashOf(f)
			return attByID(c, iri)
		},
		filters: hashFilters})
	add(&listQuery{name: "data/ResolversByIRI", paged: true, filtered: true,
		call: func(c *qc, f string, pr *query.PageRequest) ([]string, *query.PageResponse, error) {
			var r data.QueryResolversByIRIResponse
			err := c.q(pData+"ResolversByIRI", &data.QueryResolversByIRIRequest{Iri: f, Pagination: pr}, &r)
			return jsl(c, r.Resolvers), r.Pagination, err
		},
		expect:  resByID,
		filters: func(c *qc) []fv { return c.iriFilters() }})
	add(&listQuery{name: "data/ResolversByHash", paged: true, filtered: true,
		call: func(c *qc, f string, pr *query.PageRequest) ([]string, *query.PageResponse, error) {
			ch, _, _ := hashOf(f)
			var r data.QueryResolversByHashResponse
			err := c.q(pData+"ResolversByHash", &data.QueryResolversByHashRequest{ContentHash: ch, Pagination: pr}, &r)
			return jsl(c, r.Resolvers), r.Pagination, err
		},
		expect: func(c *qc, f string) ([]string, bool) {
			_, iri, _ := hashOf(f)
			return resByID(c, iri)
		},
		filters: hashFilters})
	add(&listQuery{name: "data/ResolversByURL", paged: true, filtered: true,
		call: func(c *qc, f string, pr *query.PageRequest) ([]string, *query.PageResponse, error) {
			var r data.QueryResolversByURLResponse
			err := c.q(pData+"ResolversByURL", &data.QueryResolversByURLRequest{Url: f, Pagination: pr}, &r)
			return jsl(c, r.Resolvers), r.Pagination, err
		},
		expect: func(c *qc, f string) ([]string, bool) {
			if f == "" {
				return nil, false // documented: an empty URL is rejected
			}
			var out []string
			for _, x := range c.v.ResolverList {
				if x.Url == f {
					out = append(out, c.resInfo(x))
				}
			}
			return out, true
		},
		filters: func(c *qc) []fv {
			var p []string
			for _, x := range c.v.ResolverList {
				p = append(p, x.Url)
			}
			save := c.nSample
			if c.nSample < 8 {
				c.nSample = 8
			}
			defer func() { c.nSample = save }()
			return c.chooseFilters(p, ident, func(s string) []fv {
				out := []fv{{s + "2", "extension-of-present"}, {s + "/", "extension-of-present"}}
				if len(s) > 1 {
					out = append(out, fv{s[:len(s)-1], "prefix-of-present"})
				}
				return out
			}, []fv{{"", "absent"}, {"https://no-such-resolver.example", "absent"}, {"https://", "prefix-of-present"}})
		}})
	return qs
}

// ---------------------------------------------------------------------------------------------
// single-entity queries

// single compares one single-entity answer. present: the entity is in the scanned state and the
// answer must be exp; otherwise the handler must fail, or return absentOK when that is documented.
func (c *qc) single(name, key string, present bool, exp string, absentOK string, call func() (string, error)) {
	st := c.st
	st.evaluations++
	st.singleEvals++
	st.byQuery[name]++
	got, err := call()
	cs := map[string]interface{}{"query": name, "key": key, "present_in_state": present, "expected": trunc(exp, 600), "got": trunc(got, 600)}
	if err != nil {
		cs["error"] = err.Error()
	}
	switch {
	case present && err != nil:
		c.violate(name+"/error-for-present-entity", fmt.Sprintf("%s(%s) fails although the entity is in state: %v", name, key, trunc(err.Error(), 300)), cs)
	case present && got != exp:
		c.violate(name+"/content", fmt.Sprintf("%s(%s) returns %s, scanned state says %s", name, key, trunc(got, 400), trunc(exp, 400)), cs)
	case !present && err == nil:
		if absentOK != "" && got == absentOK {
			return
		}
		c.violate(name+"/answer-for-absent-entity", fmt.Sprintf("%s(%s) answers %s for an entity that is not in state", name, key, trunc(got, 400)), cs)
	case !present:
		st.absent++
		st.absentErrs++
	}
}

func sampleIdx(c *qc, n, k int) []int {
	p := c.r.Perm(n)
	if len(p) > k {
		p = p[:k]
	}
	sort.Ints(p)
	return p
}

func coinJS(denom, amount string) string {
	a, ok := new(big.Int).SetString(amount, 10)
	if !ok {
		a = new(big.Int)
	}
	return fmt.Sprintf("%s|%s", denom, a.String())
}

func (c *qc) evalSingles() {
	v := c.v
	// ---- Class
	ids := []string{}
	for _, x := range v.ClassList {
		ids = append(ids, x.Id)
	}
	var keys []string
	for _, f := range c.chooseFilters(ids, ident, mangleID, []fv{{"", "absent"}, {"ZZZ999", "absent"}}) {
		keys = append(keys, f.s)
	}
	for _, id := range keys {
		id := id
		cl := v.ClassByID[id]
		exp := ""
		if cl != nil {
			exp = c.classInfo(cl)
		}
		c.single("base/Class", id, cl != nil, exp, "", func() (string, error) {
			var r basetypes.QueryClassResponse
			if err := c.q(pBase+"Class", &basetypes.QueryClassRequest{ClassId: id}, &r); err != nil {
				return "", err
			}
			if r.Class == nil {
				return "<nil>", nil
			}
			return c.js(r.Class), nil
		})
	}
	// ---- Project
	ids = ids[:0]
	for _, x := range v.ProjectList {
		ids = append(ids, x.Id)
	}
	for _, f := range c.chooseFilters(ids, ident, mangleID, []fv{{"", "absent"}, {"ZZZ999-001", "absent"}}) {
		id := f.s
		p := v.ProjectByID[id]
		exp := ""
		if p != nil {
			exp = c.projectInfo(p)
		}
		c.single("base/Project", id, p != nil, exp, "", func() (string, error) {
			var r basetypes.QueryProjectResponse
			if err := c.q(pBase+"Project", &basetypes.QueryProjectRequest{ProjectId: id}, &r); err != nil {
				return "", err
			}
			if r.Project == nil {
				return "<nil>", nil
			}
			return c.js(r.Project), nil
		})
	}
	// ---- Batch, Supply, Balance
	denomF := c.denomFilters(nil)
	for _, f := range denomF {
		den := f.s
		b := v.BatchByDenom[den]
		exp := ""
		if b != nil {
			exp = c.batchInfo(b)
		}
		c.single("base/Batch", den, b != nil, exp, "", func() (string, error) {
			var r basetypes.QueryBatchResponse
			if err := c.q(pBase+"Batch", &basetypes.QueryBatchRequest{BatchDenom: den}, &r); err != nil {
				return "", err
			}
			if r.Batch == nil {
				return "<nil>", nil
			}
			return c.js(r.Batch), nil
		})
		var sup *obs.Sup
		if b != nil {
			sup = v.Supplies[b.Key]
		}
		exp = ""
		if sup != nil {
			exp = c.js(&basetypes.QuerySupplyResponse{TradableAmount: sup.Row.TradableAmount, RetiredAmount: sup.Row.RetiredAmount, CancelledAmount: sup.Row.CancelledAmount})
		}
		c.single("base/Supply", den, sup != nil, exp, "", func() (string, error) {
			var r basetypes.QuerySupplyResponse
			if err := c.q(pBase+"Supply", &basetypes.QuerySupplyRequest{BatchDenom: den}, &r); err != nil {
				return "", err
			}
			return c.js(&r), nil
		})
	}
	// Balance: sampled rows, the same batches for addresses without a row (documented: zeros), absent batch / malformed address
	balCall := func(addr, den string) func() (string, error) {
		return func() (string, error) {
			var r basetypes.QueryBalanceResponse
			if err := c.q(pBase+"Balance", &basetypes.QueryBalanceRequest{Address: addr, BatchDenom: den}, &r); err != nil {
				return "", err
			}
			if r.Balance == nil {
				return "<nil>", nil
			}
			return c.js(r.Balance), nil
		}
	}
	for _, i := range sampleIdx(c, len(v.BalanceList), c.nSingle) {
		row := v.BalanceList[i].Row
		b := v.Batches[row.BatchKey]
		if b == nil {
			continue
		}
		a := c.addr(row.Address)
		c.single("base/Balance", a+","+b.Denom, true, c.balInfo(row), "", balCall(a, b.Denom))
		for _, m := range c.mangleAddr(a) {
			if !c.goodAddr[m.s] {
				c.single("base/Balance", m.s+","+b.Denom, false, "", "", balCall(m.s, b.Denom))
				continue
			}
			if o, ok := v.Balances[obs.BalKey{Addr: m.s, BatchKey: b.Key}]; ok {
				c.single("base/Balance", m.s+","+b.Denom, true, c.balInfo(o.Row), "", balCall(m.s, b.Denom))
			} else {
				zero := c.js(&basetypes.BatchBalanceInfo{Address: m.s, BatchDenom: b.Denom, TradableAmount: "0", RetiredAmount: "0", EscrowedAmount: "0"})
				c.single("base/Balance", m.s+","+b.Denom, false, "", zero, balCall(m.s, b.Denom))
			}
		}
		for _, m := range mangleDenom(b.Denom)[:2] {
			if ob := v.BatchByDenom[m.s]; ob == nil {
				c.single("base/Balance", a+","+m.s, false, "", "", balCall(a, m.s))
			}
		}
	}
	// ---- CreditType
	cts := []string{"", "ZZ", "c", "C1"}
	for k := range v.CreditTypes {
		cts = append(cts, k, k+"C", strings.ToLower(k))
		if len(k) > 1 {
			cts = append(cts, k[:len(k)-1])
		}
	}
	sort.Strings(cts)
	seenCT := map[string]bool{}
	for _, ab := range cts {
		if seenCT[ab] {
			continue
		}
		seenCT[ab] = true
		ab := ab
		ct := v.CreditTypes[ab]
		exp := ""
		if ct != nil {
			exp = c.js(&basetypes.CreditType{Abbreviation: ct.Abbreviation, Name: ct.Name, Unit: ct.Unit, Precision: ct.Precision})
		}
		c.single("base/CreditType", ab, ct != nil, exp, "", func() (string, error) {
			var r basetypes.QueryCreditTypeResponse
			if err := c.q(pBase+"CreditType", &basetypes.QueryCreditTypeRequest{Abbreviation: ab}, &r); err != nil {
				return "", err
			}
			if r.CreditType == nil {
				return "<nil>", nil
			}
			return c.js(r.CreditType), nil
		})
	}
	// ---- singletons: ClassFee, ClassCreatorAllowlist, BasketFee
	feeExp := func(d, a string, set bool) string {
		if !set {
			return coinJS("", "0")
		}
		return coinJS(d, a)
	}
	{
		exp := feeExp("", "", false)
		if v.ClassFee != nil && v.ClassFee.Fee != nil {
			exp = feeExp(v.ClassFee.Fee.Denom, v.ClassFee.Fee.Amount, true)
		}
		c.single("base/ClassFee", "", true, exp, "", func() (string, error) {
			var r basetypes.QueryClassFeeResponse
			if err := c.q(pBase+"ClassFee", &basetypes.QueryClassFeeRequest{}, &r); err != nil {
				return "", err
			}
			if r.Fee == nil {
				return coinJS("", "0"), nil
			}
			amt := "0"
			if !r.Fee.Amount.IsNil() {
				amt = r.Fee.Amount.String()
			}
			return coinJS(r.Fee.Denom, amt), nil
		})
		exp = feeExp("", "", false)
		if v.BasketFee != nil && v.BasketFee.Fee != nil {
			exp = feeExp(v.BasketFee.Fee.Denom, v.BasketFee.Fee.Amount, true)
		}
		c.single("basket/BasketFee", "", true, exp, "", func() (string, error) {
			var r baskettypes.QueryBasketFeeResponse
			if err := c.q(pBasket+"BasketFee", &baskettypes.QueryBasketFeeRequest{}, &r); err != nil {
				return "", err
			}
			if r.Fee == nil {
				return coinJS("", "0"), nil
			}
			amt := "0"
			if !r.Fee.Amount.IsNil() {
				amt = r.Fee.Amount.String()
			}
			return coinJS(r.Fee.Denom, amt), nil
		})
		c.single("base/ClassCreatorAllowlist", "", true, fmt.Sprint(v.Allowlist), "", func() (string, error) {
			var r basetypes.QueryClassCreatorAllowlistResponse
			if err := c.q(pBase+"ClassCreatorAllowlist", &basetypes.QueryClassCreatorAllowlistRequest{}, &r); err != nil {
				return "", err
			}
			return fmt.Sprint(r.Enabled), nil
		})
	}
	c.evalParams()

	// ---- Basket, BasketBalance
	var bds []string
	for _, x := range v.BasketList {
		bds = append(bds, x.BasketDenom)
	}
	for _, f := range c.chooseFilters(bds, ident, func(s string) []fv {
		return []fv{{s + "0", "extension-of-present"}, {s[:len(s)-1], "prefix-of-present"}}
	}, []fv{{"", "absent"}, {"eco.uC.NOSUCH", "absent"}}) {
		bd := f.s
		b := v.BasketByDenom[bd]
		exp := ""
		if b != nil {
			row := &baskettypes.Basket{}
			toGogo(b, row)
			var cls []string
			for k := range v.BasketClasses[b.Id] {
				cls = append(cls, k)
			}
			sort.Strings(cls)
			exp = c.js(row) + "|" + c.js(c.basketInfoMsg(b)) + "|" + strings.Join(cls, ",")
		}
		c.single("basket/Basket", bd, b != nil, exp, "", func() (string, error) {
			var r baskettypes.QueryBasketResponse
			if err := c.q(pBasket+"Basket", &baskettypes.QueryBasketRequest{BasketDenom: bd}, &r); err != nil {
				return "", err
			}
			if r.Basket == nil || r.BasketInfo == nil {
				return "<nil>", nil
			}
			cls := sortedCopy(r.Classes)
			return c.js(r.Basket) + "|" + c.js(r.BasketInfo) + "|" + strings.Join(cls, ","), nil
		})
	}
	bbCall := func(bd, den string) func() (string, error) {
		return func() (string, error) {
			var r baskettypes.QueryBasketBalanceResponse
			if err := c.q(pBasket+"BasketBalance", &baskettypes.QueryBasketBalanceRequest{BasketDenom: bd, BatchDenom: den}, &r); err != nil {
				return "", err
			}
			return r.Balance, nil
		}
	}
	for _, i := range sampleIdx(c, len(v.BasketBalList), c.nSingle) {
		row := v.BasketBalList[i]
		b := v.Baskets[row.BasketId]
		if b == nil {
			continue
		}
		c.single("basket/BasketBalance", b.BasketDenom+","+row.BatchDenom, true, row.Balance, "", bbCall(b.BasketDenom, row.BatchDenom))
		// another basket, same batch: the row of that basket, or the documented "0"
		for _, o := range v.BasketList {
			if o.Id == b.Id {
				continue
			}
			if or, ok := v.BasketBals[obs.BBKey{BasketID: o.Id, Denom: row.BatchDenom}]; ok {
				c.single("basket/BasketBalance", o.BasketDenom+","+row.BatchDenom, true, or.Balance, "", bbCall(o.BasketDenom, row.BatchDenom))
			} else if v.BatchByDenom[row.BatchDenom] != nil {
				c.single("basket/BasketBalance", o.BasketDenom+","+row.BatchDenom, false, "", "0", bbCall(o.BasketDenom, row.BatchDenom))
			}
			break
		}
		// absent batch / absent basket: error
		if v.BatchByDenom[row.BatchDenom+"0"] == nil {
			c.single("basket/BasketBalance", b.BasketDenom+","+row.BatchDenom+"0", false, "", "", bbCall(b.BasketDenom, row.BatchDenom+"0"))
		}
		if v.BasketByDenom[b.BasketDenom+"0"] == nil {
			c.single("basket/BasketBalance", b.BasketDenom+"0,"+row.BatchDenom, false, "", "", bbCall(b.BasketDenom+"0", row.BatchDenom))
		}
	}
	// ---- SellOrder
	var maxOrder uint64
	for _, o := range v.OrderList {
		if o.Id > maxOrder {
			maxOrder = o.Id
		}
	}
	oids := []uint64{0, maxOrder + 1, maxOrder + 1000}
	for _, i := range sampleIdx(c, len(v.OrderList), c.nSingle) {
		oids = append(oids, v.OrderList[i].Id, v.OrderList[i].Id*10, v.OrderList[i].Id*10+1)
	}
	seenO := map[uint64]bool{}
	for _, id := range oids {
		if seenO[id] {
			continue
		}
		seenO[id] = true
		id := id
		o := v.Orders[id]
		exp := ""
		if o != nil {
			exp = c.orderInfo(o)
		}
		c.single("marketplace/SellOrder", fmt.Sprint(id), o != nil, exp, "", func() (string, error) {
			var r markettypes.QuerySellOrderResponse
			if err := c.q(pMarket+"SellOrder", &markettypes.QuerySellOrderRequest{SellOrderId: id}, &r); err != nil {
				return "", err
			}
			if r.SellOrder == nil {
				return "<nil>", nil
			}
			return c.js(r.SellOrder), nil
		})
	}
	// ---- Resolver
	var maxRes uint64
	for _, r := range v.ResolverList {
		if r.Id > maxRes {
			maxRes = r.Id
		}
	}
	rids := []uint64{0, maxRes + 1, maxRes + 500}
	for _, i := range sampleIdx(c, len(v.ResolverList), c.nSingle) {
		rids = append(rids, v.ResolverList[i].Id, v.ResolverList[i].Id*10)
	}
	seenR := map[uint64]bool{}
	for _, id := range rids {
		if seenR[id] {
			continue
		}
		seenR[id] = true
		id := id
		rr := v.Resolvers[id]
		exp := ""
		if rr != nil {
			exp = c.resInfo(rr)
		}
		c.single("data/Resolver", fmt.Sprint(id), rr != nil, exp, "", func() (string, error) {
			var r data.QueryResolverResponse
			if err := c.q(pData+"Resolver", &data.QueryResolverRequest{Id: id}, &r); err != nil {
				return "", err
			}
			if r.Resolver == nil {
				return "<nil>", nil
			}
			return c.js(r.Resolver), nil
		})
	}
	// ---- anchors and conversions
	anchorExp := func(iri string, ch *data.ContentHash) (string, bool) {
		id, ok := v.IDByIRI[iri]
		if !ok {
			return "", false
		}
		an := v.Anchors[id]
		if an == nil {
			return "", false
		}
		return c.js(&data.AnchorInfo{Iri: iri, ContentHash: ch, Timestamp: gts(an.Timestamp)}), true
	}
	var iris []string
	for _, d := range v.DataIDs {
		iris = append(iris, d.Iri)
	}
	iriF := c.chooseFilters(iris, ident, func(s string) []fv {
		out := []fv{{s + "0", "extension-of-present"}, {s[:len(s)-1], "prefix-of-present"}}
		if i := strings.LastIndexByte(s, '.'); i > 0 {
			out = append(out, fv{s[:i] + ".bin", "absent"})
		}
		return out
	}, []fv{{"", "malformed"}, {"regen:notaniri", "malformed"}})
	for _, f := range iriF {
		iri := f.s
		ch, perr := data.ParseIRI(iri)
		exp, present := "", false
		if perr == nil {
			exp, present = anchorExp(iri, ch)
		}
		c.single("data/AnchorByIRI", iri, present, exp, "", func() (string, error) {
			var r data.QueryAnchorByIRIResponse
			if err := c.q(pData+"AnchorByIRI", &data.QueryAnchorByIRIRequest{Iri: iri}, &r); err != nil {
				return "", err
			}
			if r.Anchor == nil {
				return "<nil>", nil
			}
			return c.js(r.Anchor), nil
		})
		if perr != nil || ch == nil {
			// an IRI the module cannot parse cannot be converted either
			c.single("data/ConvertIRIToHash", iri, false, "", "", func() (string, error) {
				var r data.ConvertIRIToHashResponse
				if err := c.q(pData+"ConvertIRIToHash", &data.ConvertIRIToHashRequest{Iri: iri}, &r); err != nil {
					return "", err
				}
				return c.js(&r), nil
			})
			continue
		}
		if _, inState := v.IDByIRI[iri]; !inState {
			continue
		}
		// IRIs in state: IRI → hash → IRI through the two conversion queries must come back, and the
		// hash must find the same anchor row
		var got data.ConvertIRIToHashResponse
		c.single("data/ConvertIRIToHash", iri, true, c.js(ch), "", func() (string, error) {
			if err := c.q(pData+"ConvertIRIToHash", &data.ConvertIRIToHashRequest{Iri: iri}, &got); err != nil {
				return "", err
			}
			if got.ContentHash == nil {
				return "<nil>", nil
			}
			return c.js(got.ContentHash), nil
		})
		if got.ContentHash == nil {
			continue
		}
		if got.ContentHash.Validate() != nil {
			// a record anchored by an earlier binary (it can only come with a genesis file): its content
			// hash is not a valid ARGUMENT of a by-hash query today, so only the by-IRI queries are
			// required to reach it
			c.legacyHashes++
			continue
		}
		c.single("data/ConvertHashToIRI", iri, true, iri, "", func() (string, error) {
			var r data.ConvertHashToIRIResponse
			if err := c.q(pData+"ConvertHashToIRI", &data.ConvertHashToIRIRequest{ContentHash: got.ContentHash}, &r); err != nil {
				return "", err
			}
			return r.Iri, nil
		})
		exp2, present2 := anchorExp(iri, got.ContentHash)
		c.single("data/AnchorByHash", iri, present2, exp2, "", func() (string, error) {
			var r data.QueryAnchorByHashResponse
			if err := c.q(pData+"AnchorByHash", &data.QueryAnchorByHashRequest{ContentHash: got.ContentHash}, &r); err != nil {
				return "", err
			}
			if r.Anchor == nil {
				return "<nil>", nil
			}
			return c.js(r.Anchor), nil
		})
	}
	// a well-formed hash that was never anchored
	h := sha256.Sum256([]byte("c17-absent-content"))
	absent := &data.ContentHash{Graph: &data.ContentHash_Graph{Hash: h[:], DigestAlgorithm: 1, CanonicalizationAlgorithm: 1}}
	if iri, err := absent.ToIRI(); err == nil {
		if _, in := v.IDByIRI[iri]; !in {
			c.single("data/AnchorByHash", iri, false, "", "", func() (string, error) {
				var r data.QueryAnchorByHashResponse
				if err := c.q(pData+"AnchorByHash", &data.QueryAnchorByHashRequest{ContentHash: absent}, &r); err != nil {
					return "", err
				}
				return c.js(&r), nil
			})
		}
	}
}

// evalParams: the deprecated Params query aggregates six tables.
func (c *qc) evalParams() {
	v := c.v
	st := c.st
	st.evaluations++
	st.singleEvals++
	st.byQuery["base/Params"]++
	var r basetypes.QueryParamsResponse
	err := c.q(pBase+"Params", &basetypes.QueryParamsRequest{}, &r)
	classFeeSet := v.ClassFee != nil && v.ClassFee.Fee != nil
	basketFeeSet := v.BasketFee != nil && v.BasketFee.Fee != nil
	if err != nil {
		if (!classFeeSet || !basketFeeSet) && strings.Contains(err.Error(), "panicked") {
			what := c17ParamsWhat
			if st.known.Has(c17KnownParams) {
				c.e.Rep.KnownFinding("C17", c17KnownParams+" "+what)
				return
			}
			c.violate("base/Params/nil-fee-panic", fmt.Sprintf("Params fails in a state with class fee set=%v, basket fee set=%v: %v", classFeeSet, basketFeeSet, trunc(err.Error(), 300)),
				map[string]interface{}{"query": "base/Params", "request": "{}", "class_fee_set": classFeeSet, "basket_fee_set": basketFeeSet, "error": err.Error()})
			return
		}
		c.violate("base/Params/error", "Params fails: "+trunc(err.Error(), 300), map[string]interface{}{"query": "base/Params", "error": err.Error()})
		return
	}
	p := r.Params
	if p == nil {
		c.violate("base/Params/content", "Params returns no params", nil)
		return
	}
	var bad []string
	var creators []string
	if tb := c.sn.Tables[obs.TAllowedCreator]; tb != nil {
		for _, row := range tb.Rows {
			creators = append(creators, obs.Addr(row.Msg.(*baseapi.AllowedClassCreator).Address))
		}
	}
	if d := multisetDiff(p.AllowedClassCreators, creators); d != "" {
		bad = append(bad, "allowed_class_creators: "+d)
	}
	if p.AllowlistEnabled != v.Allowlist {
		bad = append(bad, fmt.Sprintf("allowlist_enabled=%v, state %v", p.AllowlistEnabled, v.Allowlist))
	}
	coins := func(l []string, set bool, d, a string) {
		exp := []string{}
		if set {
			exp = []string{coinJS(d, a)}
		}
		if dd := multisetDiff(l, exp); dd != "" {
			bad = append(bad, "fee: "+dd)
		}
	}
	var cf, bf []string
	for _, x := range p.CreditClassFee {
		cf = append(cf, coinJS(x.Denom, x.Amount.String()))
	}
	for _, x := range p.BasketFee {
		bf = append(bf, coinJS(x.Denom, x.Amount.String()))
	}
	if classFeeSet {
		coins(cf, true, v.ClassFee.Fee.Denom, v.ClassFee.Fee.Amount)
	}
	if basketFeeSet {
		coins(bf, true, v.BasketFee.Fee.Denom, v.BasketFee.Fee.Amount)
	}
	var gotD, expD []string
	for _, x := range p.AllowedDenoms {
		gotD = append(gotD, c.js(x))
	}
	for _, x := range v.AllowedDenoms {
		expD = append(expD, c.js(&basetypes.AllowedDenom{BankDenom: x.BankDenom, DisplayDenom: x.DisplayDenom, Exponent: x.Exponent}))
	}
	if d := multisetDiff(gotD, expD); d != "" {
		bad = append(bad, "allowed_denoms: "+d)
	}
	var expC []string
	for k := range v.BridgeChains {
		expC = append(expC, k)
	}
	if d := multisetDiff(p.AllowedBridgeChains, expC); d != "" {
		bad = append(bad, "allowed_bridge_chains: "+d)
	}
	if len(bad) > 0 {
		c.violate("base/Params/content", "Params differs from the scanned tables: "+strings.Join(bad, "; "), map[string]interface{}{"query": "base/Params", "differences": bad})
	}
}

var _ = chain.ChainID
