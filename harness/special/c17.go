package special

import (
	"encoding/hex"
	"encoding/json"
	"fmt"
	"math/rand"
	"os"
	"runtime/debug"
	"sort"
	"strings"

	"github.com/cosmos/cosmos-sdk/codec"
	"github.com/cosmos/cosmos-sdk/types/query"
	gogoproto "github.com/cosmos/gogoproto/proto"

	basetypes "github.com/regen-network/regen-ledger/x/ecocredit/v3/base/types/v1"

	"verifharness/chain"
	"verifharness/eng"
	"verifharness/gen"
	"verifharness/mon"
	"verifharness/obs"
	"verifharness/run"
)

// C17: queries return exactly the matching state; paging neither drops nor repeats.
//
// At quiescent points (chain committed, between blocks) every query of the four gRPC query services
// is sent through the real query router and compared with a brute-force filter over the harness's
// own table scans of the same state (c17_queries.go). The workload is the creation-heavy profile
// plus a C17-specific tilt (c17_tilt.go) that makes identifiers and addresses prefixes of one another.

const (
	c17DefaultLimit = 100 // what ormutil substitutes for a missing page request (query.DefaultLimit)
	c17KnownParams  = "F-C17a"
	c17ParamsWhat   = "the deprecated ecocredit Params query dereferences a nil fee (regentypes.CoinFromCosmosAPILegacy(nil), types/coin.go:34) and panics whenever the class fee or the basket fee is unset (genesis ClassFee {} or after governance removed the fee); the client gets a recovered panic instead of the parameters"
)

func init() {
	handlers["C17"] = &handler{
		plan: func(tier string) *PlanT {
			if tier == "thorough" {
				return &PlanT{Workers: 16, Variants: []string{"prefix", "default", "open"}, Steps: 4000}
			}
			return &PlanT{Workers: 1, Variants: []string{"prefix"}, Steps: 1800}
		},
		run: runC17,
		floor: func(tier string, c map[string]interface{}) string {
			qcov := numf(c, "queries_covered")
			if m, ok := c["by_query"].(map[string]interface{}); ok {
				qcov = float64(len(m)) // distinct names after the parent's merge (the plain counter is summed over workers)
			}
			if qcov < 40 || numf(c, "page_walks") < 200 || numf(c, "distinct_nontrivial") < 5 || numf(c, "default_limit_crossings") < 1 {
				return fmt.Sprintf("coverage floor not reached: queries_covered=%v (need 40) page_walks=%v (need 200) distinct_nontrivial=%v (need 5) default_limit_crossings=%v (need 1)",
					qcov, c["page_walks"], c["distinct_nontrivial"], c["default_limit_crossings"])
			}
			return ""
		},
		assumptions: []string{
			"queries are sent through BaseApp's gRPC query router with marshalled requests/responses on the committed state (no gRPC transport, no gateway)",
			"a request without a pagination object is answered with at most 100 items (ormutil substitutes query.DefaultLimit); limit=0 inside a page request is unlimited in the ORM; total is asserted only for offset paging with count_total=true",
			"for the by-hash data queries the content hash is mapped to its IRI with the module's pure ContentHash.ToIRI (C15 decides that function); everything after that lookup is brute force",
		},
		replay: replayC17,
	}
}

// ---------------------------------------------------------------------------------------------
// state shared by all checks of one worker

type c17State struct {
	known *mon.KnownSet
	tier  string

	evaluations   int
	listEvals     int
	singleEvals   int
	walks         int
	walks3        int
	states        int
	crossings     int
	absent        int
	absentErrs    int
	panics        int
	pastEnd       map[string]int
	byQuery       map[string]int
	rowsMax       map[string]int
	nontrivial    map[string]bool
	samples       []interface{}
	sampleKinds   map[string]int
	stateSummary  []interface{}
	maxPagesWalk  int
	queriesIssued int
}

func newC17State(k *mon.KnownSet, tier string) *c17State {
	return &c17State{known: k, tier: tier, pastEnd: map[string]int{}, byQuery: map[string]int{}, rowsMax: map[string]int{},
		nontrivial: map[string]bool{}, sampleKinds: map[string]int{}}
}

func (st *c17State) sample(kind string, max int, v map[string]interface{}) {
	if st.sampleKinds[kind] >= max {
		return
	}
	st.sampleKinds[kind]++
	v["kind"] = kind
	st.samples = append(st.samples, v)
}

// fv is one filter value.
type fv struct {
	s      string
	origin string // present | absent | prefix-of-present | extension-of-present | last-byte | malformed | ...
}

// listQuery describes one list query: how to call it and what the brute force expects.
type listQuery struct {
	name     string
	paged    bool
	filtered bool
	call     func(c *qc, f string, pr *query.PageRequest) ([]string, *query.PageResponse, error)
	// expect returns the brute-force result and whether the handler has to answer this value
	// (false: the documented behaviour may be an error, e.g. unknown class, malformed address).
	expect  func(c *qc, f string) (items []string, must bool)
	filters func(c *qc) []fv
}

// qc is the context of one checkQueries call (one state).
type qc struct {
	st                                *c17State
	e                                 *eng.Engine
	app                               *chain.App
	sn                                *obs.Snapshot
	v                                 *obs.View
	r                                 *rand.Rand
	where                             string
	seed                              int64
	nSample, relCap, nMangle, nSingle int
	legacyHashes                      int // records whose content hash is not a valid by-hash query argument (genesis-only)

	jsCache  map[interface{}]string
	goodAddr map[string]bool   // canonical bech32 strings built from bytes by the harness
	addrRaw  map[string][]byte // bech32 → bytes (byte-level prefix relation)
	addrPool []string
	viol     int
}

func (c *qc) violate(clause, msg string, cs map[string]interface{}) {
	c.viol++
	before := len(c.e.Rep.Violations)
	c.e.Violate("C17", clause, c.where+": "+msg)
	if len(c.e.Rep.Violations) <= before {
		return
	}
	v := c.e.Rep.Violations[len(c.e.Rep.Violations)-1]
	if v.Replay == "" {
		return
	}
	// make the replay file self-contained for this check: the failing request and the seed of the
	// filter/page-size sampling; the kind routes `check replay` to replayC17.
	bz, err := os.ReadFile(v.Replay)
	if err != nil {
		return
	}
	var doc map[string]json.RawMessage
	if json.Unmarshal(bz, &doc) != nil {
		return
	}
	if cs == nil {
		cs = map[string]interface{}{}
	}
	cs["check_seed"] = c.seed
	cs["tier"] = c.st.tier
	cs["height"] = c.app.Header.Height
	cs["where"] = c.where
	doc["kind"], _ = json.Marshal("c17-queries")
	doc["case"], _ = json.Marshal(cs)
	out, _ := json.MarshalIndent(doc, "", " ")
	_ = os.WriteFile(v.Replay, out, 0o644)
}

// q sends one query through the router; a handler panic is reported as an error.
func (c *qc) q(path string, req, resp codec.ProtoMarshaler) (err error) {
	c.st.queriesIssued++
	defer func() {
		if r := recover(); r != nil {
			c.st.panics++
			st := string(debug.Stack())
			if i := strings.Index(st, "/repo/"); i >= 0 {
				st = st[i:]
				if j := strings.IndexByte(st, '\n'); j >= 0 {
					st = st[:j]
				}
			} else {
				st = ""
			}
			err = fmt.Errorf("handler panicked: %v (%s)", r, strings.TrimSpace(st))
		}
	}()
	return c.app.Query(path, req, resp)
}

// js is the canonical rendering of a response item: proto-JSON by the app codec.
func (c *qc) js(m gogoproto.Message) string {
	bz, err := c.app.Cdc.MarshalJSON(m)
	if err != nil {
		// not representable in proto-JSON (e.g. timestamp outside years 1..9999): binary form
		b, _ := gogoproto.Marshal(m)
		return "bin:" + hex.EncodeToString(b)
	}
	return string(bz)
}

func jsl[T gogoproto.Message](c *qc, l []T) []string {
	out := make([]string, 0, len(l))
	for _, m := range l {
		out = append(out, c.js(m))
	}
	return out
}

func sortedCopy(l []string) []string {
	o := append([]string(nil), l...)
	sort.Strings(o)
	return o
}

// multisetDiff returns "" when both are equal as multisets.
func multisetDiff(got, exp []string) string {
	g, x := sortedCopy(got), sortedCopy(exp)
	var missing, extra []string
	i, j := 0, 0
	for i < len(g) || j < len(x) {
		switch {
		case i < len(g) && j < len(x) && g[i] == x[j]:
			i++
			j++
		case j >= len(x) || (i < len(g) && g[i] < x[j]):
			extra = append(extra, g[i])
			i++
		default:
			missing = append(missing, x[j])
			j++
		}
	}
	if len(missing) == 0 && len(extra) == 0 {
		return ""
	}
	s := fmt.Sprintf("returned %d items, brute force expects %d", len(got), len(exp))
	if len(missing) > 0 {
		s += fmt.Sprintf("; %d missing, first: %s", len(missing), trunc(missing[0], 300))
	}
	if len(extra) > 0 {
		s += fmt.Sprintf("; %d not matching the filter / not in state, first: %s", len(extra), trunc(extra[0], 300))
	}
	return s
}

func seqDiff(got, exp []string) string {
	if len(got) == len(exp) {
		same := true
		for i := range got {
			if got[i] != exp[i] {
				same = false
				break
			}
		}
		if same {
			return ""
		}
	}
	seen, need := map[string]int{}, map[string]int{}
	for _, g := range got {
		seen[g]++
	}
	for _, x := range exp {
		need[x]++
	}
	// an item may repeat only as often as it occurs in the unpaged result
	dups, oms := 0, 0
	firstDup, firstOm := "", ""
	for _, g := range got {
		if seen[g] > need[g] {
			if firstDup == "" {
				firstDup = g
			}
		}
	}
	for k, n := range seen {
		if n > need[k] {
			dups++
		}
	}
	for _, x := range exp {
		if seen[x] < need[x] {
			if firstOm == "" {
				firstOm = x
			}
		}
	}
	for k, n := range need {
		if seen[k] < n {
			oms++
		}
	}
	switch {
	case dups > 0:
		return fmt.Sprintf("%d items repeated or foreign (walk returned %d items, unpaged result has %d), first: %s", dups, len(got), len(exp), trunc(firstDup, 250))
	case oms > 0:
		return fmt.Sprintf("%d items omitted (walk returned %d items, unpaged result has %d), first: %s", oms, len(got), len(exp), trunc(firstOm, 250))
	}
	return "same items in a different order than the unpaged result"
}

func reversed(l []string) []string {
	o := make([]string, len(l))
	for i, x := range l {
		o[len(l)-1-i] = x
	}
	return o
}

func related(a, b string, raw map[string][]byte) bool {
	if a == b {
		return false
	}
	ra, oka := raw[a]
	rb, okb := raw[b]
	if oka && okb {
		sa, sb := string(ra), string(rb)
		return sa != sb && (strings.HasPrefix(sa, sb) || strings.HasPrefix(sb, sa))
	}
	if oka || okb {
		return false
	}
	if a == "" || b == "" {
		return false
	}
	return strings.HasPrefix(a, b) || strings.HasPrefix(b, a)
}

// ---------------------------------------------------------------------------------------------
// one list query, one filter value

type evalRes struct {
	rows int
	ok   bool
}

func prJSON(pr *query.PageRequest) interface{} {
	if pr == nil {
		return nil
	}
	return map[string]interface{}{"key": hex.EncodeToString(pr.Key), "offset": pr.Offset, "limit": pr.Limit, "count_total": pr.CountTotal, "reverse": pr.Reverse}
}

func (c *qc) evalList(q *listQuery, f fv) evalRes {
	st := c.st
	exp, must := q.expect(c, f.s)
	st.evaluations++
	st.listEvals++
	st.byQuery[q.name]++
	cs := func(pr *query.PageRequest, extra map[string]interface{}) map[string]interface{} {
		m := map[string]interface{}{"query": q.name, "filter": f.s, "filter_origin": f.origin, "page_request": prJSON(pr), "brute_force_rows": len(exp)}
		for k, v := range extra {
			m[k] = v
		}
		return m
	}
	var pr0 *query.PageRequest
	if q.paged {
		pr0 = &query.PageRequest{} // limit 0 inside a page request: unlimited
	}
	got, _, err := q.call(c, f.s, pr0)
	if len(exp) == 0 && f.origin != "present" && q.filtered {
		st.absent++
	}
	if err != nil {
		if must || len(exp) > 0 {
			c.violate(q.name+"/error-for-present-value", fmt.Sprintf("%s(%q) fails although the value is present in state (brute force: %d rows): %v", q.name, f.s, len(exp), trunc(err.Error(), 300)), cs(pr0, map[string]interface{}{"error": err.Error()}))
			return evalRes{}
		}
		st.absentErrs++
		return evalRes{rows: 0, ok: true}
	}
	if d := multisetDiff(got, exp); d != "" {
		c.violate(q.name+"/content", fmt.Sprintf("%s(%q) [%s value, unlimited page request]: %s", q.name, f.s, f.origin, d), cs(pr0, map[string]interface{}{"got": capList(got, 20), "expected": capList(exp, 20)}))
		return evalRes{rows: len(exp)}
	}
	if !q.paged {
		return evalRes{rows: len(exp), ok: true}
	}
	// request without a pagination object: the default limit applies
	st.evaluations++
	got2, page2, err := q.call(c, f.s, nil)
	wantN := len(got)
	if wantN > c17DefaultLimit {
		wantN = c17DefaultLimit
	}
	if err != nil {
		c.violate(q.name+"/no-pagination-error", fmt.Sprintf("%s(%q) without a pagination object fails: %v", q.name, f.s, trunc(err.Error(), 300)), cs(nil, map[string]interface{}{"error": err.Error()}))
	} else {
		if d := seqDiff(got2, got[:wantN]); d != "" {
			c.violate(q.name+"/no-pagination", fmt.Sprintf("%s(%q) without a pagination object (default limit %d, full result %d rows): %s", q.name, f.s, c17DefaultLimit, len(got), d), cs(nil, nil))
		}
		if len(got) > c17DefaultLimit {
			st.crossings++
			st.sample("default-limit-crossing", 2, map[string]interface{}{"query": q.name, "filter": f.s, "full_result_rows": len(got), "returned_without_pagination": len(got2), "where": c.where})
			if page2 == nil || len(page2.NextKey) == 0 {
				c.violate(q.name+"/no-pagination-next-key", fmt.Sprintf("%s(%q) without a pagination object returned %d of %d rows but no next_key", q.name, f.s, len(got2), len(got)), cs(nil, nil))
			}
		}
	}
	if len(got) > 0 {
		c.pageWalks(q, f, got)
	}
	return evalRes{rows: len(exp), ok: true}
}

func capList(l []string, n int) []string {
	if len(l) > n {
		return append(append([]string(nil), l[:n]...), fmt.Sprintf("… %d more", len(l)-n))
	}
	return l
}

// pageWalks walks the pages of one (query, filter) with every page size, mode and direction.
// S is the unpaged forward result (already equal to the brute force as a multiset).
func (c *qc) pageWalks(q *listQuery, f fv, S []string) {
	sizes := []uint64{1, 2, 3, 7, 100, 0}
	if len(S) > 60 {
		sizes = []uint64{7, 100, 0}
		if len(S) > 700 {
			// bound the quadratic cost of count_total on very long lists: one odd size near the default limit
			sizes = []uint64{97, 100, 0}
		}
	}
	R := reversed(S)
	for _, n := range sizes {
		for _, mode := range []string{"key", "offset"} {
			for _, rev := range []bool{false, true} {
				want := S
				if rev {
					want = R
				}
				c.oneWalk(q, f, n, mode, rev, want)
			}
		}
	}
}

func (c *qc) oneWalk(q *listQuery, f fv, n uint64, mode string, rev bool, want []string) {
	st := c.st
	st.evaluations++
	st.walks++
	desc := fmt.Sprintf("%s(%q) page size %d, %s-based, reverse=%v", q.name, f.s, n, mode, rev)
	cs := func(pr *query.PageRequest, extra map[string]interface{}) map[string]interface{} {
		m := map[string]interface{}{"query": q.name, "filter": f.s, "filter_origin": f.origin, "page_size": n, "mode": mode, "reverse": rev, "page_request": prJSON(pr), "unpaged_rows": len(want)}
		for k, v := range extra {
			m[k] = v
		}
		return m
	}
	var acc []string
	pages := 0
	maxPages := len(want) + 5
	pr := &query.PageRequest{Limit: n, Reverse: rev, CountTotal: mode == "offset"}
	for {
		if pages >= maxPages {
			c.violate(q.name+"/paging-does-not-terminate", fmt.Sprintf("%s: paging does not terminate (%d pages for %d rows)", desc, pages, len(want)), cs(pr, nil))
			return
		}
		items, page, err := q.call(c, f.s, pr)
		pages++
		if err != nil {
			c.violate(q.name+"/page-error", fmt.Sprintf("%s: page %d fails: %v", desc, pages, trunc(err.Error(), 300)), cs(pr, map[string]interface{}{"error": err.Error()}))
			return
		}
		if n > 0 && uint64(len(items)) > n {
			c.violate(q.name+"/page-too-long", fmt.Sprintf("%s: page %d has %d items", desc, pages, len(items)), cs(pr, nil))
			return
		}
		acc = append(acc, items...)
		if mode == "offset" {
			// the only place where the pagination contract defines total
			var total uint64
			if page != nil {
				total = page.Total
			}
			if total != uint64(len(want)) {
				c.violate(q.name+"/total", fmt.Sprintf("%s: page %d (offset %d) reports total=%d, brute force counts %d", desc, pages, pr.Offset, total, len(want)), cs(pr, map[string]interface{}{"total": total}))
				return
			}
			if n == 0 || uint64(len(items)) < n || uint64(len(acc)) >= total {
				break
			}
			pr = &query.PageRequest{Offset: uint64(len(acc)), Limit: n, Reverse: rev, CountTotal: true}
			continue
		}
		if page == nil || len(page.NextKey) == 0 {
			break
		}
		if n == 0 {
			c.violate(q.name+"/next-key-on-unlimited", fmt.Sprintf("%s: an unlimited request returned a next_key", desc), cs(pr, nil))
			return
		}
		pr = &query.PageRequest{Key: page.NextKey, Limit: n, Reverse: rev}
	}
	if pages >= 3 {
		st.walks3++
	}
	if pages > st.maxPagesWalk {
		st.maxPagesWalk = pages
	}
	if d := seqDiff(acc, want); d != "" {
		clause := "/walk-order"
		switch {
		case strings.Contains(d, "repeated"):
			clause = "/walk-duplicates"
		case strings.Contains(d, "omitted"), strings.Contains(d, "walk returned"):
			clause = "/walk-omissions"
		}
		c.violate(q.name+clause, fmt.Sprintf("%s (%d pages): %s", desc, pages, d), cs(nil, map[string]interface{}{"pages": pages}))
		return
	}
	if pages >= 3 {
		st.sample("page-walk", 3, map[string]interface{}{"query": q.name, "filter": f.s, "page_size": n, "mode": mode, "reverse": rev, "pages": pages, "rows": len(want), "where": c.where})
	}
}

// offsetEdge records (does not judge) what an offset at / past the end does: the property speaks
// about walking the pages, and no walk asks for such a page.
func (c *qc) offsetEdge(q *listQuery, f string, rows int) {
	for _, d := range []int{0, 1, 5} {
		items, _, err := q.call(c, f, &query.PageRequest{Offset: uint64(rows + d), Limit: 3})
		k := fmt.Sprintf("offset=rows+%d:", d)
		switch {
		case err != nil && strings.Contains(err.Error(), "panicked"):
			c.st.pastEnd[k+"handler-panic"]++
			c.st.sample("offset-past-end-panic", 1, map[string]interface{}{"query": q.name, "filter": f, "rows": rows, "offset": rows + d, "error": trunc(err.Error(), 200)})
		case err != nil:
			c.st.pastEnd[k+"error"]++
		case len(items) == 0:
			c.st.pastEnd[k+"empty-page"]++
		default:
			c.st.pastEnd[k+"items"]++
			c.violate(q.name+"/offset-past-end-items", fmt.Sprintf("%s(%q) offset %d of %d rows returns %d items", q.name, f, rows+d, rows, len(items)), nil)
		}
	}
}

// ---------------------------------------------------------------------------------------------
// checkQueries: everything for one state

func (st *c17State) checkQueries(e *eng.Engine, seed int64, where string) int {
	sn := e.Snap()
	c := &qc{st: st, e: e, app: e.App, sn: sn, v: sn.V(), r: rand.New(rand.NewSource(seed)), where: where, seed: seed,
		jsCache: map[interface{}]string{}, goodAddr: map[string]bool{}, addrRaw: map[string][]byte{}}
	c.nSample, c.relCap, c.nMangle, c.nSingle = 5, 24, 3, 10
	if st.tier == "thorough" {
		c.nSample, c.relCap, c.nMangle, c.nSingle = 12, 60, 6, 30
	}
	st.states++
	maxRows, maxTable := 0, ""
	for name, t := range sn.Tables {
		short := name[strings.LastIndexByte(name, '.')+1:]
		if strings.Contains(name, ".data.") {
			short = "data." + short
		}
		k := "max_" + short
		if len(t.Rows) > st.rowsMax[k] {
			st.rowsMax[k] = len(t.Rows)
		}
		if len(t.Rows) > maxRows {
			maxRows, maxTable = len(t.Rows), short
		}
	}
	c.buildAddrPool()
	evalsBefore, walksBefore := st.evaluations, st.walks
	nonBefore := len(st.nontrivial)

	for _, q := range c17ListQueries() {
		var fl []fv
		if q.filtered {
			fl = q.filters(c)
		} else {
			fl = []fv{{s: "", origin: "present"}}
		}
		rows := map[string]int{}
		var order []string
		seen := map[string]bool{}
		for _, f := range fl {
			if seen[f.s] {
				continue
			}
			seen[f.s] = true
			r := c.evalList(q, f)
			rows[f.s] = r.rows
			order = append(order, f.s)
		}
		// non-trivial: >= 2 rows and a prefix-related neighbouring filter value that has rows too
		for _, a := range order {
			if rows[a] < 2 {
				continue
			}
			for _, b := range order {
				if rows[b] >= 1 && related(a, b, c.addrRaw) {
					key := q.name + "|" + a
					if !st.nontrivial[key] {
						st.nontrivial[key] = true
						st.sample("nontrivial:"+q.name, 1, map[string]interface{}{"query": q.name, "filter": a, "rows": rows[a], "prefix_related_neighbour": b, "neighbour_rows": rows[b], "where": where})
					}
					break
				}
			}
		}
		// what an offset at / past the end does (observation only), once per query and state
		if q.paged && len(order) > 0 {
			best := order[0]
			for _, a := range order {
				if rows[a] > rows[best] {
					best = a
				}
			}
			c.offsetEdge(q, best, rows[best])
		}
	}
	c.evalSingles()

	if len(st.stateSummary) < 12 {
		st.stateSummary = append(st.stateSummary, map[string]interface{}{"where": where, "largest_table": maxTable, "largest_table_rows": maxRows,
			"classes": len(c.v.ClassList), "projects": len(c.v.ProjectList), "batches": len(c.v.BatchList), "balances": len(c.v.BalanceList), "orders": len(c.v.OrderList),
			"baskets": len(c.v.BasketList), "data_ids": len(c.v.DataIDs), "attestations": len(c.v.Attestors), "resolvers": len(c.v.ResolverList),
			"comparisons_and_walks": st.evaluations - evalsBefore, "page_walks": st.walks - walksBefore, "new_nontrivial_pairs": len(st.nontrivial) - nonBefore})
	}
	return c.viol
}

// ---------------------------------------------------------------------------------------------
// run / replay

func runC17(a Args) Result {
	rep := &eng.Reporter{ReplayDir: a.ReplayDir}
	st := newC17State(a.Known, a.Tier)
	var errs []string
	stats := map[string]map[string]int{}
	every := 230
	if a.Tier == "thorough" {
		every = 400
	}
	if a.Worker == 0 {
		c17KnownWitness(a.Known, rep)
	}
	for vi, variant := range a.Variants {
		seed := a.Seed*1000003 + int64(a.Worker)*7919 + int64(vi)*104729
		tag := fmt.Sprintf("s%d-w%d-%s", a.Seed, a.Worker, variant)
		tilt := newC17Tilt(seed)
		nq := 0
		res := run.Exec(run.Config{Seed: seed, Steps: a.Steps, Profile: gen.ProfileFor("C17"), Genesis: variant, Rep: rep, Bootstrap: true, SeedTag: tag,
			QuiesceEvery: every,
			Quiesce: func(e *eng.Engine, g *gen.Gen) {
				nq++
				st.checkQueries(e, seed^int64(e.App.Header.Height)*2654435761, fmt.Sprintf("%s height %d", tag, e.App.Header.Height))
				tilt.active = true // the first state is the small one; the prefix tilt starts afterwards
			},
			Intercept: tilt.intercept})
		if res.Err != nil {
			errs = append(errs, res.Err.Error())
		}
		if res.Engine != nil {
			for k, v := range res.Engine.Stats {
				if stats[k] == nil {
					stats[k] = map[string]int{}
				}
				stats[k]["accepted"] += v.OK
				stats[k]["rejected"] += v.Fail
			}
		}
		for k, v := range tilt.stats {
			if stats["c17-tilt/"+k] == nil {
				stats["c17-tilt/"+k] = map[string]int{}
			}
			stats["c17-tilt/"+k]["accepted"] += v[0]
			stats["c17-tilt/"+k]["rejected"] += v[1]
		}
	}
	// one more pass on a data-only workload with a WEAK id hasher (16 distinct outputs): many content
	// hashes share their short-id candidate, so a data query that goes through ids must still answer
	// for exactly the IRI / content hash it was asked about
	{
		seed := a.Seed*1000003 + int64(a.Worker)*7919 + 999983
		tag := fmt.Sprintf("s%d-w%d-weakhasher", a.Seed, a.Worker)
		app := chain.NewApp(chain.Options{Hasher: HasherByName("mod16")})
		res := run.Exec(run.Config{Seed: seed, Steps: a.Steps / 3, Profile: gen.ProfileFor("C16"), Genesis: "default", Rep: rep, Bootstrap: true, SeedTag: tag, App: app,
			QuiesceEvery: every,
			OnEngine:     func(e *eng.Engine) { e.HasherID = "mod16" },
			Quiesce: func(e *eng.Engine, g *gen.Gen) {
				st.checkQueries(e, seed^int64(e.App.Header.Height)*2654435761, fmt.Sprintf("%s height %d", tag, e.App.Header.Height))
			}})
		if res.Err != nil {
			errs = append(errs, res.Err.Error())
		}
	}
	cov := st.coverage()
	cov["by_message_type"] = stats
	cov["genesis_variants"] = a.Variants
	cov["weak_hasher_pass"] = "data-only workload with the 16-output id hasher, same query checke"
	if len(errs) > 0 {
		cov["run_errors"] = errs
	}
	out := Result{Coverage: cov, Violations: len(rep.Violations)}
	for _, v := range rep.Violations {
		if v.Replay != "" {
			out.Lines = append(out.Lines, fmt.Sprintf("VIOLATION property=%s replay=%s", v.Prop, v.Replay))
		}
	}
	out.Lines = append(out.Lines, rep.Known...)
	if len(errs) > 0 && len(rep.Violations) == 0 {
		out.Inconclusive = "run aborted: " + strings.Join(errs, "; ")
	}
	return out
}

func (st *c17State) coverage() map[string]interface{} {
	cov := map[string]interface{}{}
	cov["evaluations"] = st.evaluations
	cov["list_comparisons"] = st.listEvals
	cov["single_entity_comparisons"] = st.singleEvals
	cov["page_walks"] = st.walks
	cov["page_walks_3plus_pages"] = st.walks3
	cov["max_pages_in_one_walk"] = st.maxPagesWalk
	cov["states_checked"] = st.states
	cov["default_limit_crossings"] = st.crossings
	cov["filter_values_absent"] = st.absent
	cov["errors_for_absent_values"] = st.absentErrs
	cov["handler_panics_observed"] = st.panics
	cov["queries_issued"] = st.queriesIssued
	cov["queries_covered"] = len(st.byQuery)
	cov["by_query"] = st.byQuery
	cov["rows_max_per_table"] = st.rowsMax
	cov["offset_at_or_past_end_observations"] = st.pastEnd
	var keys []string
	for k := range st.nontrivial {
		keys = append(keys, k)
	}
	sort.Strings(keys)
	cov["_keys"] = keys
	cov["distinct_nontrivial"] = len(keys)
	perQ := map[string]int{}
	for _, k := range keys {
		perQ[k[:strings.IndexByte(k, '|')]]++
	}
	cov["nontrivial_pairs_by_query"] = perQ
	cov["states_detail"] = st.stateSummary
	cov["samples"] = st.samples
	cov["rule"] = "at every quiescent point (chain committed; the first one before the prefix tilt = small state, later ones prefix-rich and with >100 rows per table) every query of the base, basket, marketplace and data query services is sent through the real gRPC query router. " +
		"evaluations = list comparisons + no-pagination comparisons + page walks + single-entity comparisons. " +
		"List comparison: for each list query and each filter value in {values present in state (PRNG sample, but every value that is a string/byte prefix or extension of another present value is kept), absent values, each sampled id minus its last character / plus one character, addresses with the last byte flipped / one byte shorter / one byte longer, malformed addresses} the multiset of returned items (proto-JSON by the app codec) must equal the harness's brute-force filter over its own table scans, joined as the response documents (batch→project id, balance→batch denom, order→batch denom + market bank denom, basket→curator, attestation→IRI, data resolver→resolver row; deprecated Baskets/Balances fields next to BasketsInfo/BalancesInfo); an error is accepted only when the brute force is empty and the filtered-by entity does not exist / the value is malformed. " +
		"No pagination object ⇒ exactly the first 100 items of the unlimited order and a next_key when more exist. " +
		"Page walks for every non-empty (query, filter): page sizes {1,2,3,7,100,0=unlimited} (results >60 rows: {7,100,0}; >700 rows: {97,100,0}) × {key-based following next_key, offset-based with count_total} × {forward, reverse}: the concatenation equals the unpaged sequence (reversed for reverse), i.e. no duplicate, no omission; the walk ends within rows+5 pages; total is asserted only on offset requests with count_total and equals the brute-force count. " +
		"Single-entity queries are compared field by field with the scanned rows for sampled present entities; absent/mangled keys must give an error or the documented zero value. " +
		"distinct_nontrivial = distinct (query, filter value) pairs whose brute-force result had >= 2 rows while a prefix-related neighbouring filter value (string prefix/extension for ids, URLs, denoms; byte prefix/extension for addresses) had rows too. " +
		"Offsets at/past the end are recorded, not judged (no page walk requests them)."
	return cov
}

// c17KnownWitness re-executes the deterministic witness of the listed finding F-C17a: a chain started
// from the "prefix" genesis (ClassFee {} = no fee) answers the deprecated Params query with a panic.
// The KNOWN-FINDING line is printed only while the witness still fails that way.
func c17KnownWitness(k *mon.KnownSet, rep *eng.Reporter) {
	if !k.Has(c17KnownParams) {
		return
	}
	defer func() { recover() }()
	app := chain.NewApp(chain.Options{})
	if err := app.InitChain(gen.Genesis(app, "prefix"), gen.GenesisTime); err != nil {
		return
	}
	app.BeginBlock(gen.GenesisTime.Add(5e9))
	st := newC17State(k, "quick")
	c := &qc{st: st, app: app}
	var r basetypes.QueryParamsResponse
	if err := c.q(pBase+"Params", &basetypes.QueryParamsRequest{}, &r); err != nil && strings.Contains(err.Error(), "panicked") {
		rep.KnownFinding("C17", c17KnownParams+" "+c17ParamsWhat)
	}
}

// replayC17 re-executes the chain trace of a replay file and runs the query checks once at its end.
func replayC17(bz []byte, k *mon.KnownSet, replayDir string) int {
	var f struct {
		Trace *eng.Trace `json:"trace"`
		Case  struct {
			Seed int64  `json:"check_seed"`
			Tier string `json:"tier"`
		} `json:"case"`
	}
	if json.Unmarshal(bz, &f) != nil || f.Trace == nil {
		fmt.Println("INCONCLUSIVE property=C17 bad replay file")
		return 2
	}
	rep := &eng.Reporter{ReplayDir: replayDir}
	tier := f.Case.Tier
	if tier == "" {
		tier = "quick"
	}
	st := newC17State(k, tier)
	app := chain.NewApp(chain.Options{Hasher: HasherByName(f.Trace.Hasher)})
	e := eng.New(app, rep, false)
	e.SeedTag = "replay"
	ok := false
	func() {
		defer func() {
			if r := recover(); r != nil {
				fmt.Println("# replay aborted:", r)
			}
		}()
		if err := e.Replay(f.Trace); err != nil {
			fmt.Println("# replay error:", err)
			return
		}
		e.Commit()
		st.checkQueries(e, f.Case.Seed, "replay end")
		ok = true
	}()
	fmt.Printf("# replayed %d steps, %d comparisons and walks, %d violations\n", e.Step, st.evaluations, len(rep.Violations))
	if len(rep.Violations) > 0 {
		return 1
	}
	if !ok {
		fmt.Println("INCONCLUSIVE property=C17 replay did not reach the query checks")
		return 2
	}
	return 0
}
