package special

import (
	"encoding/json"
	"fmt"
	"math/big"
	"sort"
	"strings"
	"time"

	sdk "github.com/cosmos/cosmos-sdk/types"

	basetypes "github.com/regen-network/regen-ledger/x/ecocredit/v3/base/types/v1"
	baskettypes "github.com/regen-network/regen-ledger/x/ecocredit/v3/basket/types/v1"
	markettypes "github.com/regen-network/regen-ledger/x/ecocredit/v3/marketplace/types/v1"

	"verifharness/chain"
	"verifharness/eng"
	"verifharness/gen"
	"verifharness/mon"
	"verifharness/ref"
	"verifharness/run"
)

// C18: fee exactness + enumerated configuration sweep ("no accepted parameter disables a feature").

func init() {
	handlers["C18"] = &handler{
		plan: func(tier string) *PlanT {
			if tier == "thorough" {
				return &PlanT{Workers: 16, Variants: []string{"default", "open"}, Steps: 4000}
			}
			return &PlanT{Workers: 1, Variants: []string{"default"}, Steps: 1200}
		},
		run: runC18,
		floor: func(tier string, c map[string]interface{}) string {
			if numf(c, "configurations_accepted") < 100 || numf(c, "canonical_operations_executed") < 500 || numf(c, "fee_oracle_evaluations") < 50 {
				return fmt.Sprintf("coverage floor not reached: configurations_accepted=%v canonical_operations_executed=%v fee_oracle_evaluations=%v", c["configurations_accepted"], c["canonical_operations_executed"], c["fee_oracle_evaluations"])
			}
			return ""
		},
		assumptions: []string{"the configuration grid is the finite list in special/c18.go (fees unset/removed/zero/1/large via governance and via genesis; allowlist off/on; allowed denoms default/added/removed-then-readded; fee rates from FeeRateGrid for buyer × seller via governance and via genesis); 'operations whose own preconditions hold' = the canonical operations executed there"},
		replay:      replayC18,
	}
}

// FeeRateGrid: boundary values; whether a value is accepted is decided by the chain itself (governance
// message result / the module's ValidateGenesis), never by the harness.
var FeeRateGrid = []string{"", "0", "0.0", "0.000001", "0.5", "1", "1.5", "0.333333333333333333333333333333333333", "0.0212345678901", "0.0300000000000000001", "-0.1", "abc", "1e-3",
	// spellings a lenient validator might normalise but the settlement code would not
	" 0.02", "0.02 ", " ", "\t0\n", "+0.02", "00.02", "0.020", ".02", "2E-2"}

type c18State struct {
	known     *mon.KnownSet
	rep       *eng.Reporter
	accepted  int
	rejected  int
	ops       int
	cells     map[string]bool
	knownHits map[string]int
	samples   []interface{}
	opStats   map[string]int
}

type c18Chain struct {
	st  *c18State
	e   *eng.Engine
	tag string
	n   int
}

func coinP(d string, n int64) *sdk.Coin { c := sdk.NewInt64Coin(d, n); return &c }

func newC18Chain(st *c18State, tag string, doc genDoc, mutate func(eco map[string]json.RawMessage)) (*c18Chain, error) {
	app := chain.NewApp(chain.Options{})
	if doc == nil {
		doc = gen.Genesis(app, "open")
	}
	if mutate != nil {
		var eco map[string]json.RawMessage
		_ = json.Unmarshal(doc["ecocredit"], &eco)
		mutate(eco)
		bz, _ := json.Marshal(eco)
		doc["ecocredit"] = bz
		// only configurations the module's own genesis validation accepts are in scope
		if err := app.Eco.ValidateGenesis(app.Cdc, app.TxCfg, doc["ecocredit"]); err != nil {
			return nil, fmt.Errorf("genesis rejected: %w", err)
		}
	}
	e := eng.New(app, st.rep, false)
	e.SeedTag = tag
	e.PropOverride = "C18"
	c7 := mon.NewC07(st.known)
	c7.SkipSoftWhenInexact = true
	e.Monitors = []eng.Monitor{mon.NewC18(), c7}
	if err := e.Init(doc, gen.GenesisTime); err != nil {
		return nil, err
	}
	e.NextBlock(gen.GenesisTime.Add(5 * time.Second))
	return &c18Chain{st: st, e: e, tag: tag}, nil
}

// must executes a canonical operation whose preconditions hold by construction and requires success.
func (c *c18Chain) must(cfg, op string, msg sdk.Msg) *eng.TxRec {
	r := c.e.Exec(eng.Tx{Msgs: []sdk.Msg{msg}, Tag: "canonical/" + op})
	c.st.ops++
	c.st.opStats[op]++
	if r == nil {
		return nil
	}
	if !r.OK {
		what := fmt.Sprintf("configuration {%s}: canonical operation %s failed with code %d (%s): %s", cfg, op, r.Res.Code, r.Res.Codespace, trunc(firstLine(r.Res.Log), 260))
		if id := c.classify(cfg, op, r); id != "" && c.st.known.Has(id) {
			c.st.knownHits[id]++
			c.e.Rep.KnownFinding("C18", id+" "+c.st.known.Get(id).What)
		} else {
			c.e.Violate("C18", "feature-disabled/"+op, what)
		}
	}
	return r
}

func firstLine(s string) string {
	if i := strings.IndexByte(s, '\n'); i >= 0 {
		return s[:i]
	}
	return s
}

// classify evaluates the cause predicates of the listed C18 findings on a failing canonical operation.
func (c *c18Chain) classify(cfg, op string, r *eng.TxRec) string {
	v := r.Pre.V()
	switch {
	case strings.HasPrefix(op, "buy") && v.FeeParams != nil:
		z := func(s string) bool { x := ref.MustDec(s); return s != "" && x != nil && x.Sign() == 0 }
		if (z(v.FeeParams.BuyerPercentageFee) || z(v.FeeParams.SellerPercentageFee)) && strings.Contains(r.Res.Log, "expected a positive decimal") {
			return "F-C18a"
		}
		if x := ref.MustDec(v.FeeParams.SellerPercentageFee); x != nil && x.Cmp(big.NewRat(1, 1)) > 0 && r.Res.Code == 111222 {
			return "F-C18b"
		}
	case op == "create-class" && v.ClassFee != nil && v.ClassFee.Fee != nil && v.ClassFee.Fee.Amount == "0":
		return "F-C18c"
	case op == "create-basket" && v.BasketFee != nil && v.BasketFee.Fee != nil && v.BasketFee.Fee.Amount == "0":
		return "F-C18c"
	}
	return ""
}

// try executes a configuration message; returns whether the chain accepted it.
func (c *c18Chain) try(msg sdk.Msg) bool {
	r := c.e.Exec(eng.Tx{Msgs: []sdk.Msg{msg}, Tag: "configure"})
	if r != nil && r.OK {
		// an accepted configuration message must leave exactly the configuration it names
		mon.ParamEffect(c.e, r, "C18", fmt.Sprintf("configure step %d", r.Step))
		mon.RoleEffectOf(c.e, r, "C18", fmt.Sprintf("configure step %d", r.Step))
	}
	return r != nil && r.OK
}

func (c *c18Chain) uniq() int { c.n++; return c.n }

// setupMarket creates class, project, batch with credits for seller (A3) and holder (A4).
func (c *c18Chain) setupMarket(cfg string) (batchDenom string, ok bool) {
	A := gen.Actors()
	gov := gen.GovAddr()
	v := c.e.Cur.V()
	var fee *sdk.Coin
	if v.ClassFee != nil && v.ClassFee.Fee != nil {
		a, _ := new(big.Int).SetString(v.ClassFee.Fee.Amount, 10)
		if a != nil && a.Sign() > 0 {
			f := sdk.Coin{Denom: v.ClassFee.Fee.Denom, Amount: sdk.NewIntFromBigInt(a)}
			fee = &f
		}
	}
	if v.Allowlist && !v.Creators[A[0]] {
		c.try(&basetypes.MsgAddClassCreator{Authority: gov, Creator: A[0]})
	}
	r := c.e.Exec(eng.Tx{Msgs: []sdk.Msg{&basetypes.MsgCreateClass{Admin: A[0], Issuers: []string{A[0]}, Metadata: "m", CreditTypeAbbrev: "C", Fee: fee}}, Tag: "setup"})
	if r == nil || !r.OK {
		return "", false
	}
	cls := r.Resps[0].(*basetypes.MsgCreateClassResponse).ClassId
	r = c.e.Exec(eng.Tx{Msgs: []sdk.Msg{&basetypes.MsgCreateProject{Admin: A[0], ClassId: cls, Metadata: "m", Jurisdiction: "US"}}, Tag: "setup"})
	if r == nil || !r.OK {
		return "", false
	}
	prj := r.Resps[0].(*basetypes.MsgCreateProjectResponse).ProjectId
	s, e := time.Date(2020, 1, 1, 0, 0, 0, 0, time.UTC), time.Date(2021, 1, 1, 0, 0, 0, 0, time.UTC)
	r = c.e.Exec(eng.Tx{Msgs: []sdk.Msg{&basetypes.MsgCreateBatch{Issuer: A[0], ProjectId: prj, Metadata: "m", StartDate: &s, EndDate: &e, Open: true,
		Issuance: []*basetypes.BatchIssuance{{Recipient: A[3], TradableAmount: "100000000"}, {Recipient: A[4], TradableAmount: "100000000"}}}}, Tag: "setup"})
	if r == nil || !r.OK {
		return "", false
	}
	return r.Resps[0].(*basetypes.MsgCreateBatchResponse).BatchDenom, true
}

// marketOps: holder sells; funded buyer with a generous max fee buys partially and fully; update; cancel.
func (c *c18Chain) marketOps(cfg, batch, denom string) {
	A := gen.Actors()
	seller, buyer := A[3], A[5]
	v := c.e.Cur.V()
	if v.AllowedDenoms[denom] == nil {
		return // selling in a denom that is not allowed is not an operation whose preconditions hold
	}
	bf := new(big.Rat)
	if v.FeeParams != nil {
		if r, err := ref.DecOrZero(v.FeeParams.BuyerPercentageFee); err == nil {
			bf = r
		}
	}
	ask := int64(1000003)
	maxFee := func(q string) *sdk.Coin {
		fee := new(big.Rat).Mul(new(big.Rat).Mul(ref.MustDec(q), big.NewRat(ask, 1)), bf)
		n := new(big.Int).Add(new(big.Int).Mul(ref.Trunc(fee), big.NewInt(2)), big.NewInt(10))
		cn := sdk.Coin{Denom: denom, Amount: sdk.NewIntFromBigInt(n)}
		return &cn
	}
	exactFee := func(q string, a int64) *sdk.Coin {
		fee := new(big.Rat).Mul(new(big.Rat).Mul(ref.MustDec(q), big.NewRat(a, 1)), bf)
		cn := sdk.Coin{Denom: denom, Amount: sdk.NewIntFromBigInt(ref.Trunc(fee))}
		return &cn
	}
	r := c.must(cfg, "sell", &markettypes.MsgSell{Seller: seller, Orders: []*markettypes.MsgSell_Order{{BatchDenom: batch, Quantity: "11.500001", AskPrice: coinP(denom, ask), DisableAutoRetire: true}}})
	if r == nil || !r.OK {
		return
	}
	id := r.Resps[0].(*markettypes.MsgSellResponse).SellOrderIds[0]
	// a max fee that covers the buyer fee EXACTLY (rounded down to whole coins), on a fractional subtotal
	c.must(cfg, "buy-exact-max-fee", &markettypes.MsgBuyDirect{Buyer: buyer, Orders: []*markettypes.MsgBuyDirect_Order{{SellOrderId: id, Quantity: "1.500001", BidPrice: coinP(denom, ask), DisableAutoRetire: true, MaxFeeAmount: exactFee("1.500001", ask)}}})
	c.must(cfg, "buy-partial", &markettypes.MsgBuyDirect{Buyer: buyer, Orders: []*markettypes.MsgBuyDirect_Order{{SellOrderId: id, Quantity: "2.500001", BidPrice: coinP(denom, ask), DisableAutoRetire: true, MaxFeeAmount: maxFee("2.500001")}}})
	c.must(cfg, "buy-full-retire", &markettypes.MsgBuyDirect{Buyer: buyer, Orders: []*markettypes.MsgBuyDirect_Order{{SellOrderId: id, Quantity: "7.499999", BidPrice: coinP(denom, ask+5), DisableAutoRetire: false, RetirementJurisdiction: "US", MaxFeeAmount: maxFee("7.499999")}}})
	r = c.must(cfg, "sell", &markettypes.MsgSell{Seller: seller, Orders: []*markettypes.MsgSell_Order{{BatchDenom: batch, Quantity: "3", AskPrice: coinP(denom, 7), DisableAutoRetire: false}}})
	if r == nil || !r.OK {
		return
	}
	id = r.Resps[0].(*markettypes.MsgSellResponse).SellOrderIds[0]
	// a small purchase: subtotal 7 base units, so any positive fee below 1/7 yields a total fee that is
	// positive but smaller than one base unit
	c.must(cfg, "buy-exact-max-fee-small", &markettypes.MsgBuyDirect{Buyer: buyer, Orders: []*markettypes.MsgBuyDirect_Order{{SellOrderId: id, Quantity: "0.5", BidPrice: coinP(denom, 7), DisableAutoRetire: false, RetirementJurisdiction: "KE", MaxFeeAmount: exactFee("0.5", 7)}}})
	c.must(cfg, "buy-small", &markettypes.MsgBuyDirect{Buyer: buyer, Orders: []*markettypes.MsgBuyDirect_Order{{SellOrderId: id, Quantity: "1", BidPrice: coinP(denom, 7), DisableAutoRetire: false, RetirementJurisdiction: "KE", MaxFeeAmount: coinP(denom, 50)}}})
	c.must(cfg, "buy-fraction", &markettypes.MsgBuyDirect{Buyer: buyer, Orders: []*markettypes.MsgBuyDirect_Order{{SellOrderId: id, Quantity: "0.000001", BidPrice: coinP(denom, 8), DisableAutoRetire: false, RetirementJurisdiction: "KE", MaxFeeAmount: coinP(denom, 50)}}})
	c.must(cfg, "update-order", &markettypes.MsgUpdateSellOrders{Seller: seller, Updates: []*markettypes.MsgUpdateSellOrders_Update{{SellOrderId: id, NewQuantity: "4", NewAskPrice: coinP(denom, 9)}}})
	c.must(cfg, "cancel-order", &markettypes.MsgCancelSellOrder{Seller: seller, SellOrderId: id})
}

// basketOps: funded curator offering >= fee creates a basket; holder puts and takes.
func (c *c18Chain) basketOps(cfg, batch string) {
	A := gen.Actors()
	v := c.e.Cur.V()
	var fee sdk.Coins
	if v.BasketFee != nil && v.BasketFee.Fee != nil {
		a, _ := new(big.Int).SetString(v.BasketFee.Fee.Amount, 10)
		if a != nil && a.Sign() > 0 {
			fee = sdk.Coins{{Denom: v.BasketFee.Fee.Denom, Amount: sdk.NewIntFromBigInt(new(big.Int).Add(a, big.NewInt(3)))}} // offers more than required
		}
	}
	cls := ""
	if b := v.BatchByDenom[batch]; b != nil {
		if cl := v.ClassOfBatch(b); cl != nil {
			cls = cl.Id
		}
	}
	name := fmt.Sprintf("K%d", c.uniq())
	for len(name) < 3 {
		name += "x"
	}
	r := c.must(cfg, "create-basket", &baskettypes.MsgCreate{Curator: A[1], Name: name, CreditTypeAbbrev: "C", AllowedClasses: []string{cls}, DisableAutoRetire: true, Fee: fee})
	if r == nil || !r.OK {
		return
	}
	if fee == nil {
		for _, d := range []string{"uregen", "stake", "uatom"} {
			n2 := fmt.Sprintf("K%d", c.uniq())
			for len(n2) < 3 {
				n2 += "x"
			}
			c.must(cfg, "create-basket/unneeded-offer-"+d, &baskettypes.MsgCreate{Curator: A[1], Name: n2, CreditTypeAbbrev: "C", AllowedClasses: []string{cls}, DisableAutoRetire: true, Fee: sdk.Coins{*coinP(d, 5)}})
		}
	}
	bd := r.Resps[0].(*baskettypes.MsgCreateResponse).BasketDenom
	c.must(cfg, "put", &baskettypes.MsgPut{Owner: A[4], BasketDenom: bd, Credits: []*baskettypes.BasketCredit{{BatchDenom: batch, Amount: "12.5"}}})
	c.must(cfg, "take", &baskettypes.MsgTake{Owner: A[4], BasketDenom: bd, Amount: "2500000", RetireOnTake: false})
}

// classOps: funded, allowed creator offering >= fee creates a class.
func (c *c18Chain) classOps(cfg string) {
	A := gen.Actors()
	v := c.e.Cur.V()
	creator := A[2]
	if v.Allowlist && !v.Creators[creator] {
		return // creator not on the list: the operation's own precondition does not hold
	}
	var fee *sdk.Coin
	if v.ClassFee != nil && v.ClassFee.Fee != nil {
		a, _ := new(big.Int).SetString(v.ClassFee.Fee.Amount, 10)
		if a != nil && a.Sign() > 0 {
			f := sdk.Coin{Denom: v.ClassFee.Fee.Denom, Amount: sdk.NewIntFromBigInt(new(big.Int).Add(a, big.NewInt(7)))}
			fee = &f
		}
	}
	c.must(cfg, "create-class", &basetypes.MsgCreateClass{Admin: creator, Issuers: []string{creator}, Metadata: "m", CreditTypeAbbrev: "C", Fee: fee})
	if fee == nil {
		// no fee is required (unset, or a zero coin): a client that still fills in the optional fee field —
		// in whatever denom — meets every precondition; nothing may be charged (fee oracle)
		c.must(cfg, "create-class/unneeded-offer-uregen", &basetypes.MsgCreateClass{Admin: creator, Issuers: []string{creator}, Metadata: "m", CreditTypeAbbrev: "C", Fee: coinP("uregen", 5)})
		c.must(cfg, "create-class/unneeded-offer-stake", &basetypes.MsgCreateClass{Admin: creator, Issuers: []string{creator}, Metadata: "m", CreditTypeAbbrev: "C", Fee: coinP("stake", 5)})
		c.must(cfg, "create-class/unneeded-offer-uatom", &basetypes.MsgCreateClass{Admin: creator, Issuers: []string{creator}, Metadata: "m", CreditTypeAbbrev: "C", Fee: coinP("uatom", 5)})
	}
	// an offer below the fee / in the wrong denom must be rejected (fee oracle watches the outcome)
	if fee != nil && fee.Amount.GT(sdk.NewInt(8)) {
		low := sdk.Coin{Denom: fee.Denom, Amount: fee.Amount.SubRaw(8)}
		c.e.Exec(eng.Tx{Msgs: []sdk.Msg{&basetypes.MsgCreateClass{Admin: creator, Issuers: []string{creator}, Metadata: "m", CreditTypeAbbrev: "C", Fee: &low}}, Tag: "probe/low-offer"})
		other := sdk.Coin{Denom: "uatom", Amount: fee.Amount}
		if fee.Denom != "uatom" {
			c.e.Exec(eng.Tx{Msgs: []sdk.Msg{&basetypes.MsgCreateClass{Admin: creator, Issuers: []string{creator}, Metadata: "m", CreditTypeAbbrev: "C", Fee: &other}}, Tag: "probe/wrong-denom"})
		}
		// poor creator (actor 7 holds 1000 of each denom)
		if fee.Amount.GT(sdk.NewInt(1000)) && (!v.Allowlist || v.Creators[A[7]]) {
			c.e.Exec(eng.Tx{Msgs: []sdk.Msg{&basetypes.MsgCreateClass{Admin: A[7], Issuers: []string{A[7]}, Metadata: "m", CreditTypeAbbrev: "C", Fee: fee}}, Tag: "probe/poor-creator"})
		}
		c.e.Exec(eng.Tx{Msgs: []sdk.Msg{&basetypes.MsgCreateClass{Admin: creator, Issuers: []string{creator}, Metadata: "m", CreditTypeAbbrev: "C"}}, Tag: "probe/no-offer"})
	}
}

type feeCfg struct {
	name string
	fee  *sdk.Coin
}

func feeConfigs() []feeCfg {
	zero := sdk.Coin{Denom: "stake", Amount: sdk.NewInt(0)}
	return []feeCfg{
		{"gov:nil", nil},
		{"gov:zero-coin", &zero},
		{"gov:1stake", coinP("stake", 1)},
		{"gov:zero-coin-after-positive", &zero},
		{"gov:1uregen", coinP("uregen", 1)},
		{"gov:nil-after-positive", nil},
		{"gov:large", coinP("stake", 987654321012)},
		{"gov:zero-coin-other-denom-after-positive", coinP("uregen", 0)},
		{"gov:20000000stake", coinP("stake", 20000000)},
		// transitions between two positive fees that differ in one component only (or not at all)
		{"gov:20000000uregen-same-amount-other-denom", coinP("uregen", 20000000)},
		{"gov:5uregen-same-denom-other-amount", coinP("uregen", 5)},
		{"gov:5uregen-again", coinP("uregen", 5)},
		{"gov:5stake-same-amount-other-denom", coinP("stake", 5)},
		{"gov:6stake-same-denom-other-amount", coinP("stake", 6)},
	}
}

func (st *c18State) cell(s string) { st.cells[s] = true }

func (st *c18State) sweep(worker int) {
	gov := gen.GovAddr()
	A := gen.Actors()
	// ---- G1: class fee × allowlist, via governance, on one chain
	if c, err := newC18Chain(st, fmt.Sprintf("w%d-g1", worker), nil, nil); err == nil {
		for _, f := range feeConfigs() {
			for _, al := range []string{"off", "on-without-creator", "on-with-creator"} {
				cfg := "class_fee=" + f.name + " allowlist=" + al
				ok := c.try(&basetypes.MsgUpdateClassFee{Authority: gov, Fee: f.fee})
				ok = c.try(&basetypes.MsgSetClassCreatorAllowlist{Authority: gov, Enabled: al != "off"}) && ok
				has := c.e.Cur.V().Creators[A[2]]
				if al == "on-with-creator" && !has {
					ok = c.try(&basetypes.MsgAddClassCreator{Authority: gov, Creator: A[2]}) && ok
				}
				if al == "on-without-creator" && has {
					ok = c.try(&basetypes.MsgRemoveClassCreator{Authority: gov, Creator: A[2]}) && ok
				}
				if !ok {
					st.rejected++
					continue
				}
				st.accepted++
				st.cell(cfg)
				c.classOps(cfg)
			}
		}
	}
	// ---- G2: basket fee via governance
	if c, err := newC18Chain(st, fmt.Sprintf("w%d-g2", worker), nil, nil); err == nil {
		batch, ok := c.setupMarket("g2")
		for _, f := range feeConfigs() {
			cfg := "basket_fee=" + f.name
			if !ok || !c.try(&baskettypes.MsgUpdateBasketFee{Authority: gov, Fee: f.fee}) {
				st.rejected++
				continue
			}
			st.accepted++
			st.cell(cfg)
			c.basketOps(cfg, batch)
		}
	}
	// ---- G3: fee rates via governance × allowed-denom history, on one chain per denom history
	for _, dh := range []string{"default", "added", "removed-then-readded"} {
		c, err := newC18Chain(st, fmt.Sprintf("w%d-g3-%s", worker, dh), nil, nil)
		if err != nil {
			continue
		}
		batch, ok := c.setupMarket("g3")
		if !ok {
			continue
		}
		denom := "uatom"
		switch dh {
		case "added":
			denom = BankDenomIBC
			c.try(&markettypes.MsgAddAllowedDenom{Authority: gov, BankDenom: denom, DisplayDenom: "ibcatom", Exponent: 6})
		case "removed-then-readded":
			denom = "uregen"
			c.try(&markettypes.MsgRemoveAllowedDenom{Authority: gov, Denom: denom})
			c.try(&markettypes.MsgAddAllowedDenom{Authority: gov, BankDenom: denom, DisplayDenom: "regen", Exponent: 6})
		}
		for _, b := range FeeRateGrid {
			for _, s := range FeeRateGrid {
				cfg := fmt.Sprintf("fee_params(gov) buyer=%q seller=%q denoms=%s", b, s, dh)
				if !c.try(&markettypes.MsgGovSetFeeParams{Authority: gov, Fees: &markettypes.FeeParams{BuyerPercentageFee: b, SellerPercentageFee: s}}) {
					st.rejected++
					continue
				}
				st.accepted++
				st.cell(cfg)
				c.marketOps(cfg, batch, denom)
			}
		}
	}
	// ---- G3b: an allowed denom is REMOVED while sell orders priced in it are open. The operations on
	// those existing orders that do not name a price — purchases and cancellation — keep all their own
	// preconditions and must keep working. (Every UpdateSellOrders entry must carry a price and a
	// quantity — ValidateBasic — and re-pricing in a removed denom must be refused, C06; so updates are
	// not among the operations whose preconditions hold here.)
	for i, fr := range [][2]string{{"0", "0"}, {"0.02", "0.013"}, {"", ""}} {
		c, err := newC18Chain(st, fmt.Sprintf("w%d-g3b-%d", worker, i), nil, nil)
		if err != nil {
			continue
		}
		batch, ok := c.setupMarket("g3b")
		if !ok {
			continue
		}
		denom := "uatom"
		cfg := fmt.Sprintf("denom %s removed while orders open; fee_params buyer=%q seller=%q", denom, fr[0], fr[1])
		if !c.try(&markettypes.MsgGovSetFeeParams{Authority: gov, Fees: &markettypes.FeeParams{BuyerPercentageFee: fr[0], SellerPercentageFee: fr[1]}}) {
			continue
		}
		A := gen.Actors()
		seller, buyer := A[3], A[5]
		r := c.must(cfg, "sell", &markettypes.MsgSell{Seller: seller, Orders: []*markettypes.MsgSell_Order{
			{BatchDenom: batch, Quantity: "10", AskPrice: coinP(denom, 1000), DisableAutoRetire: true},
			{BatchDenom: batch, Quantity: "5", AskPrice: coinP(denom, 2000), DisableAutoRetire: false}}})
		if r == nil || !r.OK {
			continue
		}
		ids := r.Resps[0].(*markettypes.MsgSellResponse).SellOrderIds
		if !c.try(&markettypes.MsgRemoveAllowedDenom{Authority: gov, Denom: denom}) {
			continue
		}
		st.accepted++
		st.cell(cfg)
		c.must(cfg, "existing-order/buy", &markettypes.MsgBuyDirect{Buyer: buyer, Orders: []*markettypes.MsgBuyDirect_Order{{SellOrderId: ids[0], Quantity: "1.5", BidPrice: coinP(denom, 1000), DisableAutoRetire: true, MaxFeeAmount: coinP(denom, 100000)}}})
		c.must(cfg, "existing-order/cancel", &markettypes.MsgCancelSellOrder{Seller: seller, SellOrderId: ids[1]})
	}
	// ---- G5: allowed bridge chains added by governance under several spellings of the name: bridging in
	// from, and out to, a chain governance has accepted must work (and stop working once it is removed)
	for i, name := range []string{"polygon", "Polygon", "ETHEREUM", "celo-alfajores", "chain-" + strings.Repeat("x", 594)} {
		c, err := newC18Chain(st, fmt.Sprintf("w%d-g5-%d", worker, i), nil, nil)
		if err != nil {
			continue
		}
		batch, ok := c.setupMarket("g5")
		if !ok {
			continue
		}
		cls := strings.SplitN(batch, "-", 2)[0]
		cfg := fmt.Sprintf("allowed_bridge_chain=%q (gov)", name)
		c.try(&basetypes.MsgRemoveAllowedBridgeChain{Authority: gov, ChainName: name}) // the default genesis may already list it
		if !c.try(&basetypes.MsgAddAllowedBridgeChain{Authority: gov, ChainName: name}) {
			st.rejected++
			continue
		}
		st.accepted++
		st.cell(cfg)
		sd, ed := time.Date(2020, 1, 1, 0, 0, 0, 0, time.UTC), time.Date(2021, 1, 1, 0, 0, 0, 0, time.UTC)
		if len(name) > 32 {
			// no validator limits the length of a chain name, but an origin tx source may not be that long: the
			// bound batch comes in from "polygon", and bridging OUT to the long-named chain must work
			cfg = fmt.Sprintf("allowed_bridge_chain=<%d-byte name> (gov)", len(name))
			c.try(&basetypes.MsgAddAllowedBridgeChain{Authority: gov, ChainName: "polygon"})
			r := c.e.Exec(eng.Tx{Msgs: []sdk.Msg{&basetypes.MsgBridgeReceive{Issuer: A[0], ClassId: cls,
				Project:  &basetypes.MsgBridgeReceive_Project{ReferenceId: "G5", Jurisdiction: "US", Metadata: "m"},
				Batch:    &basetypes.MsgBridgeReceive_Batch{Recipient: A[4], Amount: "100", StartDate: &sd, EndDate: &ed, Metadata: "m"},
				OriginTx: &basetypes.OriginTx{Id: fmt.Sprintf("0x%064x", 500+i), Source: "polygon", Contract: fmt.Sprintf("0x%040x", 900+i)}}}, Tag: "setup"})
			if r == nil || !r.OK {
				continue
			}
			bd := r.Resps[0].(*basetypes.MsgBridgeReceiveResponse).BatchDenom
			c.must(cfg, "bridge/long-chain-name", &basetypes.MsgBridge{Owner: A[4], Target: name, Recipient: fmt.Sprintf("0x%040x", 7), Credits: []*basetypes.Credits{{BatchDenom: bd, Amount: "10"}}})
			continue
		}
		r := c.must(cfg, "bridge-receive", &basetypes.MsgBridgeReceive{Issuer: A[0], ClassId: cls,
			Project:  &basetypes.MsgBridgeReceive_Project{ReferenceId: "G5", Jurisdiction: "US", Metadata: "m"},
			Batch:    &basetypes.MsgBridgeReceive_Batch{Recipient: A[4], Amount: "100", StartDate: &sd, EndDate: &ed, Metadata: "m"},
			OriginTx: &basetypes.OriginTx{Id: fmt.Sprintf("0x%064x", 500+i), Source: name, Contract: fmt.Sprintf("0x%040x", 900+i)}})
		if r == nil || !r.OK {
			continue
		}
		bd := r.Resps[0].(*basetypes.MsgBridgeReceiveResponse).BatchDenom
		cr := func(a string) []*basetypes.Credits { return []*basetypes.Credits{{BatchDenom: bd, Amount: a}} }
		c.must(cfg, "bridge", &basetypes.MsgBridge{Owner: A[4], Target: name, Recipient: fmt.Sprintf("0x%040x", 7), Credits: cr("10")})
		c.must(cfg, "bridge/lower-case-target", &basetypes.MsgBridge{Owner: A[4], Target: strings.ToLower(name), Recipient: fmt.Sprintf("0x%040x", 7), Credits: cr("1.5")})
		c.must(cfg, "bridge-receive/existing-batch", &basetypes.MsgBridgeReceive{Issuer: A[0], ClassId: cls,
			Project:  &basetypes.MsgBridgeReceive_Project{ReferenceId: "G5", Jurisdiction: "US", Metadata: "m"},
			Batch:    &basetypes.MsgBridgeReceive_Batch{Recipient: A[4], Amount: "3", StartDate: &sd, EndDate: &ed, Metadata: "m"},
			OriginTx: &basetypes.OriginTx{Id: fmt.Sprintf("0x%064x", 600+i), Source: name, Contract: fmt.Sprintf("0x%040x", 900+i)}})
		if c.try(&basetypes.MsgRemoveAllowedBridgeChain{Authority: gov, ChainName: name}) {
			c.e.Exec(eng.Tx{Msgs: []sdk.Msg{&basetypes.MsgBridge{Owner: A[4], Target: name, Recipient: fmt.Sprintf("0x%040x", 7), Credits: cr("1")}}, Tag: "probe/bridge-after-removal"})
		}
	}
	// ---- G4: configurations set in GENESIS (accepted by the module's ValidateGenesis)
	type m = map[string]interface{}
	set := func(eco map[string]json.RawMessage, table string, v interface{}) {
		bz, _ := json.Marshal(v)
		eco[table] = bz
	}
	for _, cf := range []struct {
		name string
		val  interface{}
	}{{"unset", m{}}, {"zero", m{"fee": m{"denom": "stake", "amount": "0"}}}, {"positive", m{"fee": m{"denom": "stake", "amount": "5000"}}}} {
		for _, bfv := range []struct {
			name string
			val  interface{}
		}{{"unset", m{}}, {"zero", m{"fee": m{"denom": "uregen", "amount": "0"}}}, {"positive", m{"fee": m{"denom": "uregen", "amount": "77"}}}} {
			cfg := "genesis class_fee=" + cf.name + " basket_fee=" + bfv.name
			c, err := newC18Chain(st, fmt.Sprintf("w%d-g4-%s-%s", worker, cf.name, bfv.name), nil, func(eco map[string]json.RawMessage) {
				set(eco, "regen.ecocredit.v1.ClassFee", cf.val)
				set(eco, "regen.ecocredit.basket.v1.BasketFee", bfv.val)
			})
			if err != nil {
				st.rejected++
				continue
			}
			st.accepted++
			st.cell(cfg)
			c.classOps(cfg)
			// the basket operations need a batch: created through the same (possibly zero) class fee
			batch, ok := c.setupMarket(cfg)
			if !ok {
				// setup uses the same canonical class creation; its failure was already judged by classOps
				continue
			}
			c.basketOps(cfg, batch)
		}
	}
	for _, b := range FeeRateGrid {
		for _, s := range FeeRateGrid {
			cfg := fmt.Sprintf("fee_params(genesis) buyer=%q seller=%q", b, s)
			c, err := newC18Chain(st, fmt.Sprintf("w%d-g4-fp", worker), nil, func(eco map[string]json.RawMessage) {
				set(eco, "regen.ecocredit.marketplace.v1.FeeParams", m{"buyer_percentage_fee": b, "seller_percentage_fee": s})
			})
			if err != nil {
				st.rejected++
				continue
			}
			st.accepted++
			st.cell(cfg)
			batch, ok := c.setupMarket(cfg)
			if !ok {
				continue
			}
			c.marketOps(cfg, batch, "uatom")
		}
	}
}

const BankDenomIBC = "ibc/27394FB092D2ECCD56123C74F36E4C1F926001CEADA9CA97EA622B25F41E5EB2"

func runC18(a Args) Result {
	rep := &eng.Reporter{ReplayDir: a.ReplayDir}
	st := &c18State{known: a.Known, rep: rep, cells: map[string]bool{}, knownHits: map[string]int{}, opStats: map[string]int{}}
	cov := map[string]interface{}{}
	var errs []string
	func() {
		defer func() {
			if r := recover(); r != nil {
				errs = append(errs, fmt.Sprintf("sweep aborted: %v", r))
			}
		}()
		st.sweep(a.Worker)
	}()
	// hostile history with fee churn under the fee oracle
	feeMon := mon.NewC18()
	for vi, variant := range a.Variants {
		prof := gen.ProfileFor("C18")
		for _, k := range []string{"class_fee", "basket_fee", "create_class", "basket_create", "allowlist", "class_creator"} {
			prof.Weights[k] *= 6
		}
		seed := a.Seed*1000003 + int64(a.Worker)*7919 + int64(vi)*104729
		res := run.Exec(run.Config{Seed: seed, Steps: a.Steps, Profile: prof, Genesis: variant, Monitors: []eng.Monitor{feeMon}, Rep: rep, Bootstrap: true,
			SeedTag: fmt.Sprintf("s%d-w%d-%s", a.Seed, a.Worker, variant)})
		if res.Err != nil {
			errs = append(errs, res.Err.Error())
		}
	}
	feeMon.Finish(nil, cov)
	cov["evaluations"] = st.accepted + st.rejected
	cov["configurations_accepted"] = st.accepted
	cov["configurations_rejected_by_the_chain"] = st.rejected
	cov["canonical_operations_executed"] = st.ops
	cov["canonical_operations_by_kind"] = st.opStats
	cov["distinct_nontrivial"] = len(st.cells)
	var keys []string
	for k := range st.cells {
		keys = append(keys, k)
	}
	sort.Strings(keys)
	cov["_keys"] = keys
	cov["exhaustive"] = true
	cov["rule"] = "one evaluation = one configuration of the enumerated grid offered to the chain (governance message or genesis document); for every configuration the chain accepts, the canonical user operations whose preconditions hold by construction are executed and must succeed (code 0), under the fee oracle (exact debit = required fee, burned, module account nets to zero, low/foreign/missing offers rejected) and the C07 settlement oracle; plus a hostile history with fee churn under the fee oracle; non-trivial = distinct accepted configuration; exhaustive refers to the listed grid"
	cov["known_finding_hits"] = st.knownHits
	if len(keys) > 0 {
		cov["samples"] = []interface{}{keys[0], keys[len(keys)/2], keys[len(keys)-1]}
	}
	if len(errs) > 0 {
		cov["run_errors"] = errs
	}
	out := Result{Coverage: cov, Violations: len(rep.Violations)}
	for _, v := range rep.Violations {
		if v.Replay != "" {
			out.Lines = append(out.Lines, fmt.Sprintf("VIOLATION property=%s replay=%s", v.Prop, v.Replay))
		}
	}
	out.Lines = append(out.Lines, rep.Known...)
	if len(errs) > 0 && len(rep.Violations) == 0 {
		out.Inconclusive = strings.Join(errs, "; ")
	}
	return out
}

// replayC18: re-execute the trace; a canonical operation (tag canonical/*) that fails is a violation.
func replayC18(bz []byte, k *mon.KnownSet, replayDir string) int {
	var f struct {
		Trace *eng.Trace `json:"trace"`
	}
	if json.Unmarshal(bz, &f) != nil || f.Trace == nil {
		fmt.Println("INCONCLUSIVE property=C18 bad replay file")
		return 2
	}
	rep := &eng.Reporter{ReplayDir: replayDir}
	app := chain.NewApp(chain.Options{})
	e := eng.New(app, rep, false)
	e.SeedTag = "replay"
	e.PropOverride = "C18"
	c7 := mon.NewC07(k)
	c7.SkipSoftWhenInexact = true
	e.Monitors = []eng.Monitor{mon.NewC18(), c7, &canonicalMustSucceed{}}
	func() {
		defer func() {
			if r := recover(); r != nil {
				fmt.Println("# replay aborted:", r)
			}
		}()
		if err := e.Replay(f.Trace); err != nil {
			fmt.Println("# replay error:", err)
		}
	}()
	if len(rep.Violations) > 0 {
		return 1
	}
	return 0
}

type canonicalMustSucceed struct{ mon.Base }

func (canonicalMustSucceed) Prop() string { return "C18" }
func (canonicalMustSucceed) AfterTx(e *eng.Engine, t *eng.TxRec) {
	if strings.HasPrefix(t.Tag, "canonical/") && !t.OK {
		e.Violate("C18", "feature-disabled/"+strings.TrimPrefix(t.Tag, "canonical/"), fmt.Sprintf("canonical operation failed with code %d: %s", t.Res.Code, trunc(firstLine(t.Res.Log), 260)))
	}
}
