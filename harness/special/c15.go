package special

import (
	"encoding/json"
	"fmt"
	"math/rand"
	"os"
	"sort"
	"strings"
	"time"

	sdk "github.com/cosmos/cosmos-sdk/types"
	gogoproto "github.com/cosmos/gogoproto/proto"

	"github.com/regen-network/regen-ledger/x/data/v3"

	"verifharness/chain"
	"verifharness/eng"
	"verifharness/gen"
	"verifharness/pure/irimon"
)

// C15, on-chain part: sibling families of content hashes are anchored on a real chain and the
// Convert*/AnchorBy* queries must never answer for a different content hash. The pure part
// (cmd/vpure, pure/irimon) runs first; its evidence is merged here.

func init() {
	handlers["C15"] = &handler{
		plan: func(tier string) *PlanT {
			if tier == "thorough" {
				return &PlanT{Workers: 8, Variants: []string{"default"}, Steps: 4000}
			}
			return &PlanT{Workers: 1, Variants: []string{"default"}, Steps: 500}
		},
		run: runC15,
		floor: func(tier string, c map[string]interface{}) string {
			if numf(c, "hashes_anchored_on_chain") < 300 || numf(c, "queries_checked") < 1200 || numf(c, "unanchored_siblings_queried") < 50 {
				return fmt.Sprintf("coverage floor not reached: hashes_anchored_on_chain=%v queries_checked=%v unanchored_siblings_queried=%v", c["hashes_anchored_on_chain"], c["queries_checked"], c["unanchored_siblings_queried"])
			}
			if _, ok := c["pure_part"]; !ok {
				return "pure part (vpure) evidence missing"
			}
			return ""
		},
		assumptions: []string{"on-chain part: queries go through the gRPC query router of the harness chain with marshalled requests/responses; the pure part's assumptions are listed in pure_part"},
	}
}

func hashEq(a, b *data.ContentHash) bool {
	if a == nil || b == nil {
		return a == b
	}
	return gogoproto.Equal(a, b)
}

func runC15(a Args) Result {
	rep := &eng.Reporter{ReplayDir: a.ReplayDir}
	cov := map[string]interface{}{}
	anchored, queries, unanch, families, rejected := 0, 0, 0, 0, 0
	nontrivial := map[string]bool{}
	var samples []interface{}
	var errs []string
	weakAnchored := 0
	viaCount := map[string]int{}
	// two passes: the production ID hasher, and a weak one (4 distinct outputs) that forces compact-ID
	// collisions between different IRIs — queries must still answer for exactly the content hash asked
	for pass, hname := range []string{"", "mod4"} {
		app := chain.NewApp(chain.Options{Hasher: HasherByName(hname)})
		e := eng.New(app, rep, false)
		e.HasherID = hname
		e.SeedTag = fmt.Sprintf("s%d-w%d-%s", a.Seed, a.Worker, hname)
		rng := rand.New(rand.NewSource(a.Seed*1000003 + int64(a.Worker)*7919 + 15 + int64(pass)))
		anchoredBefore := anchored
		func() {
			defer func() {
				if r := recover(); r != nil {
					errs = append(errs, fmt.Sprint(r))
				}
			}()
			if err := e.Init(gen.Genesis(app, "default"), gen.GenesisTime); err != nil {
				errs = append(errs, err.Error())
				return
			}
			now := gen.GenesisTime.Add(5 * time.Second)
			e.NextBlock(now)
			type rec struct {
				h    *data.ContentHash
				iri  string
				t    time.Time
				via  string // anchor / attest / register
				reso bool   // registered to the run's resolver
			}
			// one private resolver of the sender: some siblings are anchored implicitly by registering
			// them to it (and graph siblings by attesting them) instead of by MsgAnchor
			var resolverID uint64
			if r := e.Exec(eng.Tx{Msgs: []sdk.Msg{&data.MsgDefineResolver{Definer: gen.ActorAddr(0).String(), ResolverUrl: "https://c15.example/" + hname, Public: false}}, Tag: "define-resolver"}); r != nil && r.OK {
				resolverID = r.Resps[0].(*data.MsgDefineResolverResponse).ResolverId
			}
			byIRI := map[string]*rec{}
			var all []*rec
			var skipped []*data.ContentHash // valid siblings deliberately NOT anchored
			sender := gen.ActorAddr(0).String()
			target := anchoredBefore + a.Steps
			if pass == 1 {
				target = anchoredBefore + a.Steps/3
			}
			for anchored < target {
				attestedWith := map[string]bool{}
				fam := irimon.Family(rng)
				families++
				valid := irimon.OnlyValid(fam)
				rejected += len(fam) - len(valid)
				for i, h := range valid {
					iri, err := h.ToIRI()
					if err != nil {
						continue
					}
					// every fourth valid sibling is left un-anchored: a query for it must find nothing
					if i > 0 && rng.Intn(4) == 0 && !attestedWith[fmt.Sprint(irimon.Describe(h))] {
						if _, dup := byIRI[iri]; !dup {
							skipped = append(skipped, h)
						}
						continue
					}
					via := "anchor"
					var msg sdk.Msg = &data.MsgAnchor{Sender: sender, ContentHash: h}
					carried := attestedWith[fmt.Sprint(irimon.Describe(h))]
					switch x := rng.Intn(10); {
					case carried:
					case x < 3 && resolverID != 0:
						via = "register"
						msg = &data.MsgRegisterResolver{Signer: sender, ResolverId: resolverID, ContentHashes: []*data.ContentHash{h}}
					case x < 5 && h.Graph != nil:
						via = "attest"
						// ONE message attesting this hash together with the other valid graph siblings of the
						// family that come later (same digest bytes, other algorithms): each entry is its own data
						gs := []*data.ContentHash_Graph{h.Graph}
						for _, o := range valid[i+1:] {
							if o.Graph != nil && len(gs) < 4 && rng.Intn(2) == 0 {
								gs = append(gs, o.Graph)
								attestedWith[fmt.Sprint(irimon.Describe(o))] = true
							}
						}
						msg = &data.MsgAttest{Attestor: sender, ContentHashes: gs}
					}
					if carried {
						via, msg = "attest", nil // already carried by an earlier multi-entry attestation
					}
					var r *eng.TxRec
					if msg != nil {
						r = e.Exec(eng.Tx{Msgs: []sdk.Msg{msg}, Tag: via + "-sibling"})
					}
					if msg != nil && (r == nil || !r.OK) {
						e.Violate("C15", "valid-hash-not-anchored", fmt.Sprintf("a content hash that passes Validate could not be anchored: %v", irimon.Describe(h)))
						continue
					}
					if o, dup := byIRI[iri]; dup {
						if !hashEq(o.h, h) {
							e.Violate("C15", "injectivity", fmt.Sprintf("two different valid content hashes share the IRI %s: %v and %v", iri, irimon.Describe(o.h), irimon.Describe(h)))
						}
						if via == "register" {
							o.reso = true
						}
						continue
					}
					viaCount[via]++
					rc := &rec{h, iri, now, via, via == "register"}
					byIRI[iri] = rc
					all = append(all, rc)
					anchored++
					if len(valid) >= 3 {
						nontrivial[iri] = true
					}
				}
				if families%7 == 0 {
					now = now.Add(time.Duration(1+rng.Intn(50)) * time.Second)
					e.NextBlock(now)
				}
			}
			e.Commit()
			// the table has exactly one id per distinct valid hash
			if n := len(e.Cur.V().DataIDs); n != len(all) {
				e.Violate("C15", "table-count", fmt.Sprintf("%d distinct valid content hashes were anchored but the DataID table has %d rows", len(all), n))
			}
			for _, rc := range all {
				// resolvers: exactly the run's resolver if this very hash was registered, none otherwise
				var q1 data.QueryResolversByHashResponse
				err1 := app.Query("/regen.data.v2.Query/ResolversByHash", &data.QueryResolversByHashRequest{ContentHash: rc.h}, &q1)
				var q2 data.QueryResolversByIRIResponse
				err2 := app.Query("/regen.data.v2.Query/ResolversByIRI", &data.QueryResolversByIRIRequest{Iri: rc.iri}, &q2)
				for qi, got := range [][]*data.ResolverInfo{q1.Resolvers, q2.Resolvers} {
					name := []string{"ResolversByHash", "ResolversByIRI"}[qi]
					if err := []error{err1, err2}[qi]; err != nil {
						e.Violate("C15", "query-resolvers", fmt.Sprintf("%s(%v) failed for an anchored hash (anchored via %s): %v", name, irimon.Describe(rc.h), rc.via, err))
						continue
					}
					if rc.reso && (len(got) != 1 || got[0].Id != resolverID) {
						e.Violate("C15", "query-resolvers", fmt.Sprintf("%s(%v): the hash was registered to resolver %d but the query answers %v", name, irimon.Describe(rc.h), resolverID, got))
					}
					if !rc.reso && len(got) != 0 {
						e.Violate("C15", "query-resolvers-for-other-hash", fmt.Sprintf("%s(%v): nobody registered this hash to a resolver (anchored via %s) but the query answers %v — a registration of different data", name, irimon.Describe(rc.h), rc.via, got))
					}
				}
				queries += 2
				var r1 data.ConvertHashToIRIResponse
				if err := app.Query("/regen.data.v2.Query/ConvertHashToIRI", &data.ConvertHashToIRIRequest{ContentHash: rc.h}, &r1); err != nil || r1.Iri != rc.iri {
					e.Violate("C15", "query-hash-to-iri", fmt.Sprintf("ConvertHashToIRI(%v) = %q (err %v), expected %q", irimon.Describe(rc.h), r1.Iri, err, rc.iri))
				}
				var r2 data.ConvertIRIToHashResponse
				if err := app.Query("/regen.data.v2.Query/ConvertIRIToHash", &data.ConvertIRIToHashRequest{Iri: rc.iri}, &r2); err != nil || !hashEq(r2.ContentHash, rc.h) {
					e.Violate("C15", "query-iri-to-hash", fmt.Sprintf("ConvertIRIToHash(%q) = %v (err %v), expected %v", rc.iri, irimon.Describe(r2.ContentHash), err, irimon.Describe(rc.h)))
				}
				var r3 data.QueryAnchorByHashResponse
				if err := app.Query("/regen.data.v2.Query/AnchorByHash", &data.QueryAnchorByHashRequest{ContentHash: rc.h}, &r3); err != nil || r3.Anchor == nil || r3.Anchor.Iri != rc.iri || !hashEq(r3.Anchor.ContentHash, rc.h) {
					e.Violate("C15", "query-anchor-by-hash", fmt.Sprintf("AnchorByHash(%v) answered %+v (err %v), expected the anchor of %q", irimon.Describe(rc.h), r3.Anchor, err, rc.iri))
				} else if r3.Anchor.Timestamp == nil || !time.Unix(r3.Anchor.Timestamp.Seconds, int64(r3.Anchor.Timestamp.Nanos)).UTC().Equal(rc.t) {
					e.Violate("C15", "query-anchor-timestamp", fmt.Sprintf("AnchorByHash(%q) timestamp %v, anchored at %s", rc.iri, r3.Anchor.Timestamp, rc.t))
				}
				var r4 data.QueryAnchorByIRIResponse
				if err := app.Query("/regen.data.v2.Query/AnchorByIRI", &data.QueryAnchorByIRIRequest{Iri: rc.iri}, &r4); err != nil || r4.Anchor == nil || r4.Anchor.Iri != rc.iri || !hashEq(r4.Anchor.ContentHash, rc.h) {
					e.Violate("C15", "query-anchor-by-iri", fmt.Sprintf("AnchorByIRI(%q) answered %+v (err %v)", rc.iri, r4.Anchor, err))
				}
				queries += 4
				if len(samples) < 3 {
					samples = append(samples, map[string]interface{}{"hash": irimon.Describe(rc.h), "iri": rc.iri, "anchored_at": rc.t.Format(time.RFC3339)})
				}
			}
			// un-anchored siblings: a query must never return the anchor of a different hash
			for _, h := range skipped {
				iri, _ := h.ToIRI()
				if _, ok := byIRI[iri]; ok {
					continue // anchored later through another family
				}
				unanch++
				var r3 data.QueryAnchorByHashResponse
				err := app.Query("/regen.data.v2.Query/AnchorByHash", &data.QueryAnchorByHashRequest{ContentHash: h}, &r3)
				if err == nil && r3.Anchor != nil {
					e.Violate("C15", "query-answers-for-other-hash", fmt.Sprintf("AnchorByHash of the never-anchored %v answered with the anchor %q of different data", irimon.Describe(h), r3.Anchor.Iri))
				}
				var r4 data.QueryAnchorByIRIResponse
				err = app.Query("/regen.data.v2.Query/AnchorByIRI", &data.QueryAnchorByIRIRequest{Iri: iri}, &r4)
				if err == nil && r4.Anchor != nil {
					e.Violate("C15", "query-answers-for-other-hash", fmt.Sprintf("AnchorByIRI of the never-anchored %q answered with an anchor", iri))
				}
				queries += 2
			}
		}()
		if pass == 1 {
			weakAnchored = anchored - anchoredBefore
		}
	}
	cov["hashes_anchored_with_colliding_ids"] = weakAnchored
	cov["first_anchoring_by_message"] = map[string]interface{}{"MsgAnchor": viaCount["anchor"], "MsgAttest": viaCount["attest"], "MsgRegisterResolver": viaCount["register"]}
	cov["evaluations"] = queries + anchored
	cov["hashes_anchored_on_chain"] = anchored
	cov["families_generated"] = families
	cov["siblings_rejected_by_validate"] = rejected
	cov["queries_checked"] = queries
	cov["unanchored_siblings_queried"] = unanch
	var keys []string
	for k := range nontrivial {
		keys = append(keys, "chain/"+k)
	}
	sort.Strings(keys)
	cov["distinct_nontrivial"] = len(keys)
	cov["_keys"] = keys
	cov["rule"] = "pure part (pure_part): generated content hashes with siblings and mutated strings through ToIRI/ParseIRI/Validate (round trip, injectivity map, canonical re-encoding); on-chain part: sibling families anchored on the harness chain, every anchored hash queried through ConvertHashToIRI/ConvertIRIToHash/AnchorByHash/AnchorByIRI (must answer exactly that hash) and never-anchored valid siblings queried (must find nothing); non-trivial (on-chain) = distinct anchored IRI whose family had >=3 valid members"
	cov["samples"] = samples
	// merge the pure part written by vpure just before
	if a.Worker == 0 {
		if p := os.Getenv("VERIF_C15_PURE"); p != "" {
			if bz, err := os.ReadFile(p); err == nil {
				var ev struct {
					Coverage   map[string]interface{} `json:"coverage"`
					Violations int                    `json:"violations"`
				}
				if json.Unmarshal(bz, &ev) == nil && ev.Coverage != nil {
					cov["pure_part"] = ev.Coverage
					cov["evaluations"] = queries + anchored + int(numf(ev.Coverage, "evaluations"))
					cov["pure_distinct_nontrivial"] = ev.Coverage["distinct_nontrivial"]
				}
			}
		}
	}
	if len(errs) > 0 {
		cov["run_errors"] = errs
	}
	out := Result{Coverage: cov, Violations: len(rep.Violations)}
	for _, v := range rep.Violations {
		if v.Replay != "" {
			out.Lines = append(out.Lines, fmt.Sprintf("VIOLATION property=%s replay=%s", v.Prop, v.Replay))
		}
	}
	if len(errs) > 0 && len(rep.Violations) == 0 {
		out.Inconclusive = strings.Join(errs, "; ")
	}
	return out
}
