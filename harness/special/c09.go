package special

import (
	"bytes"
	"crypto/sha256"
	"encoding/json"
	"fmt"
	"sort"
	"strings"
	"time"

	sdk "github.com/cosmos/cosmos-sdk/types"
	markettypes "github.com/regen-network/regen-ledger/x/ecocredit/v3/marketplace/types/v1"

	"verifharness/chain"
	"verifharness/eng"
	"verifharness/gen"
	"verifharness/mon"
	"verifharness/obs"
	"verifharness/run"
)

// C09: every reachable state survives export → validate → import → re-export, chained.

func init() {
	handlers["C09"] = &handler{
		plan: func(tier string) *PlanT {
			if tier == "thorough" {
				return &PlanT{Workers: 16, Variants: []string{"default", "open"}, Steps: 5000}
			}
			return &PlanT{Workers: 1, Variants: []string{"default"}, Steps: 1600}
		},
		run: runC09,
		floor: func(tier string, c map[string]interface{}) string {
			if numf(c, "round_trips") < 10 || numf(c, "chained_reimports") < 2 || numf(c, "distinct_nontrivial") < 5 {
				return fmt.Sprintf("coverage floor not reached: round_trips=%v chained_reimports=%v distinct_nontrivial=%v", c["round_trips"], c["chained_reimports"], c["distinct_nontrivial"])
			}
			return ""
		},
		assumptions: []string{"validation entry point = Module.ValidateGenesis of ecocredit and data (ORM ValidateJSON + genesis.ValidateGenesis); documents compared after JSON canonicalisation (sorted keys, arrays keep order)"},
		replay:      replayC09,
	}
}

func numf(m map[string]interface{}, k string) float64 {
	switch x := m[k].(type) {
	case float64:
		return x
	case int:
		return float64(x)
	case int64:
		return float64(x)
	}
	return 0
}

func canon(raw json.RawMessage) string {
	var v interface{}
	d := json.NewDecoder(bytes.NewReader(raw))
	d.UseNumber()
	if err := d.Decode(&v); err != nil {
		return string(raw)
	}
	bz, _ := json.Marshal(v)
	return string(bz)
}

type genDoc = map[string]json.RawMessage

func tablesOfDoc(raw json.RawMessage) map[string]json.RawMessage {
	var m map[string]json.RawMessage
	_ = json.Unmarshal(raw, &m)
	return m
}

func rowsOf(raw json.RawMessage) []map[string]interface{} {
	var l []interface{}
	d := json.NewDecoder(bytes.NewReader(raw))
	d.UseNumber()
	if d.Decode(&l) != nil {
		return nil
	}
	var out []map[string]interface{}
	for _, x := range l {
		if r, ok := x.(map[string]interface{}); ok {
			out = append(out, r)
		}
	}
	return out
}

// setRows writes rows back, preserving a leading auto-increment sequence number if there was one.
func setRows(tabs map[string]json.RawMessage, name string, rows []map[string]interface{}) {
	var l []interface{}
	d := json.NewDecoder(bytes.NewReader(tabs[name]))
	d.UseNumber()
	_ = d.Decode(&l)
	var out []interface{}
	if len(l) > 0 {
		if _, isRow := l[0].(map[string]interface{}); !isRow {
			out = append(out, l[0])
		}
	}
	for _, r := range rows {
		out = append(out, r)
	}
	bz, _ := json.Marshal(out)
	tabs[name] = bz
}

// knownRule: the cause predicate of a listed finding, evaluated on the failing document, and the
// neutralisation applied to a COPY so that exploration can look behind it.
type knownRule struct {
	id, module, what string
	match            func(errText string, tabs map[string]json.RawMessage) bool
	neutralise       func(tabs map[string]json.RawMessage) bool
}

func tsEqual(a, b interface{}) bool {
	return a != nil && b != nil && fmt.Sprint(a) == fmt.Sprint(b)
}

var c09Rules = []knownRule{
	{
		id: "F-C09a", module: "ecocredit", what: "F-C09a exported genesis rejected: a batch whose start date equals its end date (accepted by MsgCreateBatch) fails Batch.Validate",
		match: func(errText string, tabs map[string]json.RawMessage) bool {
			if !strings.Contains(errText, "start date") && !strings.Contains(errText, "end date") {
				return false
			}
			for _, r := range rowsOf(tabs[obs.TBatch]) {
				if tsEqual(r["start_date"], r["end_date"]) {
					return true
				}
			}
			return false
		},
		neutralise: func(tabs map[string]json.RawMessage) bool {
			rows := rowsOf(tabs[obs.TBatch])
			ch := false
			for _, r := range rows {
				if tsEqual(r["start_date"], r["end_date"]) {
					if t, err := time.Parse(time.RFC3339Nano, fmt.Sprint(r["end_date"])); err == nil {
						if n := t.Add(time.Second).UTC(); n.Year() <= 9999 {
							r["end_date"] = n.Format(time.RFC3339Nano)
						} else {
							// the last representable second: move the start date instead
							r["start_date"] = t.Add(-time.Second).UTC().Format(time.RFC3339Nano)
						}
						ch = true
					}
				}
			}
			if ch {
				setRows(tabs, obs.TBatch, rows)
			}
			return ch
		},
	},
	{
		id: "F-C09c", module: "ecocredit", what: "F-C09c exported genesis rejected: a basket balance whose batch starts exactly at 1970-01-01T00:00:00Z is treated as 'start date empty'",
		match: func(errText string, tabs map[string]json.RawMessage) bool {
			if !strings.Contains(errText, "batch start date") {
				return false
			}
			for _, r := range rowsOf(tabs[obs.TBasketBalance]) {
				if fmt.Sprint(r["batch_start_date"]) == "1970-01-01T00:00:00Z" {
					return true
				}
			}
			return false
		},
		neutralise: func(tabs map[string]json.RawMessage) bool {
			rows := rowsOf(tabs[obs.TBasketBalance])
			ch := false
			for _, r := range rows {
				if fmt.Sprint(r["batch_start_date"]) == "1970-01-01T00:00:00Z" {
					r["batch_start_date"] = "1970-01-01T00:00:01Z"
					ch = true
				}
			}
			if ch {
				setRows(tabs, obs.TBasketBalance, rows)
			}
			return ch
		},
	},
	{
		id: "F-C09b", module: "data", what: "F-C09b exported genesis rejected: a public resolver (no manager, created by DefineResolver{public:true}) fails Resolver.Validate",
		match: func(errText string, tabs map[string]json.RawMessage) bool {
			if !strings.Contains(errText, "manager") {
				return false
			}
			for _, r := range rowsOf(tabs[obs.TResolver]) {
				if m, ok := r["manager"]; !ok || m == nil || fmt.Sprint(m) == "" {
					return true
				}
			}
			return false
		},
		neutralise: func(tabs map[string]json.RawMessage) bool {
			rows := rowsOf(tabs[obs.TResolver])
			ch := false
			for _, r := range rows {
				if m, ok := r["manager"]; !ok || m == nil || fmt.Sprint(m) == "" {
					// a manager no real account can have, unique per row (the table has a unique (url, manager) index)
					h := sha256.Sum256([]byte("neutralised-public-resolver-" + fmt.Sprint(r["id"])))
					r["manager"] = h[:20]
					ch = true
				}
			}
			if ch {
				setRows(tabs, obs.TResolver, rows)
			}
			return ch
		},
	},
}

type c09State struct {
	known      *mon.KnownSet
	rep        *eng.Reporter
	roundTrips int
	skipEscrow bool
	docs       map[string]bool
	nontrivial map[string]bool
	knownHits  map[string]int
	samples    []interface{}
	lastExport genDoc
	lastTime   time.Time
}

// validateWithKnown validates one module's document; known findings are neutralised in a copy.
func (st *c09State) validateWithKnown(e *eng.Engine, module string, raw json.RawMessage, validate func(json.RawMessage) error, where string) {
	cur := raw
	for iter := 0; iter < 8; iter++ {
		err := safeValidate(validate, cur)
		if err == nil {
			return
		}
		txt := err.Error()
		tabs := tablesOfDoc(cur)
		matched := false
		for _, r := range c09Rules {
			if r.module != module || !r.match(txt, tabs) {
				continue
			}
			if !st.known.Has(r.id) {
				continue
			}
			if !r.neutralise(tabs) {
				continue
			}
			matched = true
			st.knownHits[r.id]++
			e.Rep.KnownFinding("C09", r.what)
			bz, _ := json.Marshal(tabs)
			cur = bz
			break
		}
		if !matched {
			e.Violate("C09", "export-rejected/"+module, fmt.Sprintf("%s: exported %s genesis of a reachable state fails the module's own ValidateGenesis: %s", where, module, trunc(txt, 500)))
			return
		}
	}
	e.Violate("C09", "export-rejected/"+module, where+": exported genesis still invalid after neutralising every known row")
}

func safeValidate(f func(json.RawMessage) error, raw json.RawMessage) (err error) {
	defer func() {
		if r := recover(); r != nil {
			err = fmt.Errorf("validation panicked: %v", r)
		}
	}()
	return f(raw)
}

func trunc(s string, n int) string {
	if len(s) > n {
		return s[:n] + "…"
	}
	return s
}

func nonEmptyTables(raw json.RawMessage) int {
	n := 0
	for _, v := range tablesOfDoc(raw) {
		s := strings.TrimSpace(string(v))
		if s != "[]" && s != "{}" && s != "null" && !strings.HasPrefix(s, `{"fee":null`) {
			n++
		}
	}
	return n
}

// roundTrip is called with the chain committed (quiescent point).
func (st *c09State) roundTrip(e *eng.Engine, where string) {
	st.roundTrips++
	app := e.App
	exp := app.Export()
	st.lastExport = exp
	st.lastTime = app.Header.Time
	st.validateWithKnown(e, "ecocredit", exp["ecocredit"], func(r json.RawMessage) error { return app.Eco.ValidateGenesis(app.Cdc, app.TxCfg, r) }, where)
	st.validateWithKnown(e, "data", exp["data"], func(r json.RawMessage) error { return app.Data.ValidateGenesis(app.Cdc, app.TxCfg, r) }, where)

	// import into a fresh chain, exactly the exported documents
	target := chain.NewApp(chain.Options{})
	if err := target.InitChain(exp, app.Header.Time); err != nil {
		e.Violate("C09", "import-failed", fmt.Sprintf("%s: importing the exported genesis into an empty chain failed: %v", where, err))
		return
	}
	re := target.Export()
	for _, mod := range []string{"ecocredit", "data"} {
		a, b := canon(exp[mod]), canon(re[mod])
		if a != b {
			e.Violate("C09", "re-export-differs/"+mod, fmt.Sprintf("%s: %s genesis re-exported after import differs from the exported document: %s", where, mod, firstDiff(a, b)))
		}
	}
	// invariants and ledger scans on the imported chain
	ctx := target.Ctx()
	for _, inv := range target.Invariants {
		if inv.Module != "ecocredit" {
			continue
		}
		if msg, broken := inv.Inv(ctx); broken {
			if inv.Route == "basket-supply" && st.known.Has("F-C05") && strings.Contains(msg, "is imbalanced") {
				// same cause predicate as C05's monitor: only when the harness's exact equation holds
				sn := obs.NewObserver(target).Snap(obs.Opts{})
				if len(mon.BackingScan(sn)) == 0 && mon.AnyBasketExtreme(sn) {
					continue
				}
			}
			e.Violate("C09", "imported-invariant/"+inv.Route, fmt.Sprintf("%s: invariant %s broken on the imported chain: %s", where, inv.Route, trunc(msg, 300)))
		}
	}
	sn := obs.NewObserver(target).Snap(obs.Opts{})
	if bad, _ := mon.ConservationScan(sn); len(bad) > 0 {
		e.Violate("C09", "imported-conservation", where+": conservation fails on the imported chain: "+strings.Join(bad[:1], ";"))
	}
	if bad := mon.EscrowScan(sn); len(bad) > 0 && !st.skipEscrow {
		e.Violate("C09", "imported-escrow", where+": escrow != orders on the imported chain: "+bad[0])
	}
	if bad := mon.BackingScan(sn); len(bad) > 0 {
		e.Violate("C09", "imported-backing", where+": basket backing fails on the imported chain: "+bad[0])
	}
	h := fmt.Sprintf("%x", hashStr(canon(exp["ecocredit"])+canon(exp["data"])))
	if !st.docs[h] {
		st.docs[h] = true
		ne, nd := nonEmptyTables(exp["ecocredit"]), nonEmptyTables(exp["data"])
		if ne >= 12 && nd >= 4 {
			st.nontrivial[h] = true
			if len(st.samples) < 3 {
				st.samples = append(st.samples, map[string]interface{}{"where": where, "ecocredit_tables_non_empty": ne, "data_tables_non_empty": nd, "ecocredit_bytes": len(exp["ecocredit"]), "data_bytes": len(exp["data"])})
			}
		}
	}
}

func hashStr(s string) []byte {
	h := uint64(14695981039346656037)
	for i := 0; i < len(s); i++ {
		h ^= uint64(s[i])
		h *= 1099511628211
	}
	return []byte{byte(h >> 56), byte(h >> 48), byte(h >> 40), byte(h >> 32), byte(h >> 24), byte(h >> 16), byte(h >> 8), byte(h)}
}

func firstDiff(a, b string) string {
	n := len(a)
	if len(b) < n {
		n = len(b)
	}
	i := 0
	for i < n && a[i] == b[i] {
		i++
	}
	lo := i - 80
	if lo < 0 {
		lo = 0
	}
	hi := func(s string) string {
		e := i + 80
		if e > len(s) {
			e = len(s)
		}
		return s[lo:e]
	}
	return fmt.Sprintf("at byte %d: exported …%s… vs re-exported …%s…", i, hi(a), hi(b))
}

func runC09(a Args) Result {
	rep := &eng.Reporter{ReplayDir: a.ReplayDir}
	st := &c09State{known: a.Known, rep: rep, docs: map[string]bool{}, nontrivial: map[string]bool{}, knownHits: map[string]int{}}
	every := 50
	chains := 2
	if a.Tier == "thorough" {
		every = 25
		chains = 4
	}
	cov := map[string]interface{}{}
	reimports := 0
	var errs []string
	stats := map[string]map[string]int{}
	for vi, variant := range a.Variants {
		var doc genDoc
		gt := time.Time{}
		for c := 0; c <= chains; c++ {
			seed := a.Seed*1000003 + int64(a.Worker)*7919 + int64(vi)*104729 + int64(c)*15485863
			steps := a.Steps
			if c > 0 {
				steps = a.Steps / 3
			}
			prof := gen.ProfileFor("C09")
			prof.Boundary = 0.3
			// auxiliary monitors on re-imported chains (their ghosts start from the genesis DOCUMENT)
			var mons []eng.Monitor
			if c > 0 {
				mons = []eng.Monitor{mon.NewC01(), mon.NewC02(), mon.NewC06(), mon.NewC13(), mon.NewC14(), mon.NewC05(a.Known)}
			}
			tag := fmt.Sprintf("s%d-w%d-%s-chain%d", a.Seed, a.Worker, variant, c)
			res := run.Exec(run.Config{Seed: seed, Steps: steps, Profile: prof, Genesis: variant, GenesisDoc: doc, GenesisTime: gt, Monitors: mons, Rep: rep,
				Bootstrap: c == 0, SeedTag: tag, QuiesceEvery: every,
				OnEngine: func(e *eng.Engine) { e.PropOverride = "C09"; e.ClausePrefix = fmt.Sprintf("reimported-chain-%d/", c) },
				Quiesce: func(e *eng.Engine, g *gen.Gen) {
					st.roundTrip(e, fmt.Sprintf("%s height %d", tag, e.App.Header.Height))
				}})
			if res.Err != nil {
				errs = append(errs, res.Err.Error())
			}
			if res.Engine != nil {
				for k, v := range res.Engine.Stats {
					if stats[k] == nil {
						stats[k] = map[string]int{}
					}
					stats[k]["accepted"] += v.OK
					stats[k]["rejected"] += v.Fail
				}
			}
			if st.lastExport == nil {
				break
			}
			// hand the export back as the next chain's genesis
			doc = st.lastExport
			gt = st.lastTime
			if c > 0 {
				reimports++
			}
		}
	}
	// deterministic witness: a genesis only a file can bring in — an open sell order that is not fully
	// backed by its seller's escrow (accepted by ValidateGenesis). The seller tries to cancel it and to
	// reduce it; whatever the handlers do with it, the resulting state must still export, validate and
	// re-import (the escrow = orders scan is skipped on this chain: the genesis itself does not satisfy it).
	if a.Worker == 0 {
		app := chain.NewApp(chain.Options{})
		e := eng.New(app, rep, false)
		e.PropOverride = "C09"
		e.SeedTag = fmt.Sprintf("s%d-w0-underbacked", a.Seed)
		if err := e.Init(gen.Genesis(app, "underbacked"), gen.GenesisTime); err != nil {
			errs = append(errs, "underbacked genesis: "+err.Error())
		} else {
			seller := gen.ActorAddr(4).String()
			price := sdk.NewInt64Coin("stake", 10)
			e.NextBlock(gen.GenesisTime.Add(time.Hour))
			st.skipEscrow = true
			e.Commit()
			st.roundTrip(e, "underbacked-witness genesis")
			e.Resume(gen.GenesisTime.Add(2 * time.Hour))
			e.Exec(eng.Tx{Msgs: []sdk.Msg{&markettypes.MsgUpdateSellOrders{Seller: seller, Updates: []*markettypes.MsgUpdateSellOrders_Update{{SellOrderId: 1, NewQuantity: "2", NewAskPrice: &price, DisableAutoRetire: true}}}}, Tag: "underbacked/update-down"})
			e.Commit()
			st.roundTrip(e, "underbacked-witness after update")
			e.Resume(gen.GenesisTime.Add(3 * time.Hour))
			e.Exec(eng.Tx{Msgs: []sdk.Msg{&markettypes.MsgCancelSellOrder{Seller: seller, SellOrderId: 1}}, Tag: "underbacked/cancel"})
			e.Commit()
			st.roundTrip(e, "underbacked-witness after cancel")
			st.skipEscrow = false
			cov["underbacked_order_witness_round_trips"] = 3
		}
	}
	cov["evaluations"] = st.roundTrips
	cov["round_trips"] = st.roundTrips
	cov["chained_reimports"] = reimports
	cov["distinct_exported_documents"] = len(st.docs)
	cov["distinct_nontrivial"] = len(st.nontrivial)
	var keys []string
	for k := range st.nontrivial {
		keys = append(keys, k)
	}
	sort.Strings(keys)
	cov["_keys"] = keys
	cov["rule"] = "one evaluation = one quiescent-point round trip: export (ecocredit, data, bank, auth) → the modules' own ValidateGenesis → InitChain of a fresh chain with exactly those documents → re-export equality (canonical JSON) → ecocredit invariants + conservation/escrow/backing scans on the imported chain; the final export of each chain becomes the genesis of the next chain on which the hostile workload continues under the C01/C02/C05/C06/C13/C14 monitors; non-trivial = distinct exported document with >=12 ecocredit tables and >=4 data tables non-empty"
	cov["known_finding_hits"] = st.knownHits
	cov["by_message_type"] = stats
	cov["samples"] = st.samples
	if len(errs) > 0 {
		cov["run_errors"] = errs
	}
	out := Result{Coverage: cov, Violations: len(rep.Violations)}
	for _, v := range rep.Violations {
		if v.Replay != "" {
			out.Lines = append(out.Lines, fmt.Sprintf("VIOLATION property=%s replay=%s", v.Prop, v.Replay))
		}
	}
	out.Lines = append(out.Lines, rep.Known...)
	if len(errs) > 0 && len(rep.Violations) == 0 {
		out.Inconclusive = "run aborted: " + strings.Join(errs, "; ")
	}
	return out
}

// replayC09 re-executes a chain trace and performs the round trip at its end.
func replayC09(bz []byte, k *mon.KnownSet, replayDir string) int {
	var f struct {
		Trace *eng.Trace `json:"trace"`
	}
	if json.Unmarshal(bz, &f) != nil || f.Trace == nil {
		fmt.Println("INCONCLUSIVE property=C09 bad replay file")
		return 2
	}
	rep := &eng.Reporter{ReplayDir: replayDir}
	st := &c09State{known: k, rep: rep, docs: map[string]bool{}, nontrivial: map[string]bool{}, knownHits: map[string]int{}}
	app := chain.NewApp(chain.Options{})
	e := eng.New(app, rep, false)
	e.SeedTag = "replay"
	e.PropOverride = "C09"
	e.Monitors = []eng.Monitor{mon.NewC01(), mon.NewC06(), mon.NewC14()}
	func() {
		defer func() {
			if r := recover(); r != nil {
				fmt.Println("# replay aborted:", r)
			}
		}()
		if err := e.Replay(f.Trace); err != nil {
			fmt.Println("# replay error:", err)
			return
		}
		e.Commit()
		st.roundTrip(e, "replay end")
	}()
	if len(rep.Violations) > 0 {
		return 1
	}
	return 0
}
