package special

import (
	"crypto/sha256"
	"fmt"
	"math/big"
	"math/rand"
	"sort"
	"strings"
	"time"

	sdk "github.com/cosmos/cosmos-sdk/types"

	baseapi "github.com/regen-network/regen-ledger/api/v2/regen/ecocredit/v1"
	"github.com/regen-network/regen-ledger/x/data/v3"
	basetypes "github.com/regen-network/regen-ledger/x/ecocredit/v3/base/types/v1"
	baskettypes "github.com/regen-network/regen-ledger/x/ecocredit/v3/basket/types/v1"
	markettypes "github.com/regen-network/regen-ledger/x/ecocredit/v3/marketplace/types/v1"

	"verifharness/eng"
	"verifharness/gen"
	"verifharness/obs"
)

// c17Tilt is the C17-specific workload tilt of DESIGN.md (§C17 "Workload tilt"). It runs inside
// run.Config.Intercept, i.e. in a block and through the same monitored Engine.Exec path as every
// generated transaction, and steers the chain towards states in which filter values are prefixes of
// one another:
//   - credit classes of type C up to C110 (C10 is a string prefix of C100…C109, C11 of C110), with
//     projects and batches under C10/C100/C101/C11/C110;
//   - reference ids VCS-1 / VCS-10 on several projects;
//   - credits, a class, sell orders held by addresses that differ from actor 0 in the last byte, are
//     one byte shorter, one byte longer;
//   - resolvers sharing a URL, URLs that extend / shorten it, the same data attested by several
//     attestors and registered with several resolvers;
//   - a basket NCT2 next to NCT.
//
// Every step is a goal on the observed state: it is re-evaluated on each call and costs nothing
// once reached; a goal that keeps failing rests for 60 calls before it is tried again.
type c17Tilt struct {
	r      *rand.Rand
	active bool
	stats  map[string][2]int // goal → {accepted, rejected}
	fails  map[string]int
	cool   map[string]int
	nonce  int
}

func newC17Tilt(seed int64) *c17Tilt {
	return &c17Tilt{r: rand.New(rand.NewSource(seed ^ 0x17c17)), stats: map[string][2]int{}, fails: map[string]int{}, cool: map[string]int{}}
}

const c17TiltPerCall = 3

var (
	c17Start = time.Date(2020, 1, 1, 0, 0, 0, 0, time.UTC)
	c17End   = time.Date(2021, 1, 1, 0, 0, 0, 0, time.UTC)
)

// neighbour addresses of actor 0: last byte flipped, one byte shorter, one byte longer
func c17Neighbours() (flip, shorter, longer sdk.AccAddress) {
	a := gen.ActorAddr(0)
	f := append([]byte(nil), a...)
	f[len(f)-1] ^= 1
	return f, append([]byte(nil), a[:len(a)-1]...), append(append([]byte(nil), a...), 0)
}

func c17Hash(i int) *data.ContentHash_Graph {
	h := sha256.Sum256([]byte(fmt.Sprintf("c17-attested-%d", i)))
	return &data.ContentHash_Graph{Hash: h[:], DigestAlgorithm: 1, CanonicalizationAlgorithm: 1}
}

const (
	c17URL = "https://resolver-1.example/data" // the generator defines this URL too
)

func sortedSet(m map[string]bool) []string {
	var k []string
	for x := range m {
		k = append(k, x)
	}
	sort.Strings(k)
	return k
}

func (t *c17Tilt) intercept(e *eng.Engine, _ *eng.Tx) {
	if !t.active {
		return
	}
	done := 0
	for _, g := range t.goals() {
		if done >= c17TiltPerCall {
			return
		}
		if t.cool[g.name] > 0 { // a goal that keeps failing rests for a while (e.g. allowlist without a funded creator)
			t.cool[g.name]--
			continue
		}
		if t.fails[g.name] >= 5 {
			t.fails[g.name] = 0
			t.cool[g.name] = 60
			continue
		}
		for done < c17TiltPerCall {
			tx := g.next(e.Cur.V())
			if tx == nil {
				break
			}
			tx.Tag = "c17-tilt/" + g.name
			rec := e.Exec(*tx)
			done++
			s := t.stats[g.name]
			if rec != nil && rec.OK {
				s[0]++
				t.fails[g.name] = 0
			} else {
				s[1]++
				t.fails[g.name]++
			}
			t.stats[g.name] = s
			if rec == nil || !rec.OK {
				break
			}
		}
	}
}

type c17Goal struct {
	name string
	next func(v *obs.View) *eng.Tx // nil = reached (or not yet possible)
}

func apiCoinOf(c interface {
	GetDenom() string
	GetAmount() string
}) *sdk.Coin {
	n, ok := new(big.Int).SetString(c.GetAmount(), 10)
	if !ok || n.Sign() <= 0 {
		return nil
	}
	return &sdk.Coin{Denom: c.GetDenom(), Amount: sdk.NewIntFromBigInt(n)}
}

// tradableOf returns up to n batch denoms (of credit type C when onlyC) of which addr holds at least min tradable.
func tradableOf(v *obs.View, addr string, min int64, n int, onlyC bool) []string {
	var out []string
	for _, k := range v.SortedBatchKeys() {
		b := v.Batches[k]
		bal := v.Balances[obs.BalKey{Addr: addr, BatchKey: k}]
		if bal == nil || bal.T == nil || bal.T.Cmp(big.NewRat(min, 1)) < 0 {
			continue
		}
		if onlyC {
			cl := v.ClassOfBatch(b)
			if cl == nil || cl.CreditTypeAbbrev != "C" {
				continue
			}
		}
		out = append(out, b.Denom)
		if len(out) >= n {
			break
		}
	}
	return out
}

func (t *c17Tilt) goals() []c17Goal {
	A := gen.Actors()
	flip, shorter, longer := c17Neighbours()
	neigh := []string{flip.String(), shorter.String(), longer.String()}
	mk := func(msgs ...sdk.Msg) *eng.Tx { return &eng.Tx{Msgs: msgs} }
	targets := []struct {
		id       string
		projects int
		refs     []string
	}{
		{"C10", 3, []string{"VCS-1", "VCS-10", "", "VCS-100"}},
		{"C100", 2, []string{"VCS-10", "VCS-1", ""}},
		{"C101", 1, []string{"VCS-1", ""}},
		{"C11", 2, []string{"VCS-1", "VCS-10", ""}},
		{"C110", 1, []string{"VCS-10", ""}},
	}
	var goals []c17Goal

	// 1. classes of credit type C up to C110
	goals = append(goals, c17Goal{"classes-to-C110", func(v *obs.View) *eng.Tx {
		if _, ok := v.CreditTypes["C"]; !ok || v.ClassSeq["C"] > 110 {
			return nil
		}
		t.nonce++
		admin := A[t.nonce%6] // the funded actors
		if v.Allowlist {
			if cr := sortedSet(v.Creators); len(cr) > 0 {
				admin = cr[t.nonce%len(cr)]
			} else {
				return nil
			}
		}
		m := &basetypes.MsgCreateClass{Admin: admin, Issuers: []string{A[t.nonce%8], A[(t.nonce+3)%8]}, Metadata: "c17", CreditTypeAbbrev: "C"}
		if t.nonce%5 == 0 {
			m.Issuers = append(m.Issuers, A[(t.nonce+5)%8], longer.String())
		}
		if v.ClassFee != nil && v.ClassFee.Fee != nil {
			m.Fee = apiCoinOf(v.ClassFee.Fee)
		}
		return mk(m)
	}})

	// 2. projects under the prefix-related classes, with prefix-related reference ids
	for _, tg := range targets {
		tg := tg
		goals = append(goals, c17Goal{"projects-" + tg.id, func(v *obs.View) *eng.Tx {
			cl := v.ClassByID[tg.id]
			if cl == nil {
				return nil
			}
			n := 0
			used := map[string]bool{}
			for _, p := range v.ProjectList {
				if p.ClassKey == cl.Key {
					n++
					used[p.ReferenceId] = true
				}
			}
			if n >= tg.projects {
				return nil
			}
			iss := sortedSet(v.Issuers[cl.Key])
			if len(iss) == 0 {
				return nil
			}
			ref := ""
			for _, r := range tg.refs {
				if r == "" || !used[r] {
					ref = r
					break
				}
			}
			return mk(&basetypes.MsgCreateProject{Admin: iss[0], ClassId: tg.id, Metadata: "c17", Jurisdiction: "US", ReferenceId: ref})
		}})
	}

	// 3. batches under those projects (first project of C10: three)
	for _, tg := range targets {
		tg := tg
		goals = append(goals, c17Goal{"batches-" + tg.id, func(v *obs.View) *eng.Tx {
			cl := v.ClassByID[tg.id]
			if cl == nil {
				return nil
			}
			iss := sortedSet(v.Issuers[cl.Key])
			if len(iss) == 0 {
				return nil
			}
			var ps []*baseapi.Project
			for _, p := range v.ProjectList {
				if p.ClassKey == cl.Key {
					ps = append(ps, p)
				}
			}
			sort.Slice(ps, func(i, j int) bool { return ps[i].Id < ps[j].Id })
			for pi, p := range ps {
				want := 2
				if pi == 0 && tg.id == "C10" {
					want = 3
				}
				n := 0
				for _, b := range v.BatchList {
					if b.ProjectKey == p.Key {
						n++
					}
				}
				if n >= want {
					continue
				}
				s, en := c17Start, c17End
				return mk(&basetypes.MsgCreateBatch{Issuer: iss[0], ProjectId: p.Id, Metadata: "c17", StartDate: &s, EndDate: &en, Open: n == 0,
					Issuance: []*basetypes.BatchIssuance{{Recipient: A[0], TradableAmount: "1000"}, {Recipient: A[1], TradableAmount: "500", RetiredAmount: "1.5", RetirementJurisdiction: "US"},
						{Recipient: A[3], TradableAmount: "250.000001"}, {Recipient: longer.String(), TradableAmount: "7"}}})
			}
			return nil
		}})
	}

	// 4. credits held by the neighbour addresses of actor 0
	for i, nb := range neigh {
		nb := nb
		goals = append(goals, c17Goal{fmt.Sprintf("neighbour-balances-%d", i), func(v *obs.View) *eng.Tx {
			have := map[uint64]bool{}
			for _, b := range v.BalanceList {
				if obs.Addr(b.Row.Address) == nb {
					have[b.Row.BatchKey] = true
				}
			}
			if len(have) >= 3 {
				return nil
			}
			for _, d := range tradableOf(v, A[0], 10, 40, false) {
				if b := v.BatchByDenom[d]; b != nil && !have[b.Key] {
					return mk(&basetypes.MsgSend{Sender: A[0], Recipient: nb, Credits: []*basetypes.MsgSend_SendCredits{{BatchDenom: d, TradableAmount: "2.5"}}})
				}
			}
			return nil
		}})
	}

	// 5. the longer neighbour becomes admin of two classes and of a project, and a seller
	goals = append(goals, c17Goal{"neighbour-class-admin", func(v *obs.View) *eng.Tx {
		n := 0
		for _, c := range v.ClassList {
			if obs.Addr(c.Admin) == neigh[2] {
				n++
			}
		}
		if n >= 2 {
			return nil
		}
		for _, c := range v.ClassList {
			if obs.Addr(c.Admin) == A[0] && !strings.HasPrefix(c.Id, "C10") && !strings.HasPrefix(c.Id, "C11") {
				return mk(&basetypes.MsgUpdateClassAdmin{Admin: A[0], ClassId: c.Id, NewAdmin: neigh[2]})
			}
		}
		return nil
	}})
	goals = append(goals, c17Goal{"neighbour-project-admin", func(v *obs.View) *eng.Tx {
		n := 0
		for _, p := range v.ProjectList {
			if obs.Addr(p.Admin) == neigh[2] {
				n++
			}
		}
		if n >= 2 {
			return nil
		}
		var mine []*baseapi.Project
		for _, p := range v.ProjectList {
			if obs.Addr(p.Admin) == A[0] {
				mine = append(mine, p)
			}
		}
		if len(mine) < 4 { // keep at least two for actor 0
			return nil
		}
		return mk(&basetypes.MsgUpdateProjectAdmin{Admin: A[0], ProjectId: mine[len(mine)-1].Id, NewAdmin: neigh[2]})
	}})
	for i, seller := range []string{neigh[2], A[0], neigh[0]} {
		seller := seller
		goals = append(goals, c17Goal{fmt.Sprintf("sell-orders-%d", i), func(v *obs.View) *eng.Tx {
			n := 0
			for _, o := range v.OrderList {
				if obs.Addr(o.Seller) == seller {
					n++
				}
			}
			if n >= 3 {
				return nil
			}
			if _, ok := v.AllowedDenoms["stake"]; !ok {
				return nil
			}
			ds := tradableOf(v, seller, 2, 2, false)
			if len(ds) == 0 {
				return nil
			}
			m := &markettypes.MsgSell{Seller: seller}
			for k := 0; k < 3; k++ {
				c := sdk.NewInt64Coin("stake", int64(5+k))
				m.Orders = append(m.Orders, &markettypes.MsgSell_Order{BatchDenom: ds[k%len(ds)], Quantity: "0.25", AskPrice: &c, DisableAutoRetire: k%2 == 0})
			}
			return mk(m)
		}})
	}

	// 6. resolvers: one URL shared by several managers, URLs extending / shortening it
	type rs struct {
		url     string
		definer string
	}
	for i, r := range []rs{{c17URL, A[0]}, {c17URL, A[1]}, {c17URL, A[2]}, {c17URL + "2", A[0]}, {c17URL + "2", A[3]}, {c17URL[:len(c17URL)-1], A[1]}, {c17URL + "/v2", A[2]}} {
		r := r
		goals = append(goals, c17Goal{fmt.Sprintf("resolver-%d", i), func(v *obs.View) *eng.Tx {
			for _, x := range v.ResolverList {
				if x.Url == r.url && obs.Addr(x.Manager) == r.definer {
					return nil
				}
			}
			return mk(&data.MsgDefineResolver{Definer: r.definer, ResolverUrl: r.url})
		}})
	}
	// 7. the same three graphs attested by five attestors (one of them the longer neighbour)
	for i, at := range []string{A[0], A[1], A[2], A[4], neigh[2], neigh[0]} {
		at := at
		goals = append(goals, c17Goal{fmt.Sprintf("attest-%d", i), func(v *obs.View) *eng.Tx {
			n := 0
			for _, x := range v.Attestors {
				if obs.Addr(x.Attestor) == at {
					n++
				}
			}
			if n >= 3 {
				return nil
			}
			return mk(&data.MsgAttest{Attestor: at, ContentHashes: []*data.ContentHash_Graph{c17Hash(0), c17Hash(1), c17Hash(2), c17Hash(3 + i)}})
		}})
	}
	// 8. the same data registered with every resolver of the tilt
	goals = append(goals, c17Goal{"register", func(v *obs.View) *eng.Tx {
		iri0, err := c17Hash(0).ToIRI()
		if err != nil {
			return nil
		}
		id0, anchored := v.IDByIRI[iri0]
		for _, x := range v.ResolverList {
			if !strings.HasPrefix(x.Url, c17URL[:len(c17URL)-1]) || len(x.Manager) == 0 {
				continue
			}
			reg := false
			if anchored {
				for _, dr := range v.DataResolver {
					if string(dr.Id) == id0 && dr.ResolverId == x.Id {
						reg = true
					}
				}
			}
			if !reg {
				return mk(&data.MsgRegisterResolver{Signer: obs.Addr(x.Manager), ResolverId: x.Id,
					ContentHashes: []*data.ContentHash{{Graph: c17Hash(0)}, {Graph: c17Hash(1)}, {Raw: &data.ContentHash_Raw{Hash: c17Hash(2).Hash, DigestAlgorithm: 1, FileExtension: "csv"}}}})
			}
		}
		return nil
	}})
	// 9. basket NCT2 next to NCT, with credits in it
	goals = append(goals, c17Goal{"basket-NCT2", func(v *obs.View) *eng.Tx {
		if v.BasketByName["NCT"] == nil || v.BasketByName["NCT2"] != nil {
			return nil
		}
		var classes []string
		for _, c := range v.ClassList {
			if c.CreditTypeAbbrev == "C" && len(classes) < 40 {
				classes = append(classes, c.Id)
			}
		}
		if len(classes) == 0 {
			return nil
		}
		m := &baskettypes.MsgCreate{Curator: A[0], Name: "NCT2", Description: "c17", CreditTypeAbbrev: "C", AllowedClasses: classes, DisableAutoRetire: true}
		if v.BasketFee != nil && v.BasketFee.Fee != nil {
			if c := apiCoinOf(v.BasketFee.Fee); c != nil {
				m.Fee = sdk.Coins{*c}
			}
		}
		return mk(m)
	}})
	goals = append(goals, c17Goal{"basket-NCT2-puts", func(v *obs.View) *eng.Tx {
		b := v.BasketByName["NCT2"]
		if b == nil {
			return nil
		}
		have := map[string]bool{}
		for _, bb := range v.BasketBalList {
			if bb.BasketId == b.Id {
				have[bb.BatchDenom] = true
			}
		}
		if len(have) >= 4 {
			return nil
		}
		for _, d := range tradableOf(v, A[0], 10, 60, true) {
			bt := v.BatchByDenom[d]
			cl := v.ClassOfBatch(bt)
			if have[d] || cl == nil || !v.BasketClasses[b.Id][cl.Id] {
				continue
			}
			return mk(&baskettypes.MsgPut{Owner: A[0], BasketDenom: b.BasketDenom, Credits: []*baskettypes.BasketCredit{{BatchDenom: d, Amount: "1.5"}}})
		}
		return nil
	}})
	return goals
}
