// Package ref holds the exact references the oracles decide with (math/big only).
package ref

import (
	"fmt"
	"math/big"
	"strings"
)

// ParseDec parses a decimal string (optional sign, digits, optional fraction, optional exponent)
// into an exact rational. places is the number of fractional digits of the value as written after
// applying the exponent (never negative). plain reports whether the string is plain notation.
func ParseDec(s string) (r *big.Rat, places int, plain bool, err error) {
	orig := s
	if s == "" {
		return nil, 0, false, fmt.Errorf("empty decimal")
	}
	neg := false
	if s[0] == '+' || s[0] == '-' {
		neg = s[0] == '-'
		s = s[1:]
	}
	exp := 0
	plain = true
	if i := strings.IndexAny(s, "eE"); i >= 0 {
		plain = false
		es := s[i+1:]
		s = s[:i]
		if es == "" {
			return nil, 0, false, fmt.Errorf("bad exponent in %q", orig)
		}
		eneg := false
		if es[0] == '+' || es[0] == '-' {
			eneg = es[0] == '-'
			es = es[1:]
		}
		if es == "" || len(es) > 6 {
			return nil, 0, false, fmt.Errorf("bad exponent in %q", orig)
		}
		for _, c := range es {
			if c < '0' || c > '9' {
				return nil, 0, false, fmt.Errorf("bad exponent in %q", orig)
			}
			exp = exp*10 + int(c-'0')
		}
		if eneg {
			exp = -exp
		}
	}
	ip, fp := s, ""
	if i := strings.IndexByte(s, '.'); i >= 0 {
		ip, fp = s[:i], s[i+1:]
	}
	if ip == "" && fp == "" {
		return nil, 0, false, fmt.Errorf("no digits in %q", orig)
	}
	for _, c := range ip + fp {
		if c < '0' || c > '9' {
			return nil, 0, false, fmt.Errorf("bad digit in %q", orig)
		}
	}
	n, ok := new(big.Int).SetString(ip+fp+"", 10)
	if !ok {
		n = new(big.Int)
		if ip+fp != "" {
			return nil, 0, false, fmt.Errorf("bad number %q", orig)
		}
	}
	scale := len(fp) - exp // value = n / 10^scale
	r = new(big.Rat).SetInt(n)
	if scale > 0 {
		r.Quo(r, new(big.Rat).SetInt(Pow10(scale)))
		places = scale
	} else if scale < 0 {
		r.Mul(r, new(big.Rat).SetInt(Pow10(-scale)))
	}
	if neg {
		r.Neg(r)
	}
	return r, places, plain, nil
}

func Pow10(n int) *big.Int {
	return new(big.Int).Exp(big.NewInt(10), big.NewInt(int64(n)), nil)
}

// MustDec parses or returns nil.
func MustDec(s string) *big.Rat {
	r, _, _, err := ParseDec(s)
	if err != nil {
		return nil
	}
	return r
}

// DecOrZero treats the empty string as zero (as the chain does for unset amounts).
func DecOrZero(s string) (*big.Rat, error) {
	if s == "" {
		return new(big.Rat), nil
	}
	r, _, _, err := ParseDec(s)
	return r, err
}

// RatString renders an exact rational as a plain decimal when it terminates, else as a fraction.
func RatString(r *big.Rat) string {
	if r == nil {
		return "<nil>"
	}
	if r.IsInt() {
		return r.Num().String()
	}
	// try up to 60 places
	d := new(big.Int).Set(r.Denom())
	for p := 1; p <= 60; p++ {
		m := new(big.Int).Mul(r.Num(), Pow10(p))
		if new(big.Int).Mod(m, d).Sign() == 0 {
			return r.FloatString(p)
		}
	}
	return r.String()
}

// Floor returns ⌊r⌋ for r ≥ 0 and truncation toward zero in general.
func Trunc(r *big.Rat) *big.Int {
	q := new(big.Int).Quo(r.Num(), r.Denom()) // Quo truncates toward zero
	return q
}

// SigDigits returns the number of significant decimal digits needed to write the terminating
// rational exactly (coefficient digits without trailing zeros), or -1 if it does not terminate
// within 200 places.
func SigDigits(r *big.Rat) int {
	if r.Sign() == 0 {
		return 1
	}
	d := new(big.Int).Set(r.Denom())
	for p := 0; p <= 200; p++ {
		m := new(big.Int).Mul(r.Num(), Pow10(p))
		if new(big.Int).Mod(m, d).Sign() == 0 {
			c := new(big.Int).Quo(m, d)
			c.Abs(c)
			s := strings.TrimRight(c.String(), "0")
			if s == "" {
				return 1
			}
			return len(s)
		}
	}
	return -1
}
