// Package chain wires the real BaseApp + IAVL + x/auth + x/bank + the ecocredit and data AppModules
// of /repo the way app/app.go does for these modules, and drives it through ABCI.
package chain

import (
	"encoding/json"
	"fmt"
	"sort"
	"time"

	dbm "github.com/cometbft/cometbft-db"
	abci "github.com/cometbft/cometbft/abci/types"
	"github.com/cometbft/cometbft/libs/log"
	tmproto "github.com/cometbft/cometbft/proto/tendermint/types"

	"github.com/cosmos/cosmos-sdk/baseapp"
	"github.com/cosmos/cosmos-sdk/client"
	"github.com/cosmos/cosmos-sdk/codec"
	codectypes "github.com/cosmos/cosmos-sdk/codec/types"
	"github.com/cosmos/cosmos-sdk/orm/model/ormdb"
	"github.com/cosmos/cosmos-sdk/std"
	storetypes "github.com/cosmos/cosmos-sdk/store/types"
	sdk "github.com/cosmos/cosmos-sdk/types"
	"github.com/cosmos/cosmos-sdk/types/module"
	"github.com/cosmos/cosmos-sdk/x/auth"
	"github.com/cosmos/cosmos-sdk/x/auth/ante"
	authkeeper "github.com/cosmos/cosmos-sdk/x/auth/keeper"
	authtx "github.com/cosmos/cosmos-sdk/x/auth/tx"
	authtypes "github.com/cosmos/cosmos-sdk/x/auth/types"
	"github.com/cosmos/cosmos-sdk/x/bank"
	bankkeeper "github.com/cosmos/cosmos-sdk/x/bank/keeper"
	banktypes "github.com/cosmos/cosmos-sdk/x/bank/types"
	paramstypes "github.com/cosmos/cosmos-sdk/x/params/types"

	dataapi "github.com/regen-network/regen-ledger/api/v2/regen/data/v1"
	basketapi "github.com/regen-network/regen-ledger/api/v2/regen/ecocredit/basket/v1"
	marketapi "github.com/regen-network/regen-ledger/api/v2/regen/ecocredit/marketplace/v1"
	baseapi "github.com/regen-network/regen-ledger/api/v2/regen/ecocredit/v1"
	"github.com/regen-network/regen-ledger/types/v2/ormstore"
	"github.com/regen-network/regen-ledger/x/data/v3"
	datamodule "github.com/regen-network/regen-ledger/x/data/v3/module"
	dataserver "github.com/regen-network/regen-ledger/x/data/v3/server"
	"github.com/regen-network/regen-ledger/x/data/v3/server/hasher"
	"github.com/regen-network/regen-ledger/x/ecocredit/v3"
	"github.com/regen-network/regen-ledger/x/ecocredit/v3/basket"
	"github.com/regen-network/regen-ledger/x/ecocredit/v3/marketplace"
	ecomodule "github.com/regen-network/regen-ledger/x/ecocredit/v3/module"
)

const (
	ChainID      = "verif-1"
	Bech32Prefix = "regen"
	GovModule    = "gov"
)

func init() {
	cfg := sdk.GetConfig()
	cfg.SetBech32PrefixForAccount(Bech32Prefix, Bech32Prefix+"pub")
	cfg.SetBech32PrefixForValidator(Bech32Prefix+"valoper", Bech32Prefix+"valoperpub")
	cfg.SetBech32PrefixForConsensusNode(Bech32Prefix+"valcons", Bech32Prefix+"valconspub")
}

// MaccPerms are the module account permissions app/app.go gives the accounts the harness models.
func MaccPerms() map[string][]string {
	return map[string][]string{
		authtypes.FeeCollectorName: nil,
		GovModule:                  {authtypes.Burner},
		ecocredit.ModuleName:       {authtypes.Burner},
		basket.BasketSubModuleName: {authtypes.Burner, authtypes.Minter},
		marketplace.FeePoolName:    {authtypes.Burner},
	}
}

// ModuleAccountNames in deterministic order.
func ModuleAccountNames() []string {
	var n []string
	for k := range MaccPerms() {
		n = append(n, k)
	}
	sort.Strings(n)
	return n
}

// Shared holds the objects a node shares between DeliverTx, Query and Simulate: store keys, keepers,
// modules. K BaseApps built over one Shared (each with its own DB) share them (C10 schedules).
type Shared struct {
	Cdc     codec.Codec
	IR      codectypes.InterfaceRegistry
	Amino   *codec.LegacyAmino
	TxCfg   client.TxConfig
	Keys    map[string]*storetypes.KVStoreKey
	TKey    *storetypes.TransientStoreKey
	AK      authkeeper.AccountKeeper
	BK      bankkeeper.BaseKeeper
	Eco     *ecomodule.Module
	Data    *datamodule.Module
	AuthMod auth.AppModule
	BankMod bank.AppModule
	GovAddr sdk.AccAddress
	Hasher  hasher.Hasher // nil = production hasher through the module's own constructor
}

var StoreNames = []string{authtypes.StoreKey, banktypes.StoreKey, paramstypes.StoreKey, ecocredit.ModuleName, data.ModuleName}

func NewShared(h hasher.Hasher) *Shared {
	s := &Shared{Hasher: h}
	s.IR = codectypes.NewInterfaceRegistry()
	s.Cdc = codec.NewProtoCodec(s.IR)
	s.Amino = codec.NewLegacyAmino()
	std.RegisterInterfaces(s.IR)
	std.RegisterLegacyAminoCodec(s.Amino)
	s.TxCfg = authtx.NewTxConfig(s.Cdc.(*codec.ProtoCodec), authtx.DefaultSignModes)
	s.Keys = map[string]*storetypes.KVStoreKey{}
	for _, n := range StoreNames {
		s.Keys[n] = storetypes.NewKVStoreKey(n)
	}
	s.TKey = storetypes.NewTransientStoreKey(paramstypes.TStoreKey)
	s.GovAddr = authtypes.NewModuleAddress(GovModule)

	s.AK = authkeeper.NewAccountKeeper(s.Cdc, s.Keys[authtypes.StoreKey], authtypes.ProtoBaseAccount, MaccPerms(), Bech32Prefix, s.GovAddr.String())
	blocked := map[string]bool{}
	for n := range MaccPerms() {
		blocked[authtypes.NewModuleAddress(n).String()] = true
	}
	delete(blocked, s.GovAddr.String())
	s.BK = bankkeeper.NewBaseKeeper(s.Cdc, s.Keys[banktypes.StoreKey], s.AK, blocked, s.GovAddr.String())

	sub := paramstypes.NewSubspace(s.Cdc, s.Amino, s.Keys[paramstypes.StoreKey], s.TKey, ecocredit.DefaultParamspace)
	s.Eco = ecomodule.NewModule(s.Keys[ecocredit.ModuleName], s.GovAddr, s.AK, s.BK, sub, nil)
	s.Data = datamodule.NewModule(s.Keys[data.ModuleName], s.AK, s.BK)
	s.AuthMod = auth.NewAppModule(s.Cdc, s.AK, nil, paramstypes.Subspace{})
	s.BankMod = bank.NewAppModule(s.Cdc, s.BK, s.AK, paramstypes.Subspace{})

	for _, m := range []module.AppModuleBasic{s.AuthMod, s.BankMod, s.Eco, s.Data} {
		m.RegisterInterfaces(s.IR)
		m.RegisterLegacyAminoCodec(s.Amino)
	}
	return s
}

type NamedInvariant struct {
	Module, Route string
	Inv           sdk.Invariant
}

type invReg struct{ list []NamedInvariant }

func (r *invReg) RegisterRoute(moduleName, route string, invar sdk.Invariant) {
	r.list = append(r.list, NamedInvariant{moduleName, route, invar})
}

// dataKeeper is what the data module needs for genesis when the server is built with an injected hasher.
type dataKeeper interface {
	InitGenesis(ctx sdk.Context, cdc codec.JSONCodec, data json.RawMessage) ([]abci.ValidatorUpdate, error)
	ExportGenesis(ctx sdk.Context, cdc codec.JSONCodec) (json.RawMessage, error)
}

type App struct {
	*Shared
	BA         *baseapp.BaseApp
	DB         dbm.DB
	Invariants []NamedInvariant
	dataK      dataKeeper // non-nil only with injected hasher

	// harness-owned read-only handles (same schema, same store key)
	BaseStore   baseapi.StateStore
	BasketStore basketapi.StateStore
	MarketStore marketapi.StateStore
	DataStore   dataapi.StateStore

	Header   tmproto.Header
	InBlock  bool
	Gas      *GasRecorder
	LastHash []byte
}

// GasRecorder is a harness-side ante decorator placed after SetUpContext; when armed it records the
// cumulative gas after every consumption (the exact list of abort points of a transaction).
type GasRecorder struct {
	Armed  bool
	Points []uint64
}

type recMeter struct {
	sdk.GasMeter
	r *GasRecorder
}

func (m recMeter) ConsumeGas(amount sdk.Gas, descriptor string) {
	m.GasMeter.ConsumeGas(amount, descriptor)
	m.r.Points = append(m.r.Points, m.GasMeter.GasConsumed())
}

func (g *GasRecorder) AnteHandle(ctx sdk.Context, tx sdk.Tx, simulate bool, next sdk.AnteHandler) (sdk.Context, error) {
	if g.Armed {
		ctx = ctx.WithGasMeter(recMeter{ctx.GasMeter(), g})
	}
	return next(ctx, tx, simulate)
}

type Options struct {
	DB     dbm.DB
	Shared *Shared       // nil → fresh
	Hasher hasher.Hasher // used only when Shared == nil
}

func NewApp(o Options) *App {
	sh := o.Shared
	if sh == nil {
		sh = NewShared(o.Hasher)
	}
	db := o.DB
	if db == nil {
		db = dbm.NewMemDB()
	}
	a := &App{Shared: sh, DB: db, Gas: &GasRecorder{}}
	a.BA = baseapp.NewBaseApp("verif", log.NewNopLogger(), db, sh.TxCfg.TxDecoder(), baseapp.SetChainID(ChainID))
	a.BA.SetInterfaceRegistry(sh.IR)
	for _, n := range StoreNames {
		a.BA.MountStores(sh.Keys[n])
	}
	a.BA.MountStores(sh.TKey)

	cfg := module.NewConfigurator(sh.Cdc, a.BA.MsgServiceRouter(), a.BA.GRPCQueryRouter())
	sh.AuthMod.RegisterServices(cfg)
	sh.BankMod.RegisterServices(cfg)
	sh.Eco.RegisterServices(cfg)
	if sh.Hasher == nil {
		sh.Data.RegisterServices(cfg)
	} else {
		impl := dataserver.NewServerWithHasher(sh.Keys[data.ModuleName], sh.AK, sh.BK, sh.Hasher)
		data.RegisterMsgServer(cfg.MsgServer(), impl)
		data.RegisterQueryServer(cfg.QueryServer(), impl)
		a.dataK = impl
	}
	reg := &invReg{}
	sh.Eco.RegisterInvariants(reg)
	sh.BankMod.RegisterInvariants(reg)
	a.Invariants = reg.list

	a.BA.SetInitChainer(a.initChainer)
	a.BA.SetBeginBlocker(func(ctx sdk.Context, req abci.RequestBeginBlock) abci.ResponseBeginBlock {
		sh.Eco.BeginBlock(ctx, req)
		return abci.ResponseBeginBlock{Events: ctx.EventManager().ABCIEvents()}
	})
	a.BA.SetEndBlocker(func(ctx sdk.Context, req abci.RequestEndBlock) abci.ResponseEndBlock {
		return abci.ResponseEndBlock{}
	})
	a.BA.SetAnteHandler(sdk.ChainAnteDecorators(ante.NewSetUpContextDecorator(), a.Gas))

	if err := a.BA.LoadLatestVersion(); err != nil {
		panic(err)
	}

	edb, err := ormstore.NewStoreKeyDB(&ecocredit.ModuleSchema, sh.Keys[ecocredit.ModuleName], ormdb.ModuleDBOptions{})
	must(err)
	a.BaseStore, err = baseapi.NewStateStore(edb)
	must(err)
	a.BasketStore, err = basketapi.NewStateStore(edb)
	must(err)
	a.MarketStore, err = marketapi.NewStateStore(edb)
	must(err)
	ddb, err := ormstore.NewStoreKeyDB(&data.ModuleSchema, sh.Keys[data.ModuleName], ormdb.ModuleDBOptions{})
	must(err)
	a.DataStore, err = dataapi.NewStateStore(ddb)
	must(err)
	return a
}

func must(err error) {
	if err != nil {
		panic(err)
	}
}

// ModuleOrder is the genesis order.
var ModuleOrder = []string{authtypes.ModuleName, banktypes.ModuleName, ecocredit.ModuleName, data.ModuleName}

func (a *App) initChainer(ctx sdk.Context, req abci.RequestInitChain) abci.ResponseInitChain {
	var gs map[string]json.RawMessage
	must(json.Unmarshal(req.AppStateBytes, &gs))
	for _, name := range ModuleOrder {
		raw, ok := gs[name]
		if !ok {
			continue
		}
		switch name {
		case authtypes.ModuleName:
			a.AuthMod.InitGenesis(ctx, a.Cdc, raw)
		case banktypes.ModuleName:
			a.BankMod.InitGenesis(ctx, a.Cdc, raw)
		case ecocredit.ModuleName:
			a.Eco.InitGenesis(ctx, a.Cdc, raw)
		case data.ModuleName:
			if a.dataK != nil {
				_, err := a.dataK.InitGenesis(ctx, a.Cdc, raw)
				must(err)
			} else {
				a.Data.InitGenesis(ctx, a.Cdc, raw)
			}
		}
	}
	return abci.ResponseInitChain{}
}

// DefaultGenesis returns each module's own default genesis.
func (a *App) DefaultGenesis() map[string]json.RawMessage {
	return map[string]json.RawMessage{
		authtypes.ModuleName: a.AuthMod.DefaultGenesis(a.Cdc),
		banktypes.ModuleName: a.BankMod.DefaultGenesis(a.Cdc),
		ecocredit.ModuleName: a.Eco.DefaultGenesis(a.Cdc),
		data.ModuleName:      a.Data.DefaultGenesis(a.Cdc),
	}
}

// InitChain delivers the genesis. It returns an error (recovered panic) when a module rejects it.
func (a *App) InitChain(gs map[string]json.RawMessage, t time.Time) (err error) {
	defer func() {
		if r := recover(); r != nil {
			err = fmt.Errorf("InitChain panic: %v", r)
		}
	}()
	bz, e := json.Marshal(gs)
	must(e)
	a.BA.InitChain(abci.RequestInitChain{ChainId: ChainID, Time: t.UTC(), AppStateBytes: bz, InitialHeight: 1})
	a.Header = tmproto.Header{ChainID: ChainID, Height: 0, Time: t.UTC()}
	a.InBlock = true // deliverState exists after InitChain
	return nil
}

// Export returns the modules' exported genesis from the current state.
func (a *App) Export() map[string]json.RawMessage {
	ctx := a.Ctx()
	out := map[string]json.RawMessage{
		authtypes.ModuleName: a.AuthMod.ExportGenesis(ctx, a.Cdc),
		banktypes.ModuleName: a.BankMod.ExportGenesis(ctx, a.Cdc),
		ecocredit.ModuleName: a.Eco.ExportGenesis(ctx, a.Cdc),
	}
	if a.dataK != nil {
		j, err := a.dataK.ExportGenesis(ctx, a.Cdc)
		must(err)
		out[data.ModuleName] = j
	} else {
		out[data.ModuleName] = a.Data.ExportGenesis(ctx, a.Cdc)
	}
	return out
}

// BeginBlock runs the real BeginBlock under recover (the SDK does not recover BeginBlock panics).
func (a *App) BeginBlock(t time.Time) (events []abci.Event, panicked interface{}) {
	a.Header = tmproto.Header{ChainID: ChainID, Height: a.Header.Height + 1, Time: t.UTC()}
	defer func() {
		if r := recover(); r != nil {
			panicked = r
		}
	}()
	res := a.BA.BeginBlock(abci.RequestBeginBlock{Header: a.Header})
	a.InBlock = true
	return res.Events, nil
}

func (a *App) EndBlockCommit() []byte {
	a.BA.EndBlock(abci.RequestEndBlock{Height: a.Header.Height})
	res := a.BA.Commit()
	a.InBlock = false
	a.LastHash = res.Data
	return res.Data
}

// Ctx is a read context over the in-flight block state (or the committed state between blocks).
func (a *App) Ctx() sdk.Context {
	if a.InBlock {
		return a.BA.NewContext(false, a.Header)
	}
	return a.BA.NewUncachedContext(false, a.Header)
}

// EncodeTx builds real tx bytes (no signatures: there is no sig-verify decorator in the harness).
func (a *App) EncodeTx(gas uint64, msgs ...sdk.Msg) ([]byte, error) {
	b := a.TxCfg.NewTxBuilder()
	if err := b.SetMsgs(msgs...); err != nil {
		return nil, err
	}
	b.SetGasLimit(gas)
	return a.TxCfg.TxEncoder()(b.GetTx())
}

func (a *App) Deliver(txBytes []byte) abci.ResponseDeliverTx {
	return a.BA.DeliverTx(abci.RequestDeliverTx{Tx: txBytes})
}

// Query goes through the gRPC query router with marshalled request/response on the in-flight state.
func (a *App) Query(path string, req codec.ProtoMarshaler, resp codec.ProtoMarshaler) error {
	bz, err := a.Cdc.Marshal(req)
	if err != nil {
		return err
	}
	h := a.BA.GRPCQueryRouter().Route(path)
	if h == nil {
		return fmt.Errorf("no query route %s", path)
	}
	ctx, _ := a.Ctx().CacheContext()
	r, err := h(ctx, abci.RequestQuery{Path: path, Data: bz})
	if err != nil {
		return err
	}
	return a.Cdc.Unmarshal(r.Value, resp)
}

// RawKV dumps every key/value of every persistent store.
func (a *App) RawKV() map[string][][2][]byte {
	ctx := a.Ctx()
	out := map[string][][2][]byte{}
	for _, n := range StoreNames {
		it := ctx.KVStore(a.Keys[n]).Iterator(nil, nil)
		var l [][2][]byte
		for ; it.Valid(); it.Next() {
			k := append([]byte(nil), it.Key()...)
			v := append([]byte(nil), it.Value()...)
			l = append(l, [2][]byte{k, v})
		}
		it.Close()
		out[n] = l
	}
	return out
}
