// vrun is the chain-level checker: one property per invocation, quick or thorough tier.
package main

import (
	"encoding/json"
	"flag"
	"fmt"
	"os"
	"os/exec"
	"path/filepath"
	"sort"
	"strings"
	"sync"
	"time"

	"verifharness/chain"
	"verifharness/eng"
	"verifharness/gen"
	"verifharness/mon"
	"verifharness/run"
	"verifharness/special"
)

type workerOut struct {
	Coverage   map[string]interface{} `json:"coverage"`
	Violations int                    `json:"violations"`
	Lines      []string               `json:"lines"` // verdict lines (VIOLATION / KNOWN-FINDING / INCONCLUSIVE)
	Inconcl    string                 `json:"inconclusive,omitempty"`
}

var (
	fProp    = flag.String("prop", "", "property id")
	fTier    = flag.String("tier", "quick", "quick|thorough")
	fSeed    = flag.Int64("seed", 1, "seed")
	fEvid    = flag.String("evidence", "", "evidence file")
	fReplayD = flag.String("replaydir", "/verif/evidence/replay", "replay dir")
	fKnown   = flag.String("known", "/verif/known_findings.json", "known findings")
	fReplay  = flag.String("replay", "", "replay file")
	fWorker  = flag.Int("worker", -1, "internal: worker index")
	fOut     = flag.String("out", "", "internal: worker output file")
	fSteps   = flag.Int("steps", 0, "override steps per run")
	fWorkers = flag.Int("workers", 0, "override worker count")
	fVariant = flag.String("variant", "", "override genesis variants (comma separated; debugging)")
	fProfile = flag.String("profile", "", "override the workload profile with another property's (debugging)")
	fDumpWit = flag.Bool("dump-witnesses", false, "print the concrete messages of the deterministic known-finding witnesses and exit")
)

func main() {
	flag.Parse()
	if *fDumpWit {
		dumpWitnesses()
		return
	}
	if *fProp == "" {
		fmt.Println("need -prop")
		os.Exit(2)
	}
	if *fReplay != "" {
		os.Exit(doReplay())
	}
	if *fWorker >= 0 {
		out := runWorker(*fProp, *fTier, *fSeed, *fWorker)
		bz, _ := json.Marshal(out)
		if err := os.WriteFile(*fOut, bz, 0o644); err != nil {
			fmt.Println("# cannot write worker output:", err)
			os.Exit(3)
		}
		return
	}
	os.Exit(parent())
}

// plan: how many workers and which genesis variants / steps each performs.
type plan struct {
	workers  int
	variants []string
	steps    int
}

func planFor(prop, tier string) plan {
	p := plan{workers: 1, variants: []string{"default"}, steps: 2500}
	if tier == "thorough" {
		p = plan{workers: 16, variants: []string{"default", "open", "prefix"}, steps: 8000}
	}
	switch prop {
	case "C14", "C17":
		if tier == "quick" {
			p.variants = []string{"prefix"}
			p.steps = 3000
		}
	case "C08":
		if tier == "quick" {
			p.steps = 3500
		}
	case "C07", "C06", "C12":
		if tier == "quick" {
			p.variants = []string{"open"}
			p.steps = 4500
		}
	case "C01":
		if tier == "quick" {
			p.steps = 3500
		}
	case "C13":
		if tier == "quick" {
			p.steps = 5000
		}
	case "C11":
		if tier == "quick" {
			p.variants = []string{"default", "prefix"} // "prefix" carries classes whose ids are prefixes of each other (B10 / B100)
			p.steps = 2500
		}
	case "C03":
		if tier == "quick" {
			p.variants = []string{"default", "prefix"} // "prefix" carries rows that only a genesis file can create
			p.steps = 2200
		}
	case "C05":
		if tier == "quick" {
			p.variants = []string{"default", "prefix"} // "prefix" carries a basket row that only a genesis file can create
			p.steps = 2200
		}
	case "C04", "C02":
		if tier == "quick" {
			p.variants = []string{"default", "prefix"} // "prefix" carries rows that only a genesis file can create
			p.steps = 2000
		}
	}
	if s := special.Plan(prop, tier); s != nil {
		p.workers, p.variants, p.steps = s.Workers, s.Variants, s.Steps
	}
	if *fSteps > 0 {
		p.steps = *fSteps
	}
	if *fVariant != "" {
		p.variants = strings.Split(*fVariant, ",")
	}
	if *fWorkers > 0 {
		p.workers = *fWorkers
	}
	return p
}

func monitorsFor(prop string, known *mon.KnownSet) []eng.Monitor {
	gov := gen.GovAddr()
	switch prop {
	case "C01":
		return []eng.Monitor{mon.NewC01()}
	case "C02":
		return []eng.Monitor{mon.NewC02()}
	case "C03":
		return []eng.Monitor{mon.NewC03(gov)}
	case "C04":
		return []eng.Monitor{mon.NewC04()}
	case "C05":
		return []eng.Monitor{mon.NewC05(known)}
	case "C06":
		return []eng.Monitor{mon.NewC06()}
	case "C07":
		return []eng.Monitor{mon.NewC07(known)}
	case "C08":
		return []eng.Monitor{mon.NewC08(gov)}
	case "C11":
		return []eng.Monitor{mon.NewC11()}
	case "C12":
		return []eng.Monitor{mon.NewC12()}
	case "C13":
		return []eng.Monitor{mon.NewC13()}
	case "C14":
		return []eng.Monitor{mon.NewC14()}
	}
	return nil
}

func runWorker(prop, tier string, seed int64, w int) (out workerOut) {
	known := mon.LoadKnown(*fKnown)
	pl := planFor(prop, tier)
	rep := &eng.Reporter{ReplayDir: *fReplayD}
	cov := map[string]interface{}{}
	defer func() {
		if r := recover(); r != nil {
			out.Inconcl = fmt.Sprintf("worker %d crashed: %v", w, r)
		}
	}()
	if special.Handles(prop) {
		return convert(special.Run(special.Args{Prop: prop, Tier: tier, Seed: seed, Worker: w, Known: known, ReplayDir: *fReplayD, Steps: pl.steps, Variants: pl.variants}))
	}
	var engines []*eng.Engine
	if monitorsFor(prop, known) == nil {
		out.Inconcl = "no monitor for " + prop
		return
	}
	var runErrs []string
	halted := 0
	keys := map[string]bool{}
	for vi, variant := range pl.variants {
		// fresh monitors (fresh ghost state) for every chain; coverage is merged afterwards
		mons := monitorsFor(prop, known)
		s := seed*1000003 + int64(w)*7919 + int64(vi)*104729
		profProp := prop
		if *fProfile != "" {
			profProp = *fProfile
		}
		res := run.Exec(run.Config{Seed: s, Steps: pl.steps, Profile: gen.ProfileFor(profProp), Genesis: variant, Monitors: mons, Rep: rep,
			Raw: prop == "C03", Bootstrap: true, Whale: prop == "C05" || prop == "C07" || prop == "C01" || prop == "C11" || prop == "C03" || prop == "C06" || prop == "C12", ExponentTail: prop == "C01" || prop == "C02" || prop == "C03" || prop == "C04", SeedTag: fmt.Sprintf("s%d-w%d-%s", seed, w, variant)})
		if res.Err != nil {
			runErrs = append(runErrs, res.Err.Error())
		}
		engines = append(engines, res.Engine)
		ci := map[string]interface{}{}
		for _, m := range mons {
			m.Finish(res.Engine, ci)
		}
		// A BeginBlock panic halts that chain (C12 reports it; for every other property it only ends the
		// history). So that a chain-halting defect does not blind this property's own monitors, the rest of
		// the step budget is spent on fresh chains (fresh monitors, derived seeds): many short histories.
		// The verdict stays INCONCLUSIVE unless one of them reports a violation.
		for restart := 1; res.Err != nil && strings.Contains(res.Err.Error(), "BeginBlock panicked") && prop != "C12" && restart <= 6 && len(rep.Violations) == 0; restart++ {
			left := pl.steps - res.Engine.Step
			if left < 200 {
				left = 200
			}
			halted++
			mons2 := monitorsFor(prop, known)
			res = run.Exec(run.Config{Seed: s + int64(restart)*15485863, Steps: left, Profile: gen.ProfileFor(profProp), Genesis: variant, Monitors: mons2, Rep: rep,
				Raw: prop == "C03", Bootstrap: true, SeedTag: fmt.Sprintf("s%d-w%d-%s-r%d", seed, w, variant, restart)})
			engines = append(engines, res.Engine)
			ci2 := map[string]interface{}{}
			for _, m := range mons2 {
				m.Finish(res.Engine, ci2)
			}
			if ks, ok := ci2["_keys"].([]string); ok {
				for _, k := range ks {
					keys[k] = true
				}
			}
		}
		if ks, ok := ci["_keys"].([]string); ok {
			for _, k := range ks {
				keys[k] = true
			}
		}
		delete(ci, "_keys")
		var generic map[string]interface{}
		if bz, err := json.Marshal(ci); err == nil && json.Unmarshal(bz, &generic) == nil {
			mergeInto(cov, generic)
		}
	}
	{
		var ks []string
		for k := range keys {
			ks = append(ks, k)
		}
		sort.Strings(ks)
		cov["_keys"] = ks
		cov["distinct_nontrivial"] = len(ks)
	}
	if prop == "C14" && len(engines) > 0 && engines[0] != nil {
		// pure sub-monitor: formatters / validators / parsers on generated and arbitrary strings
		n := 20000
		if tier == "thorough" {
			n = 300000
		}
		pr := mon.RunC14Pure(seed*31+int64(w), n)
		for _, v := range pr.Violations {
			parts := strings.SplitN(v, ": ", 2)
			engines[0].Violate("C14", "pure/"+parts[0], parts[len(parts)-1])
		}
		cov["pure_string_evaluations"] = pr.Evaluations
		cov["pure_strings_accepted_by_a_validator"] = pr.Accepted
		cov["pure_ids_formatted"] = pr.Formatted
		cov["pure_cells"] = pr.Cells
		cov["pure_samples"] = pr.Samples
	}
	stats := map[string]interface{}{}
	steps, ok, fail, blocks := 0, 0, 0, 0
	resp, respOK := 0, 0
	for _, e := range engines {
		resp += e.Respelled
		respOK += e.RespelledOK
		steps += e.Step
		ok += e.TxOK
		fail += e.TxFail
		blocks += e.Blocks
		for k, v := range e.StatsJSON() {
			mv := v.(map[string]int)
			if o, has := stats[k]; has {
				om := o.(map[string]int)
				om["accepted"] += mv["accepted"]
				om["rejected"] += mv["rejected"]
			} else {
				stats[k] = mv
			}
		}
	}
	cov["engine_steps"] = steps
	cov["transactions_accepted"] = ok
	cov["transactions_rejected"] = fail
	cov["blocks"] = blocks
	cov["transactions_with_upper_case_address_spelling"] = resp
	cov["transactions_with_upper_case_address_spelling_accepted"] = respOK
	cov["by_message_type"] = stats
	cov["genesis_variants"] = pl.variants
	if len(runErrs) > 0 {
		cov["run_errors"] = runErrs
	}
	if halted > 0 {
		cov["chains_restarted_after_begin_block_panic"] = halted
	}
	out.Coverage = cov
	out.Violations = len(rep.Violations)
	for _, v := range rep.Violations {
		if v.Replay != "" {
			out.Lines = append(out.Lines, fmt.Sprintf("VIOLATION property=%s replay=%s", v.Prop, v.Replay))
		}
	}
	out.Lines = append(out.Lines, rep.Known...)
	// a run aborted for a reason no monitor reported is inconclusive
	if len(runErrs) > 0 && len(rep.Violations) == 0 {
		out.Inconcl = "run aborted: " + strings.Join(runErrs, "; ")
	}
	return
}

func convert(r special.Result) workerOut {
	return workerOut{Coverage: r.Coverage, Violations: r.Violations, Lines: r.Lines, Inconcl: r.Inconclusive}
}

func parent() int {
	start := time.Now()
	prop, tier := *fProp, *fTier
	pl := planFor(prop, tier)
	tmp, err := os.MkdirTemp("", "vrun-"+prop+"-")
	if err != nil {
		fmt.Printf("INCONCLUSIVE property=%s cannot create temp dir: %v\n", prop, err)
		return 2
	}
	defer os.RemoveAll(tmp)
	self, _ := os.Executable()
	outs := make([]workerOut, pl.workers)
	var wg sync.WaitGroup
	sem := make(chan struct{}, 16)
	for w := 0; w < pl.workers; w++ {
		wg.Add(1)
		go func(w int) {
			defer wg.Done()
			sem <- struct{}{}
			defer func() { <-sem }()
			of := filepath.Join(tmp, fmt.Sprintf("w%d.json", w))
			lf := filepath.Join(tmp, fmt.Sprintf("w%d.log", w))
			// generous wall-clock watchdog: its firing is INCONCLUSIVE, never a violation
			to := "3600"
			if tier == "quick" {
				to = "900"
			}
			args := []string{"-s", "QUIT", to, self, "-prop", prop, "-tier", tier, "-seed", fmt.Sprint(*fSeed), "-worker", fmt.Sprint(w), "-out", of, "-replaydir", *fReplayD, "-known", *fKnown}
			if *fSteps > 0 {
				args = append(args, "-steps", fmt.Sprint(*fSteps))
			}
			if *fVariant != "" {
				args = append(args, "-variant", *fVariant)
			}
			if *fProfile != "" {
				args = append(args, "-profile", *fProfile)
			}
			cmd := exec.Command("timeout", args...)
			lfh, _ := os.Create(lf)
			cmd.Stdout, cmd.Stderr = lfh, lfh
			cmd.Env = append(os.Environ(), "TZ=Pacific/Kiritimati")
			err := cmd.Run()
			lfh.Close()
			bz, rerr := os.ReadFile(of)
			if rerr != nil || json.Unmarshal(bz, &outs[w]) != nil {
				logb, _ := os.ReadFile(lf)
				tail := string(logb)
				if len(tail) > 1500 {
					tail = tail[len(tail)-1500:]
				}
				outs[w].Inconcl = fmt.Sprintf("worker %d produced no result (%v): %s", w, err, tail)
			}
			// relay free-form progress of the worker (violation descriptions)
			if logb, e := os.ReadFile(lf); e == nil {
				for _, l := range strings.Split(string(logb), "\n") {
					if strings.HasPrefix(l, "# violation") {
						fmt.Println(l)
					}
				}
			}
		}(w)
	}
	wg.Wait()

	merged := map[string]interface{}{}
	keys := map[string]bool{}
	hasKeys := false
	viol := 0
	var lines []string
	var inconcl []string
	seenLine := map[string]bool{}
	for _, o := range outs {
		if o.Inconcl != "" {
			inconcl = append(inconcl, o.Inconcl)
		}
		viol += o.Violations
		for _, l := range o.Lines {
			if !seenLine[l] {
				seenLine[l] = true
				lines = append(lines, l)
			}
		}
		if ks, ok := o.Coverage["_keys"].([]interface{}); ok {
			hasKeys = true
			for _, k := range ks {
				keys[fmt.Sprint(k)] = true
			}
		}
		delete(o.Coverage, "_keys")
		mergeInto(merged, o.Coverage)
	}
	if hasKeys {
		merged["distinct_nontrivial"] = len(keys)
	}
	merged["workers"] = pl.workers
	nv := 0
	for _, l := range lines {
		if strings.HasPrefix(l, "VIOLATION") {
			nv++
			if nv > 10 {
				continue
			}
		}
		fmt.Println(l)
	}
	// coverage floor
	floor := floorCheck(prop, tier, merged)
	if floor != "" {
		inconcl = append(inconcl, floor)
	}
	level := "exploration"
	if prop == "C10" {
		level = "fault_enumeration"
	}
	ev := map[string]interface{}{
		"property_id": prop, "tier": tier, "seed": *fSeed, "level": level, "coverage": merged,
		"assumptions": assumptions(prop), "wall_s": time.Since(start).Seconds(), "violations": viol,
	}
	if len(inconcl) > 0 {
		ev["inconclusive"] = inconcl
	}
	if *fEvid != "" {
		_ = os.MkdirAll(filepath.Dir(*fEvid), 0o755)
		bz, _ := json.MarshalIndent(ev, "", " ")
		if err := os.WriteFile(*fEvid, bz, 0o644); err != nil {
			fmt.Println("# cannot write evidence:", err)
		}
	}
	fmt.Printf("# %s %s seed=%d: evaluations=%v distinct_nontrivial=%v violations=%d wall=%.1fs\n", prop, tier, *fSeed, merged["evaluations"], merged["distinct_nontrivial"], viol, time.Since(start).Seconds())
	if viol > 0 {
		return 1
	}
	if len(inconcl) > 0 {
		for _, i := range inconcl {
			fmt.Printf("INCONCLUSIVE property=%s %s\n", prop, strings.ReplaceAll(trunc(i, 600), "\n", " | "))
		}
		return 2
	}
	return 0
}

func trunc(s string, n int) string {
	if len(s) > n {
		return s[:n]
	}
	return s
}

func assumptions(prop string) []string {
	a := []string{
		"harness BaseApp wiring (auth, bank, ecocredit, data modules; SetUpContext ante only) stands for app/app.go; signatures are not verified: the signer of a message is the address in its signer field",
		"credit type precision 6 only (the only value validators accept); <=8 user accounts; state bounds of DESIGN.md §1.3",
		"oracles decide with math/big on snapshots read through harness-owned ORM handles; the observed tables are the ones of /repo's current working tree",
	}
	return append(a, special.Assumptions(prop)...)
}

// mergeInto sums numbers, merges maps recursively, concatenates arrays (capped), keeps first strings.
func mergeInto(dst, src map[string]interface{}) {
	for k, v := range src {
		o, has := dst[k]
		if !has {
			dst[k] = v
			continue
		}
		switch x := v.(type) {
		case float64:
			if isNum(o) {
				y := num(dst, k)
				if strings.HasPrefix(k, "max_") {
					if x > y {
						dst[k] = x
					}
				} else {
					dst[k] = x + y
				}
			}
		case map[string]interface{}:
			if y, ok := o.(map[string]interface{}); ok {
				mergeInto(y, x)
			}
		case []interface{}:
			if y, ok := o.([]interface{}); ok {
				if k == "genesis_variants" || k == "hashers" {
					continue
				}
				if len(y) < 8 {
					y = append(y, x...)
					if len(y) > 8 {
						y = y[:8]
					}
					dst[k] = y
				}
			}
		case bool:
			if y, ok := o.(bool); ok {
				dst[k] = x && y
			}
		}
	}
	// JSON numbers that are integral are rendered as integers by normalise()
	normalise(dst)
}

func normalise(m map[string]interface{}) {
	for k, v := range m {
		switch x := v.(type) {
		case float64:
			if x == float64(int64(x)) {
				m[k] = int64(x)
			}
		case map[string]interface{}:
			normalise(x)
		}
	}
}

func isNum(v interface{}) bool {
	switch v.(type) {
	case float64, int64, int:
		return true
	}
	return false
}

func num(m map[string]interface{}, k string) float64 {
	switch x := m[k].(type) {
	case float64:
		return x
	case int64:
		return float64(x)
	case int:
		return float64(x)
	}
	return 0
}

// floorCheck: a run that observed too little is INCONCLUSIVE, never "held".
func floorCheck(prop, tier string, c map[string]interface{}) string {
	if f := special.Floor(prop, tier, c); f != "" {
		return f
	}
	if special.Handles(prop) {
		if num(c, "evaluations") < 1 || num(c, "distinct_nontrivial") < 2 {
			return "coverage floor: evaluations or distinct_nontrivial too small"
		}
		return ""
	}
	need := map[string]map[string]float64{
		"C01": {"evaluations": 1000, "distinct_nontrivial": 50},
		"C02": {"evaluations": 1000, "distinct_nontrivial": 2, "issuing_messages_accounted": 30},
		"C03": {"evaluations": 1000, "distinct_nontrivial": 100, "fills_of_third_party_orders": 10, "failed_txs_with_identical_raw_kv": 100},
		"C04": {"evaluations": 1000, "distinct_nontrivial": 20},
		"C05": {"evaluations": 1000, "distinct_nontrivial": 20, "puts_checked": 30, "takes_checked": 20},
		"C06": {"evaluations": 1000, "distinct_nontrivial": 2, "allowed_denom_gates_checked": 50},
		"C07": {"evaluations": 60, "distinct_nontrivial": 10},
		"C08": {"evaluations": 300, "distinct_nontrivial": 30},
		"C11": {"evaluations": 100, "distinct_nontrivial": 5, "completeness_obligations_checked": 20, "takes_checked": 20},
		"C12": {"evaluations": 200, "distinct_nontrivial": 2, "orders_pruned": 10},
		"C13": {"evaluations": 50, "distinct_nontrivial": 10, "bridges_accepted": 3, "bridge_receives_accepted": 5},
		"C14": {"evaluations": 1000, "distinct_nontrivial": 30, "creations_checked_against_ghost_counters": 30},
	}
	var miss []string
	for k, v := range need[prop] {
		if num(c, k) < v {
			miss = append(miss, fmt.Sprintf("%s=%v < %v", k, num(c, k), v))
		}
	}
	sort.Strings(miss)
	if len(miss) > 0 {
		return "coverage floor not reached: " + strings.Join(miss, ", ")
	}
	return ""
}

func doReplay() int {
	bz, err := os.ReadFile(*fReplay)
	if err != nil {
		fmt.Printf("INCONCLUSIVE property=%s cannot read replay file: %v\n", *fProp, err)
		return 2
	}
	var f struct {
		Kind    string     `json:"kind"`
		Trace   *eng.Trace `json:"trace"`
		Special json.RawMessage
	}
	if err := json.Unmarshal(bz, &f); err != nil {
		fmt.Printf("INCONCLUSIVE property=%s bad replay file: %v\n", *fProp, err)
		return 2
	}
	known := mon.LoadKnown(*fKnown)
	if f.Kind != "chain-trace" || f.Trace == nil || special.HasReplay(*fProp) {
		return special.Replay(*fProp, bz, known, *fReplayD)
	}
	rep := &eng.Reporter{ReplayDir: *fReplayD}
	mons := monitorsFor(*fProp, known)
	if mons == nil {
		mons = special.ReplayMonitors(*fProp, known)
	}
	app := chain.NewApp(chain.Options{Hasher: special.HasherByName(f.Trace.Hasher)})
	e := eng.New(app, rep, *fProp == "C03" || *fProp == "C10")
	e.Monitors = mons
	e.SeedTag = "replay"
	e.HasherID = f.Trace.Hasher
	func() {
		defer func() {
			if r := recover(); r != nil {
				fmt.Println("# replay aborted:", r)
			}
		}()
		if err := e.Replay(f.Trace); err != nil {
			fmt.Println("# replay error:", err)
		}
	}()
	fmt.Printf("# replayed %d steps, %d violations\n", e.Step, len(rep.Violations))
	if len(rep.Violations) > 0 {
		return 1
	}
	return 0
}

// dumpWitnesses prints the concrete messages of the bootstrap steps that are the deterministic
// witnesses of the known findings (F-C09a: bootstrap/batch-equal-dates, F-C09b: the public resolver).
func dumpWitnesses() {
	rep := &eng.Reporter{ReplayDir: os.TempDir()}
	app := chain.NewApp(chain.Options{})
	e := eng.New(app, rep, false)
	rec := &witnessRec{}
	e.Monitors = []eng.Monitor{rec}
	if err := e.Init(gen.Genesis(app, "default"), gen.GenesisTime); err != nil {
		fmt.Println(err)
		return
	}
	e.NextBlock(gen.GenesisTime.Add(5 * time.Second))
	g := gen.New(1, gen.ProfileFor("C09"))
	g.Observe(e.Cur, e.App.Header.Time)
	g.Bootstrap(e, func() { g.Observe(e.Cur, e.App.Header.Time) })
	bz, _ := json.MarshalIndent(rec.out, "", " ")
	fmt.Println(string(bz))
}

type witnessRec struct {
	mon.Base
	out []interface{}
}

func (w *witnessRec) AfterTx(e *eng.Engine, t *eng.TxRec) {
	if strings.Contains(t.Tag, "equal-dates") || strings.Contains(t.Tag, "resolver") {
		w.out = append(w.out, map[string]interface{}{"tag": t.Tag, "accepted": t.OK, "msg": eng.MsgJSON(e.App.Cdc, t.Msgs[0])})
	}
}
