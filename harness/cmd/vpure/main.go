// Command vpure is the checker binary for the pure-function properties C19 (decimal arithmetic) and C15 (IRI <->
// content hash, pure part). Command line, stdout lines, evidence and known-findings handling follow
// /verif/CONVENTIONS.md.
//
//	vpure -prop C19|C15 -tier quick|thorough -seed N -evidence FILE -replaydir DIR -known FILE [-fragment FILE]
//	vpure -prop C19|C15 -replay FILE [-known FILE]
package main

import (
	"encoding/json"
	"flag"
	"fmt"
	"os"
	"path/filepath"
	"time"

	"verifharness/pure/decmon"
	"verifharness/pure/irimon"
	"verifharness/pure/known"
)

type violation struct {
	Clause  string
	Message string
	Case    any
}

type outcome struct {
	Property       string
	Evaluations    int64
	Coverage       map[string]any
	Violations     []violation
	ViolationCount int64
	KnownLines     []string
	KnownHits      int64
	Inconclusive   string
	Assumptions    []string
}

type replayFile struct {
	Property       string          `json:"property"`
	Clause         string          `json:"clause,omitempty"`
	MonitorMessage string          `json:"monitor_message"`
	Case           json.RawMessage `json:"case"`
}

func fromDec(r decmon.Result) outcome {
	o := outcome{Property: r.Property, Evaluations: r.Evaluations, Coverage: r.Coverage, ViolationCount: r.ViolationCount,
		KnownLines: r.KnownLines, KnownHits: r.KnownHits, Inconclusive: r.Inconclusive, Assumptions: r.Assumptions}
	for _, v := range r.Violations {
		o.Violations = append(o.Violations, violation{v.Clause, v.Message, v.Case})
	}
	return o
}

func fromIRI(r irimon.Result) outcome {
	o := outcome{Property: r.Property, Evaluations: r.Evaluations, Coverage: r.Coverage, ViolationCount: r.ViolationCount,
		KnownLines: r.KnownLines, KnownHits: r.KnownHits, Inconclusive: r.Inconclusive, Assumptions: r.Assumptions}
	for _, v := range r.Violations {
		o.Violations = append(o.Violations, violation{v.Clause, v.Message, v.Case})
	}
	return o
}

func fatal(prop, format string, a ...any) {
	// the checker could not do its job: never "held", never "violated"
	fmt.Printf("INCONCLUSIVE property=%s %s\n", prop, fmt.Sprintf(format, a...))
	os.Exit(2)
}

func writeJSON(path string, v any) error {
	bz, err := json.MarshalIndent(v, "", " ")
	if err != nil {
		return err
	}
	if dir := filepath.Dir(path); dir != "" {
		if err := os.MkdirAll(dir, 0o755); err != nil {
			return err
		}
	}
	return os.WriteFile(path, append(bz, '\n'), 0o644)
}

func main() {
	prop := flag.String("prop", "", "property id: C19 or C15")
	tier := flag.String("tier", "quick", "quick|thorough")
	seed := flag.Int64("seed", 1, "seed of every random choice")
	evidence := flag.String("evidence", "", "evidence file to write")
	replayDir := flag.String("replaydir", "", "directory for replay files")
	knownPath := flag.String("known", "", "known_findings.json (absent file = no known findings)")
	replay := flag.String("replay", "", "re-execute one replay file")
	fragment := flag.String("fragment", "", "write only {coverage, violations} here instead of a full evidence file")
	workers := flag.Int("workers", 0, "override the tier's worker count (debugging)")
	count := flag.Int64("count", 0, "override the tier's per-worker case count (debugging)")
	flag.Parse()

	if *prop != "C19" && *prop != "C15" {
		fatal(*prop, "vpure handles -prop C19 or C15")
	}
	findings, err := known.Load(*knownPath)
	if err != nil {
		fatal(*prop, "cannot read known findings %s: %v", *knownPath, err)
	}
	start := time.Now()

	if *replay != "" {
		bz, err := os.ReadFile(*replay)
		if err != nil {
			fatal(*prop, "cannot read replay file: %v", err)
		}
		var rf replayFile
		if err := json.Unmarshal(bz, &rf); err != nil {
			fatal(*prop, "cannot decode replay file: %v", err)
		}
		if rf.Property != "" && rf.Property != *prop {
			fatal(*prop, "replay file belongs to property %s", rf.Property)
		}
		var out outcome
		if *prop == "C19" {
			var cs decmon.Case
			if err := json.Unmarshal(rf.Case, &cs); err != nil {
				fatal(*prop, "cannot decode replay case: %v", err)
			}
			out = fromDec(decmon.Replay(cs, findings))
		} else {
			var cs irimon.Case
			if err := json.Unmarshal(rf.Case, &cs); err != nil {
				fatal(*prop, "cannot decode replay case: %v", err)
			}
			out = fromIRI(irimon.Replay(cs, findings))
		}
		abs, _ := filepath.Abs(*replay)
		for _, l := range out.KnownLines {
			fmt.Println(l)
		}
		for _, v := range out.Violations {
			fmt.Printf("# %s\n", v.Message)
		}
		switch {
		case out.ViolationCount > 0:
			fmt.Printf("VIOLATION property=%s replay=%s\n", *prop, abs)
			os.Exit(1)
		case out.Inconclusive != "":
			fmt.Printf("INCONCLUSIVE property=%s %s\n", *prop, out.Inconclusive)
			os.Exit(2)
		}
		fmt.Printf("# replay of %s: no violation (known-finding hits: %d)\n", abs, out.KnownHits)
		return
	}

	if *tier != "quick" && *tier != "thorough" {
		fatal(*prop, "unknown tier %q", *tier)
	}
	fmt.Printf("# vpure property=%s tier=%s seed=%d known=%d entries\n", *prop, *tier, *seed, len(known.For(findings, *prop)))
	var out outcome
	if *prop == "C19" {
		out = fromDec(decmon.Run(decmon.Config{Seed: *seed, Tier: *tier, Known: findings, Workers: *workers, OpsPerWorker: *count}))
	} else {
		out = fromIRI(irimon.Run(irimon.Config{Seed: *seed, Tier: *tier, Known: findings, Workers: *workers, HashesPerWorker: int(*count), StringsPerWorker: int(*count / 2)}))
	}
	wall := time.Since(start).Seconds()

	for _, l := range out.KnownLines {
		fmt.Println(l)
	}
	// replay files first, then the VIOLATION lines
	dir := *replayDir
	if dir == "" {
		dir = os.TempDir()
	}
	for i, v := range out.Violations {
		caseJSON, _ := json.Marshal(v.Case)
		path := filepath.Join(dir, fmt.Sprintf("%s-%s-seed%d-%02d.json", *prop, *tier, *seed, i+1))
		abs, _ := filepath.Abs(path)
		if err := writeJSON(abs, replayFile{Property: *prop, Clause: v.Clause, MonitorMessage: v.Message, Case: caseJSON}); err != nil {
			fmt.Printf("# cannot write replay file %s: %v\n", abs, err)
		}
		fmt.Printf("# %s\n", v.Message)
		fmt.Printf("VIOLATION property=%s replay=%s\n", *prop, abs)
	}
	if out.Inconclusive != "" {
		fmt.Printf("INCONCLUSIVE property=%s %s\n", *prop, out.Inconclusive)
	}
	fmt.Printf("# evaluations=%d distinct_nontrivial=%v violations=%d known_finding_hits=%d wall_s=%.1f\n",
		out.Evaluations, out.Coverage["distinct_nontrivial"], out.ViolationCount, out.KnownHits, wall)

	if *fragment != "" {
		frag := map[string]any{"property_id": *prop, "coverage": out.Coverage, "violations": out.ViolationCount,
			"known_finding_hits": out.KnownHits, "inconclusive": out.Inconclusive, "assumptions": out.Assumptions, "wall_s": wall}
		if err := writeJSON(*fragment, frag); err != nil {
			fatal(*prop, "cannot write fragment: %v", err)
		}
	} else if *evidence != "" {
		ev := map[string]any{"property_id": *prop, "tier": *tier, "seed": *seed, "level": "exploration", "coverage": out.Coverage,
			"assumptions": out.Assumptions, "wall_s": wall, "violations": out.ViolationCount}
		if out.Coverage == nil {
			ev["coverage"] = map[string]any{}
		}
		if err := writeJSON(*evidence, ev); err != nil {
			fatal(*prop, "cannot write evidence: %v", err)
		}
	}
	switch {
	case out.ViolationCount > 0:
		os.Exit(1)
	case out.Inconclusive != "":
		os.Exit(2)
	}
}
