// vreplay executes a recorded trace in a separate OS process and prints, per block, the app hash and,
// per transaction, code / codespace / data / events / gas. It is the child of the C10 check.
//
//	vreplay -trace t.json -db <dir> -out o.txt [-restart none|every|set:3,7,9] [-kill-after H] [-kill-mid H:k] [-resume]
//	vreplay -trace t.json -replicas K -out prefix [-queries]     (shared keepers, K goroutines; built with -race)
package main

import (
	"encoding/base64"
	"encoding/hex"
	"encoding/json"
	"flag"
	"fmt"
	"os"
	"sort"
	"strconv"
	"strings"
	"sync"
	"syscall"
	"time"

	dbm "github.com/cometbft/cometbft-db"
	abci "github.com/cometbft/cometbft/abci/types"

	"verifharness/chain"
	"verifharness/eng"
	"verifharness/special"
)

var (
	fTrace    = flag.String("trace", "", "trace file")
	fDB       = flag.String("db", "", "goleveldb directory ('' = MemDB)")
	fOut      = flag.String("out", "", "output file")
	fRestart  = flag.String("restart", "none", "none|every|set:h1,h2")
	fKillAft  = flag.Int64("kill-after", 0, "SIGKILL self right after committing this height")
	fKillMid  = flag.String("kill-mid", "", "H:k SIGKILL self after delivering k txs of block H")
	fResume   = flag.Bool("resume", false, "continue from the database's latest version")
	fReplicas = flag.Int("replicas", 0, "run K replicas concurrently over shared keepers")
	fQueries  = flag.Bool("queries", false, "with -replicas: run concurrent gRPC queries against each replica")
)

func loadTrace() *eng.Trace {
	bz, err := os.ReadFile(*fTrace)
	if err != nil {
		fatal(err)
	}
	var tr eng.Trace
	if err := json.Unmarshal(bz, &tr); err != nil {
		// a replay file wraps the trace
		var w struct {
			Trace *eng.Trace `json:"trace"`
		}
		if json.Unmarshal(bz, &w) != nil || w.Trace == nil {
			fatal(err)
		}
		tr = *w.Trace
	}
	if tr.Blocks == nil {
		var w struct {
			Trace *eng.Trace `json:"trace"`
		}
		if json.Unmarshal(bz, &w) == nil && w.Trace != nil {
			tr = *w.Trace
		}
	}
	return &tr
}

func fatal(err interface{}) {
	fmt.Fprintln(os.Stderr, "vreplay:", err)
	os.Exit(3)
}

func openDB() dbm.DB {
	if *fDB == "" {
		return dbm.NewMemDB()
	}
	db, err := dbm.NewGoLevelDB("app", *fDB)
	if err != nil {
		fatal(err)
	}
	return db
}

// FormatTx is the canonical rendering of one result (log excluded: it may contain goroutine stacks).
func FormatTx(r abci.ResponseDeliverTx) string {
	ev, _ := json.Marshal(r.Events)
	return fmt.Sprintf("tx code=%d codespace=%s data=%s gas_wanted=%d gas_used=%d events=%s", r.Code, r.Codespace, hex.EncodeToString(r.Data), r.GasWanted, r.GasUsed, ev)
}

func main() {
	flag.Parse()
	tr := loadTrace()
	if *fReplicas > 0 {
		replicas(tr)
		return
	}
	single(tr)
}

func single(tr *eng.Trace) {
	db := openDB()
	h := special.HasherByName(tr.Hasher)
	app := chain.NewApp(chain.Options{DB: db, Hasher: h})
	out, err := os.OpenFile(*fOut, os.O_CREATE|os.O_WRONLY|os.O_APPEND, 0o644)
	if err != nil {
		fatal(err)
	}
	restartAt := map[int64]bool{}
	if strings.HasPrefix(*fRestart, "set:") {
		for _, s := range strings.Split(strings.TrimPrefix(*fRestart, "set:"), ",") {
			if n, err := strconv.ParseInt(s, 10, 64); err == nil {
				restartAt[n] = true
			}
		}
	}
	var killMidH int64 = -1
	killMidK := 0
	if *fKillMid != "" {
		p := strings.Split(*fKillMid, ":")
		killMidH, _ = strconv.ParseInt(p[0], 10, 64)
		killMidK, _ = strconv.Atoi(p[1])
	}
	start := int64(0)
	if *fResume {
		start = app.BA.LastBlockHeight()
	}
	gt, err := time.Parse(time.RFC3339Nano, tr.GenesisTime)
	if err != nil {
		fatal(err)
	}
	if start == 0 {
		if err := app.InitChain(tr.Genesis, gt); err != nil {
			fatal(err)
		}
	} else {
		app.Header.Height = start
		app.Header.ChainID = chain.ChainID
	}
	for i, b := range tr.Blocks {
		height := int64(i + 1)
		if height <= start {
			continue
		}
		t, err := time.Parse(time.RFC3339Nano, b.Time)
		if err != nil {
			fatal(err)
		}
		var lines []string
		_, p := app.BeginBlock(t)
		if p != nil {
			lines = append(lines, fmt.Sprintf("beginblock panic: %v", p))
			fmt.Fprintln(out, strings.Join(lines, "\n"))
			fatal(fmt.Sprintf("BeginBlock panicked at %d: %v", height, p))
		}
		for k, s := range b.Txs {
			if height == killMidH && k == killMidK {
				out.Sync()
				syscall.Kill(os.Getpid(), syscall.SIGKILL)
				time.Sleep(time.Hour)
			}
			bz, _ := base64.StdEncoding.DecodeString(s)
			lines = append(lines, FormatTx(app.Deliver(bz)))
		}
		hash := app.EndBlockCommit()
		lines = append(lines, fmt.Sprintf("block height=%d apphash=%s", height, hex.EncodeToString(hash)))
		// a block's lines are written only after its Commit
		fmt.Fprintln(out, strings.Join(lines, "\n"))
		if height == *fKillAft {
			out.Sync()
			syscall.Kill(os.Getpid(), syscall.SIGKILL)
			time.Sleep(time.Hour)
		}
		if *fRestart == "every" || restartAt[height] {
			// tear down ALL application objects and rebuild them over the same database
			app = chain.NewApp(chain.Options{DB: db, Hasher: h})
			if app.BA.LastBlockHeight() != height {
				fatal(fmt.Sprintf("after rebuild the latest version is %d, expected %d", app.BA.LastBlockHeight(), height))
			}
			app.Header.Height = height
			app.Header.ChainID = chain.ChainID
		}
	}
	out.Sync()
	out.Close()
	db.Close()
}

// replicas: one set of keeper/module objects shared by K BaseApps, each with its own MemDB; the K
// apps are constructed serially (RegisterServices is a start-up-only call), then run concurrently
// without any harness-side synchronisation.
func replicas(tr *eng.Trace) {
	K := *fReplicas
	sh := chain.NewShared(special.HasherByName(tr.Hasher))
	apps := make([]*chain.App, K)
	for i := range apps {
		apps[i] = chain.NewApp(chain.Options{Shared: sh})
	}
	gt, err := time.Parse(time.RFC3339Nano, tr.GenesisTime)
	if err != nil {
		fatal(err)
	}
	type stamp struct {
		step int
		ns   int64
	}
	logs := make([][]stamp, K)
	var wg sync.WaitGroup
	t0 := time.Now()
	stopQ := make(chan struct{})
	var qwg sync.WaitGroup
	qcount := make([]int, K)
	runOne := func(i int) {
		app := apps[i]
		out, err := os.Create(fmt.Sprintf("%s.%d", *fOut, i))
		if err != nil {
			fatal(err)
		}
		defer out.Close()
		if err := app.InitChain(tr.Genesis, gt); err != nil {
			fmt.Fprintln(out, "initchain error:", err)
			return
		}
		step := 0
		for bi, b := range tr.Blocks {
			t, _ := time.Parse(time.RFC3339Nano, b.Time)
			if _, p := app.BeginBlock(t); p != nil {
				fmt.Fprintf(out, "beginblock panic: %v\n", p)
				return
			}
			for _, s := range b.Txs {
				bz, _ := base64.StdEncoding.DecodeString(s)
				fmt.Fprintln(out, FormatTx(app.Deliver(bz)))
				step++
				logs[i] = append(logs[i], stamp{step, time.Since(t0).Nanoseconds()})
			}
			hash := app.EndBlockCommit()
			fmt.Fprintf(out, "block height=%d apphash=%s\n", bi+1, hex.EncodeToString(hash))
		}
	}
	// replica 0 executes the trace first and then stays quiescent: it is the target of the
	// concurrent queries (the SDK's own store/IAVL is not asked to serve a query during its Commit;
	// what is shared between the query goroutines and the executing replicas is regen-ledger's
	// keepers, modules, codecs and ORM objects)
	if *fQueries {
		runOne(0)
	}
	for i := 0; i < K; i++ {
		if *fQueries && i == 0 {
			continue
		}
		wg.Add(1)
		go func(i int) {
			defer wg.Done()
			runOne(i)
		}(i)
	}
	for i := 0; i < K; i++ {
		if *fQueries && i < 3 {
			qwg.Add(1)
			go func(i int) {
				defer qwg.Done()
				app := apps[0]
				paths := []string{"/regen.ecocredit.v1.Query/Classes", "/regen.ecocredit.v1.Query/Batches", "/regen.ecocredit.v1.Query/Projects",
					"/regen.ecocredit.marketplace.v1.Query/SellOrders", "/regen.ecocredit.basket.v1.Query/Baskets", "/regen.ecocredit.v1.Query/CreditTypes",
					"/regen.ecocredit.v1.Query/AllowedBridgeChains", "/regen.ecocredit.marketplace.v1.Query/AllowedDenoms", "/cosmos.bank.v1beta1.Query/TotalSupply"}
				n := 0
				for {
					select {
					case <-stopQ:
						qcount[i] = n
						return
					default:
					}
					// the node's query path: committed state at the latest height, concurrent with block execution
					func() {
						defer func() { recover() }()
						app.BA.Query(abci.RequestQuery{Path: paths[n%len(paths)]})
					}()
					n++
				}
			}(i)
		}
	}
	wg.Wait()
	close(stopQ)
	qwg.Wait()
	// distinct relative orders of steps witnessed (evidence only)
	type ev struct {
		rep, step int
		ns        int64
	}
	var all []ev
	for i, l := range logs {
		for _, s := range l {
			all = append(all, ev{i, s.step, s.ns})
		}
	}
	sort.Slice(all, func(a, b int) bool { return all[a].ns < all[b].ns })
	switches := 0
	orders := map[string]bool{}
	for i := 1; i < len(all); i++ {
		if all[i].rep != all[i-1].rep {
			switches++
		}
	}
	// per step: the order in which the replicas executed it
	byStep := map[int][]ev{}
	for _, e := range all {
		byStep[e.step] = append(byStep[e.step], e)
	}
	for _, l := range byStep {
		var s []string
		for _, e := range l {
			s = append(s, strconv.Itoa(e.rep))
		}
		orders[strings.Join(s, ">")] = true
	}
	q := 0
	for _, n := range qcount {
		q += n
	}
	sum := map[string]interface{}{"replicas": K, "steps_per_replica": len(logs[0]), "replica_switches_in_merged_timeline": switches, "distinct_replica_orders_per_step": len(orders), "concurrent_queries": q}
	bz, _ := json.Marshal(sum)
	_ = os.WriteFile(*fOut+".summary", bz, 0o644)
}
