// Package run glues generator, engine and monitors into one exploration run.
package run

import (
	"encoding/json"
	"fmt"
	"math/rand"
	"os"
	"runtime/debug"
	"sort"
	"time"

	"verifharness/chain"
	"verifharness/eng"
	"verifharness/gen"
	"verifharness/obs"
)

type Config struct {
	Seed         int64
	Steps        int
	Profile      gen.Profile
	Genesis      string // variant name, or "" when GenesisDoc is given
	GenesisDoc   map[string]json.RawMessage
	Monitors     []eng.Monitor
	Rep          *eng.Reporter
	Raw          bool
	Bootstrap    bool
	ExponentTail bool       // append the deterministic exponent-limit segment (amounts like 1e100000) at the end of the run
	Whale        bool       // add the deterministic extreme-magnitude segment after the bootstrap
	App          *chain.App // optional pre-built app
	SeedTag      string
	// Quiesce is called every QuiesceEvery transactions with the chain committed (between blocks).
	QuiesceEvery int
	Quiesce      func(e *eng.Engine, g *gen.Gen)
	OnEngine     func(e *eng.Engine)
	GenesisTime  time.Time // zero = gen.GenesisTime
	// Intercept is called before a generated transaction is executed (C10 gas-fault enumeration).
	Intercept func(e *eng.Engine, tx *eng.Tx)
}

type Result struct {
	Engine *eng.Engine
	Gen    *gen.Gen
	Err    error
}

// Exec performs one run. A BeginBlock panic ends the run (monitors have been told).
func Exec(c Config) (res Result) {
	app := c.App
	if app == nil {
		app = chain.NewApp(chain.Options{})
	}
	e := eng.New(app, c.Rep, c.Raw)
	e.Monitors = c.Monitors
	e.SeedTag = c.SeedTag
	if c.OnEngine != nil {
		c.OnEngine(e)
	}
	g := gen.New(c.Seed, c.Profile)
	res.Engine, res.Gen = e, g
	defer func() {
		if r := recover(); r != nil {
			res.Err = fmt.Errorf("run aborted: %v\n%s", r, debug.Stack())
		}
	}()
	doc := c.GenesisDoc
	if doc == nil {
		doc = gen.Genesis(app, c.Genesis)
	}
	gt := c.GenesisTime
	if gt.IsZero() {
		gt = gen.GenesisTime
	}
	if err := e.Init(doc, gt); err != nil {
		res.Err = err
		return
	}
	bt := &BlockTimes{R: rand.New(rand.NewSource(c.Seed ^ 0x5eed)), Now: gt, AimWindows: c.Profile.Boundary >= 0.3}
	now := bt.Next(e.Cur)
	e.NextBlock(now)
	refresh := func() { g.Observe(e.Cur, e.App.Header.Time) }
	refresh()
	if c.Bootstrap {
		g.Bootstrap(e, refresh)
		if c.Whale {
			g.BootstrapWhale(e, refresh)
		}
	}
	every := c.Profile.BlockEvery
	if every <= 0 {
		every = 4
	}
	sinceQ := 0
	for i := 0; i < c.Steps; i++ {
		if g.R.Intn(every) == 0 {
			if c.Quiesce != nil && c.QuiesceEvery > 0 && sinceQ >= c.QuiesceEvery {
				sinceQ = 0
				e.Commit()
				c.Quiesce(e, g)
				e.Resume(bt.Next(e.Cur))
			} else {
				e.NextBlock(bt.Next(e.Cur))
			}
			refresh()
			if bt.Aimed {
				bt.Aimed = false
				g.QueueBoundaryPuts(2)
			}
			continue
		}
		tx := g.Next()
		if tx == nil {
			continue
		}
		if c.Intercept != nil {
			c.Intercept(e, tx)
		}
		e.Exec(*tx)
		sinceQ++
		refresh()
	}
	if c.ExponentTail {
		g.ExponentTail(e, refresh)
	}
	// final: one more block so that the last transactions see a BeginBlock, then quiesce
	e.NextBlock(bt.Next(e.Cur))
	if c.Quiesce != nil {
		e.Commit()
		c.Quiesce(e, g)
	}
	return
}

// BlockTimes generates forward-moving block times, tilted towards order expirations.
type BlockTimes struct {
	R          *rand.Rand
	Now        time.Time
	AimWindows bool
	Aimed      bool // the last Next() placed the block on a window boundary
}

func (b *BlockTimes) Next(s *obs.Snapshot) time.Time {
	if b.AimWindows && b.R.Intn(2) == 0 {
		if t, ok := b.aimWindow(s); ok {
			b.Now = t
			return b.Now
		}
	}
	var d time.Duration
	switch x := b.R.Intn(100); {
	case x < 55:
		d = time.Duration(1+b.R.Intn(10)) * time.Second
	case x < 70:
		d = time.Duration(1+b.R.Intn(120)) * time.Minute
	case x < 75:
		d = time.Duration(1+b.R.Intn(40)) * 24 * time.Hour
	case x < 77:
		d = 400 * 24 * time.Hour
	case x < 80:
		d = time.Duration(1 + b.R.Intn(1000)) // nanoseconds
	default:
		// aim at an open order's expiration: exactly, or one nanosecond either side
		if s != nil {
			var exps []time.Time
			for _, o := range s.V().OrderList {
				if o.Expiration != nil {
					t := o.Expiration.AsTime()
					if t.After(b.Now.Add(2 * time.Nanosecond)) {
						exps = append(exps, t)
					}
				}
			}
			if len(exps) > 0 {
				sort.Slice(exps, func(i, j int) bool { return exps[i].Before(exps[j]) })
				// prefer the earliest ones so that time does not run away
				t := exps[b.R.Intn(1+len(exps)/4)]
				t = t.Add(time.Duration(b.R.Intn(3)-1) * time.Nanosecond)
				if t.After(b.Now) {
					b.Now = t.UTC()
					return b.Now
				}
			}
		}
		d = time.Duration(1+b.R.Intn(10)) * time.Second
	}
	b.Now = b.Now.Add(d).UTC()
	return b.Now
}

// aimWindow: the moment a basket's start-date window reaches a batch's start date, i.e. a block time
// with now − window ∈ (start − 1s, start]; only moments within the next 48 hours are considered.
func (b *BlockTimes) aimWindow(s *obs.Snapshot) (time.Time, bool) {
	if s == nil {
		return time.Time{}, false
	}
	v := s.V()
	var cands []time.Time
	for _, bk := range v.BasketList {
		c := bk.DateCriteria
		if c == nil || c.StartDateWindow == nil || c.StartDateWindow.Seconds > 9_000_000_000 {
			continue
		}
		w := c.StartDateWindow.AsDuration()
		for _, bt := range v.BatchList {
			if bt.StartDate == nil {
				continue
			}
			t := bt.StartDate.AsTime().Add(w)
			if t.After(b.Now.Add(time.Second)) && t.Before(b.Now.Add(48*time.Hour)) {
				cands = append(cands, t)
			}
		}
	}
	if len(cands) == 0 {
		return time.Time{}, false
	}
	sort.Slice(cands, func(i, j int) bool { return cands[i].Before(cands[j]) })
	t := cands[0].Add(-[]time.Duration{0, time.Nanosecond, 500 * time.Millisecond, 999 * time.Millisecond}[b.R.Intn(4)])
	if t.After(b.Now) {
		b.Aimed = true
		if os.Getenv("VERIF_DEBUG") != "" {
			fmt.Printf("# DEBUG aimWindow: now %s -> %s (%d candidates)\n", b.Now, t, len(cands))
		}
		return t.UTC(), true
	}
	return time.Time{}, false
}
