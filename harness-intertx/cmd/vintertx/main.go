// vintertx decides property C20 (intertx forwards exactly the owner's message over the owner's own ICA
// port) by runtime monitoring: real BaseApp + real intertx MsgServer, recording fakes at the keeper's two
// outward interfaces. See /verif/CONVENTIONS.md for the command line and /verif/DESIGN.md §5.
package main

import (
	"encoding/json"
	"flag"
	"fmt"
	"os"
	"path/filepath"
	"sort"
	"strings"
	"sync"
	"time"

	"verifintertx/itx"
)

const maxViolationLines = 10

func main() {
	prop := flag.String("prop", "C20", "property id")
	tier := flag.String("tier", "quick", "quick|thorough")
	seed := flag.Int64("seed", 1, "PRNG seed")
	evidence := flag.String("evidence", "", "evidence file to write")
	replayDir := flag.String("replaydir", "", "directory for replay files")
	known := flag.String("known", "", "known findings file")
	replay := flag.String("replay", "", "re-execute one replay file")
	workers := flag.Int("workers", 0, "parallel workers for the thorough tier (default 16 seeds on min(16, GOMAXPROCS) goroutines)")
	flag.Parse()

	if *prop != itx.Property {
		fmt.Printf("INCONCLUSIVE property=%s this binary only decides %s\n", *prop, itx.Property)
		os.Exit(2)
	}
	itx.SelfCheck()

	if *replay != "" {
		os.Exit(doReplay(*replay))
	}

	var sizes itx.Sizes
	var seeds []int64
	switch *tier {
	case "quick":
		sizes = itx.QuickSizes()
		seeds = []int64{*seed}
	case "thorough":
		sizes = itx.ThoroughSizes()
		for i := int64(0); i < 16; i++ {
			seeds = append(seeds, *seed*1_000_003+i*7919+1)
		}
	default:
		fmt.Printf("INCONCLUSIVE property=%s unknown tier %q\n", *prop, *tier)
		os.Exit(2)
	}
	kn, err := itx.LoadKnown(*known)
	if err != nil {
		fmt.Printf("INCONCLUSIVE property=%s cannot read known findings: %v\n", *prop, err)
		os.Exit(2)
	}
	if *replayDir == "" {
		*replayDir = filepath.Join(os.TempDir(), "vintertx-replays")
	}

	start := time.Now() // wall time is reported, never used by an oracle

	var mu sync.Mutex
	violLines := 0
	suppressNext := false
	emit := func(line string) {
		mu.Lock()
		defer mu.Unlock()
		if strings.HasPrefix(line, "VIOLATION ") {
			violLines++
			if violLines > maxViolationLines {
				suppressNext = true
				return
			}
			suppressNext = false
		} else if suppressNext {
			return
		}
		fmt.Println(line)
	}

	// known findings: re-execute every witness first
	for _, k := range kn {
		var c itx.Case
		if err := json.Unmarshal(k.Witness, &c); err != nil || len(c.Msgs) == 0 {
			emit(fmt.Sprintf("# known finding %s has no executable witness", k.ID))
			continue
		}
		o := itx.ReplayOne(itx.NewEnv(), c)
		for _, v := range o.Violations {
			if v.Clause == k.Signature.Clause {
				emit(fmt.Sprintf("KNOWN-FINDING: property=%s %s (%s)", itx.Property, k.What, k.ID))
				break
			}
		}
	}

	total := itx.NewStats()
	nw := *workers
	if nw <= 0 {
		nw = 16
	}
	if nw > len(seeds) {
		nw = len(seeds)
	}
	emit(fmt.Sprintf("# %s tier=%s seed=%d worker-seeds=%v", itx.Property, *tier, *seed, seeds))
	jobs := make(chan int64, len(seeds))
	for _, s := range seeds {
		jobs <- s
	}
	close(jobs)
	results := make([]*itx.Stats, 0, len(seeds))
	var wg sync.WaitGroup
	for i := 0; i < nw; i++ {
		wg.Add(1)
		go func() {
			defer wg.Done()
			for s := range jobs {
				env := itx.NewEnv()
				w := &itx.Worker{Seed: s, Sizes: sizes, ReplayDir: *replayDir, Known: kn, Env: env, Gen: itx.NewGen(s, env), St: itx.NewStats(), Emit: emit, MaxViol: maxViolationLines}
				w.St.Seed = s
				w.Run()
				mu.Lock()
				results = append(results, w.St)
				mu.Unlock()
				emit(fmt.Sprintf("# worker seed=%d done: cases=%d sendtx_calls=%d violations=%d", s, w.St.Cases, w.St.SendTxCalls, w.St.Violations))
			}
		}()
	}
	wg.Wait()
	sort.Slice(results, func(i, j int) bool { return results[i].Seed < results[j].Seed })
	for _, r := range results {
		total.Merge(r)
	}
	wall := time.Since(start).Seconds()

	floor := total.FloorMissed(sizes.FloorTypes)
	if *evidence != "" {
		if err := writeEvidence(*evidence, *tier, *seed, total, wall, sizes, floor); err != nil {
			fmt.Printf("# cannot write evidence: %v\n", err)
		}
	}
	fmt.Printf("# cases=%d blocks=%d sendtx_calls=%d packets_decoded=%d cells=%d types=%d owners=%d cross_pairs=%d register_cases=%d multi_cases=%d undecodable=%d (unexpected %d) wall=%.1fs\n",
		total.Cases, total.Blocks, total.SendTxCalls, total.PacketsDecoded, len(total.Cells), len(total.PerType), len(total.Owners), total.CrossPairs, total.RegisterCases, total.MultiCases, total.Undecodable, total.UnexpUndecodable, wall)

	switch {
	case total.Violations > 0:
		fmt.Printf("# %d violating case(s)\n", total.Violations)
		os.Exit(1)
	case floor != "":
		fmt.Printf("INCONCLUSIVE property=%s coverage floor missed: %s\n", itx.Property, floor)
		os.Exit(2)
	}
	os.Exit(0)
}

func doReplay(path string) int {
	bz, err := os.ReadFile(path)
	if err != nil {
		fmt.Printf("INCONCLUSIVE property=%s cannot read replay file: %v\n", itx.Property, err)
		return 2
	}
	var rf itx.ReplayFile
	if err := json.Unmarshal(bz, &rf); err != nil || len(rf.Case.Msgs) == 0 {
		fmt.Printf("INCONCLUSIVE property=%s replay file has no executable case (%v)\n", itx.Property, err)
		return 2
	}
	abs, _ := filepath.Abs(path)
	o := itx.ReplayOne(itx.NewEnv(), rf.Case)
	fmt.Printf("# replay case %s: code=%d codespace=%s decodes=%v calls=%d\n", rf.Case.ID, o.Code, o.Codespace, o.DecodeOK, len(o.Calls))
	for _, c := range itx.CallsJSON(o.Calls) {
		j, _ := json.Marshal(c)
		s := string(j)
		if len(s) > 600 {
			s = s[:600] + "…"
		}
		fmt.Printf("# call %s\n", s)
	}
	if len(o.Violations) > 0 {
		fmt.Printf("VIOLATION property=%s replay=%s\n", itx.Property, abs)
		for _, v := range o.Violations {
			fmt.Printf("# %s\n", v.String())
		}
		return 1
	}
	fmt.Printf("# property held on the replayed case\n")
	return 0
}

func writeEvidence(path, tier string, seed int64, st *itx.Stats, wall float64, sizes itx.Sizes, floor string) error {
	typesPerCombo := map[string]int{}
	for k, m := range st.TypesPerCombo {
		typesPerCombo[k] = len(m)
	}
	ownerLens := map[string]int{}
	for k, v := range st.PerOwnerLen {
		ownerLens[fmt.Sprintf("%d", k)] = v
	}
	samples := make([]interface{}, 0, len(st.Samples))
	for _, s := range st.Samples {
		samples = append(samples, s)
	}
	cov := map[string]interface{}{
		"evaluations":         st.Cases,
		"distinct_nontrivial": len(st.Cells),
		"rule": "A case is one encoded transaction (1 or 2 intertx messages) delivered through DeliverTx of a real BaseApp; inputs come from a seeded PRNG " +
			"(owner of 1..255 raw bytes, connection id, inner sdk.Msg of one of the registered types with random fields, block time, scripted channel/capability availability). " +
			"distinct_nontrivial = number of distinct (inner message type URL, availability combination, single/multi-message tx) cells for which the oracle was FULLY evaluated on a MsgSubmitTx " +
			"(all SendTx argument clauses incl. packet round trip when channel+capability exist; the zero-send + failure clause otherwise). " +
			"Floor: each of the 4 availability combinations fully evaluated for >= 10 distinct inner types in single-message transactions.",
		"samples":                          samples,
		"cases":                            st.Cases,
		"blocks":                           st.Blocks,
		"blocks_with_several_owners":       st.BlocksMultiOwner,
		"sendtx_calls_observed":            st.SendTxCalls,
		"register_calls_observed":          st.RegisterCalls,
		"packets_decoded":                  st.PacketsDecoded,
		"timeouts_checked":                 st.TimeoutsChecked,
		"timeout_not_expressible_in_u64":   st.TimeoutUnrepr,
		"sendtx_with_nonempty_memo":        st.NonEmptyMemo,
		"tx_code_0":                        st.TxOK,
		"tx_failed":                        st.TxFailed,
		"tx_undecodable":                   st.Undecodable,
		"tx_undecodable_unexpected":        st.UnexpUndecodable,
		"invalid_messages_rejected":        st.InvalidRejected,
		"empty_connection_rejected":        st.EmptyConnRej,
		"uppercase_owner_messages_run":     st.UppercaseOwner,
		"register_account_cases":           st.RegisterCases,
		"multi_message_tx_cases":           st.MultiCases,
		"messages_not_executed_after_fail": st.MsgsNotExecuted,
		"send_error_scenario_evaluated":    st.SendErrCases,
		"distinct_owners":                  len(st.Owners),
		"cross_owner_pairs_checked":        st.CrossPairs,
		"cross_owner_pairs_same_tx":        st.CrossSameTx,
		"cross_owner_pairs_same_block":     st.CrossSameBlock,
		"inner_types":                      len(st.PerType),
		"per_inner_type_fully_evaluated":   st.PerType,
		"per_availability_fully_evaluated": st.PerCombo,
		"types_per_availability_single_tx": typesPerCombo,
		"message_classes":                  st.PerClass,
		"owner_raw_length_histogram":       ownerLens,
		"known_findings_suppressed":        st.KnownSuppressed,
		"coverage_floor_missed":            floor,
		"fillings_per_cell":                sizes.Fillings,
	}
	if len(st.ViolationMsgs) > 0 {
		n := len(st.ViolationMsgs)
		if n > 10 {
			n = 10
		}
		cov["violation_messages"] = st.ViolationMsgs[:n]
		cov["violation_replays"] = st.ViolationReplays
	}
	ev := map[string]interface{}{
		"property_id": itx.Property,
		"tier":        tier,
		"seed":        seed,
		"level":       "exploration",
		"coverage":    cov,
		"assumptions": []string{
			"signature verification is not run: the signer of a message is what GetSigners returns on the decoded transaction (DESIGN §6.1); the oracle checks it is exactly the raw owner address the generator encoded",
			"the ICA controller keeper and the scoped capability keeper are recording fakes; what ibc-go does with a SendTx call is outside the property",
			"inner messages are the sdk.Msg types of cosmos-sdk v0.47.12 / ibc-go v7.4.0 / intertx registered in the harness' interface registry; submitted inner bytes are gogoproto-canonical encodings (arbitrary byte strings are only used as a rejected/odd class)",
			"timeout clause is evaluated when block time + 60 s is expressible as uint64 nanoseconds (1969-12-31T23:59:00Z .. year 2554); other header times are delivered but only counted",
			"an empty packet memo is recorded, not demanded; an empty connection id may be rejected or processed",
			"the SDK tx decoder, BaseApp, codec and ibc-go's CosmosTx (de)serialisation are trusted",
		},
		"wall_s":     wall,
		"violations": st.Violations,
	}
	bz, err := json.MarshalIndent(ev, "", " ")
	if err != nil {
		return err
	}
	if err := os.MkdirAll(filepath.Dir(path), 0o755); err != nil {
		return err
	}
	return os.WriteFile(path, bz, 0o644)
}
