package itx

import (
	"crypto/sha256"
	"encoding/hex"
	"encoding/json"
	"fmt"
	"os"
	"path/filepath"
	"sort"
	"strings"

	icatypes "github.com/cosmos/ibc-go/v7/modules/apps/27-interchain-accounts/types"
	host "github.com/cosmos/ibc-go/v7/modules/core/24-host"
)

const Property = "C20"

// Tier sizes (PRNG-determined counts, never wall-clock budgets).
type Sizes struct {
	Fillings     int // per (availability combination × inner type)
	SendErrFill  int // per inner type, scenario "SendTx returns an error"
	Register     int
	Multi        int // two-message transactions from two owners
	Invalid      int // deliberately malformed / undecodable submissions
	FloorTypes   int // coverage floor: distinct inner types per availability combination
	MaxTxPerBlok int
}

func QuickSizes() Sizes {
	return Sizes{Fillings: 25, SendErrFill: 6, Register: 240, Multi: 400, Invalid: 360, FloorTypes: 10, MaxTxPerBlok: 4}
}
func ThoroughSizes() Sizes {
	return Sizes{Fillings: 500, SendErrFill: 60, Register: 2000, Multi: 6000, Invalid: 3000, FloorTypes: 10, MaxTxPerBlok: 4}
}

var Combos = []Scenario{
	{Channel: false, Capability: false},
	{Channel: false, Capability: true},
	{Channel: true, Capability: false},
	{Channel: true, Capability: true},
}

// KnownFinding is an entry of /verif/known_findings.json for this property.
type KnownFinding struct {
	ID        string `json:"id"`
	Property  string `json:"property"`
	Status    string `json:"status"`
	What      string `json:"what"`
	Signature struct {
		Clause       string `json:"clause"`
		InnerTypeURL string `json:"inner_type_url,omitempty"`
		OwnerClass   string `json:"owner_class,omitempty"`
	} `json:"signature"`
	Witness json.RawMessage `json:"witness"`
}

func LoadKnown(path string) ([]KnownFinding, error) {
	if path == "" {
		return nil, nil
	}
	bz, err := os.ReadFile(path)
	if os.IsNotExist(err) {
		return nil, nil
	}
	if err != nil {
		return nil, err
	}
	var f struct {
		Findings []KnownFinding `json:"findings"`
	}
	if err := json.Unmarshal(bz, &f); err != nil {
		return nil, err
	}
	var out []KnownFinding
	for _, k := range f.Findings {
		if k.Property == Property && k.Status == "known" {
			out = append(out, k)
		}
	}
	return out, nil
}

// matches: same oracle clause and the cause predicate evaluated on the failing case.
func (k KnownFinding) matches(v Violation, c Case) bool {
	if k.Signature.Clause == "" || k.Signature.Clause != v.Clause {
		return false
	}
	if v.MsgIdx < 0 || v.MsgIdx >= len(c.Msgs) {
		return false
	}
	m := c.Msgs[v.MsgIdx]
	if k.Signature.InnerTypeURL != "" && k.Signature.InnerTypeURL != m.InnerTypeURL {
		return false
	}
	if k.Signature.OwnerClass != "" && k.Signature.OwnerClass != m.OwnerClass {
		return false
	}
	return true
}

// Stats are the measured counters of one worker; they merge by addition / union.
type Stats struct {
	Seed             int64
	Cases            int
	Blocks           int
	BlocksMultiOwner int
	SendTxCalls      int
	RegisterCalls    int
	PacketsDecoded   int
	TimeoutsChecked  int
	TimeoutUnrepr    int
	NonEmptyMemo     int
	TxOK             int
	TxFailed         int
	Undecodable      int
	UnexpUndecodable int
	InvalidRejected  int
	EmptyConnRej     int
	UppercaseOwner   int
	RegisterCases    int
	MultiCases       int
	MsgsNotExecuted  int
	SendErrCases     int
	CrossPairs       int64
	CrossSameTx      int
	CrossSameBlock   int
	Violations       int
	KnownSuppressed  int
	PerType          map[string]int            // fully evaluated submissions per inner type URL
	PerCombo         map[string]int            // … per availability label
	PerClass         map[string]int            // message evaluation classes
	PerOwnerLen      map[int]int               // raw owner length → messages
	Cells            map[string]bool           // distinct (type, availability, single/multi)
	TypesPerCombo    map[string]map[string]int // availability label (single-message tx) → type → count
	Owners           map[string]string         // lower-cased controller port → owner raw hex
	sendsBy          []sentBy
	Samples          []json.RawMessage
	sampleCount      map[string]int
	ViolationReplays []string
	ViolationMsgs    []string
}

type sentBy struct{ ownerHex, port, caseID string }

func NewStats() *Stats {
	return &Stats{PerType: map[string]int{}, PerCombo: map[string]int{}, PerClass: map[string]int{}, PerOwnerLen: map[int]int{}, Cells: map[string]bool{},
		TypesPerCombo: map[string]map[string]int{}, Owners: map[string]string{}, sampleCount: map[string]int{}}
}

func (s *Stats) Merge(o *Stats) {
	s.Cases += o.Cases
	s.Blocks += o.Blocks
	s.BlocksMultiOwner += o.BlocksMultiOwner
	s.SendTxCalls += o.SendTxCalls
	s.RegisterCalls += o.RegisterCalls
	s.PacketsDecoded += o.PacketsDecoded
	s.TimeoutsChecked += o.TimeoutsChecked
	s.TimeoutUnrepr += o.TimeoutUnrepr
	s.NonEmptyMemo += o.NonEmptyMemo
	s.TxOK += o.TxOK
	s.TxFailed += o.TxFailed
	s.Undecodable += o.Undecodable
	s.UnexpUndecodable += o.UnexpUndecodable
	s.InvalidRejected += o.InvalidRejected
	s.EmptyConnRej += o.EmptyConnRej
	s.UppercaseOwner += o.UppercaseOwner
	s.RegisterCases += o.RegisterCases
	s.MultiCases += o.MultiCases
	s.MsgsNotExecuted += o.MsgsNotExecuted
	s.SendErrCases += o.SendErrCases
	s.CrossPairs += o.CrossPairs
	s.CrossSameTx += o.CrossSameTx
	s.CrossSameBlock += o.CrossSameBlock
	s.Violations += o.Violations
	s.KnownSuppressed += o.KnownSuppressed
	for k, v := range o.PerType {
		s.PerType[k] += v
	}
	for k, v := range o.PerCombo {
		s.PerCombo[k] += v
	}
	for k, v := range o.PerClass {
		s.PerClass[k] += v
	}
	for k, v := range o.PerOwnerLen {
		s.PerOwnerLen[k] += v
	}
	for k := range o.Cells {
		s.Cells[k] = true
	}
	for k, m := range o.TypesPerCombo {
		if s.TypesPerCombo[k] == nil {
			s.TypesPerCombo[k] = map[string]int{}
		}
		for t, n := range m {
			s.TypesPerCombo[k][t] += n
		}
	}
	for k, v := range o.Owners {
		s.Owners[k] = v
	}
	for _, smp := range o.Samples {
		if len(s.Samples) < 16 {
			s.Samples = append(s.Samples, smp)
		}
	}
	s.ViolationReplays = append(s.ViolationReplays, o.ViolationReplays...)
	s.ViolationMsgs = append(s.ViolationMsgs, o.ViolationMsgs...)
}

// Worker runs one seeded exploration on its own BaseApp.
type Worker struct {
	Seed      int64
	Sizes     Sizes
	ReplayDir string
	Known     []KnownFinding
	Env       *Env
	Gen       *Gen
	St        *Stats
	Emit      func(line string) // prints a verdict line (serialised by the caller)
	MaxViol   int
}

// SelfCheck: the constants the oracle computes by hand agree with ibc-go's (not with code under test).
func SelfCheck() {
	if icatypes.ControllerPortPrefix != portPrefix {
		panic("ibc-go controller port prefix differs from the oracle's constant")
	}
	if host.ChannelCapabilityPath("p", "c") != ExpectedCapName("p", "c") {
		panic("ibc-go channel capability path differs from the oracle's formula")
	}
}

type plan struct {
	kind int // 0 grid/senderr submit, 1 register, 2 multi, 3 invalid
	ig   int
	av   Scenario
	n    int
}

// buildPlans lists WHAT will be generated (cheap); the concrete fillings are drawn when a plan is executed,
// so that a long run never holds all generated messages in memory.
func (w *Worker) buildPlans() []plan {
	g := w.Gen
	var plans []plan
	// the grid: 4 availability combinations x every inner type x fillings
	for _, av := range Combos {
		for i := range g.Inner {
			for f := 0; f < w.Sizes.Fillings; f++ {
				plans = append(plans, plan{kind: 0, ig: i, av: av})
			}
		}
	}
	// fifth scenario: everything available but SendTx itself fails
	for i := range g.Inner {
		for f := 0; f < w.Sizes.SendErrFill; f++ {
			plans = append(plans, plan{kind: 0, ig: i, av: Scenario{Channel: true, Capability: true, SendErr: true}})
		}
	}
	for i := 0; i < w.Sizes.Register; i++ {
		plans = append(plans, plan{kind: 1, n: i})
	}
	for i := 0; i < w.Sizes.Multi; i++ {
		plans = append(plans, plan{kind: 2, n: i})
	}
	for i := 0; i < w.Sizes.Invalid; i++ {
		plans = append(plans, plan{kind: 3, n: i})
	}
	g.R.Shuffle(len(plans), func(i, j int) { plans[i], plans[j] = plans[j], plans[i] })
	return plans
}

func (w *Worker) materialize(p plan) Case {
	g := w.Gen
	c := Case{GasLimit: 1_000_000_000}
	switch p.kind {
	case 0:
		c.Msgs = []MsgSpec{g.SubmitSpec(g.PickOwner(), g.Inner[p.ig], p.av)}
	case 1:
		c.Msgs = []MsgSpec{g.RegisterSpec(g.PickOwner(), Scenario{Channel: g.R.Intn(2) == 0, Capability: g.R.Intn(2) == 0, RegisterErr: p.n%3 == 0})}
	case 2:
		// two messages of two owners in one transaction, each owner scripted separately
		a, b := g.PickOwner(), g.PickOwner()
		avA := Combos[g.R.Intn(4)]
		if g.R.Intn(2) == 0 {
			avA = Combos[3] // let the second message run
		}
		avB := Combos[g.R.Intn(4)]
		if g.R.Intn(8) == 0 {
			avA.SendErr = avA.Channel && avA.Capability
		}
		if a.Bech32 == b.Bech32 {
			avB = avA
		}
		ma := g.SubmitSpec(a, g.Inner[g.R.Intn(len(g.Inner))], avA)
		mb := g.SubmitSpec(b, g.Inner[g.R.Intn(len(g.Inner))], avB)
		switch g.R.Intn(10) {
		case 0:
			if a.Bech32 != b.Bech32 {
				mb = g.RegisterSpec(b, Scenario{Channel: avB.Channel, Capability: avB.Capability, RegisterErr: g.R.Intn(2) == 0})
			}
		case 1, 2:
			mb.ConnectionID = ma.ConnectionID // same connection, different owners
		case 3:
			// B forwards literally the same inner message as A
			mb.InnerTypeURL, mb.InnerB64, mb.InnerJSON, mb.InnerClass = ma.InnerTypeURL, ma.InnerB64, ma.InnerJSON, ma.InnerClass
		}
		c.Msgs = []MsgSpec{ma, mb}
	default:
		// malformed / undecodable submissions (single-message)
		m := g.SubmitSpec(g.PickOwner(), g.Inner[g.R.Intn(len(g.Inner))], Combos[3])
		if p.n%4 == 3 {
			m = g.RegisterSpec(g.PickOwner(), Scenario{Channel: true, Capability: true})
			switch g.R.Intn(3) {
			case 0:
				m.Owner, m.OwnerRawHex, m.OwnerClass = "", "", "empty"
			case 1:
				m.Owner, m.OwnerRawHex, m.OwnerClass = BStr(g.ascii(1+g.R.Intn(30))), "", "garbage"
			default:
				m.ConnectionID = ""
			}
		} else {
			g.MakeInvalid(&m)
		}
		c.Msgs = []MsgSpec{m}
	}
	return c
}

func (w *Worker) Run() {
	plans := w.buildPlans()
	g := w.Gen
	n := 0
	for n < len(plans) {
		k := 1 + g.R.Intn(w.Sizes.MaxTxPerBlok)
		if n+k > len(plans) {
			k = len(plans) - n
		}
		bt := g.BlockTime()
		w.Env.BeginBlock(bt)
		w.St.Blocks++
		blockOwners := map[string]bool{}
		var blockSends []sentBy
		for i := 0; i < k; i++ {
			c := w.materialize(plans[n+i])
			c.ID = fmt.Sprintf("s%d-c%d", w.Seed, n+i)
			c.SetBlockTime(bt)
			o := RunCase(w.Env, c)
			sends := w.account(c, o)
			blockSends = append(blockSends, sends...)
			for _, m := range c.Msgs {
				if m.OwnerRawHex != "" {
					blockOwners[m.OwnerRawHex] = true
				}
			}
		}
		w.Env.EndBlock()
		if len(blockOwners) > 1 {
			w.St.BlocksMultiOwner++
			// explicit pairwise check inside the block: no call of A carries the port of another owner B of this block
			for _, s := range blockSends {
				for oh := range blockOwners {
					if oh == s.ownerHex {
						continue
					}
					w.St.CrossSameBlock++
					raw, _ := hex.DecodeString(oh)
					if strings.EqualFold(s.port, portPrefix+mkOwner(raw).Bech32) {
						w.reportCross(s, oh)
					}
				}
			}
		}
		n += k
	}
	// run-wide cross-owner check: the port of every SendTx attributed to owner A is looked up among the
	// controller ports of ALL owners of the run.
	for _, s := range w.St.sendsBy {
		if oh, ok := w.St.Owners[strings.ToLower(s.port)]; ok && oh != s.ownerHex {
			w.reportCross(s, oh)
		}
		w.St.CrossPairs += int64(len(w.St.Owners) - 1)
	}
}

func (w *Worker) reportCross(s sentBy, other string) {
	w.St.Violations++
	msg := fmt.Sprintf("[cross_owner] case %s: submission of owner %s produced a SendTx on port %s which is the controller port of owner %s (the case itself is in the replay file of its [port] violation)", s.caseID, s.ownerHex, s.port, other)
	w.St.ViolationMsgs = append(w.St.ViolationMsgs, msg)
	if len(w.St.ViolationReplays) < w.MaxViol {
		path := w.writeReplay(Case{ID: "cross-" + s.caseID}, msg, nil)
		w.St.ViolationReplays = append(w.St.ViolationReplays, path)
		w.Emit(fmt.Sprintf("VIOLATION property=%s replay=%s", Property, path))
	}
}

// account folds one outcome into the statistics, emits violations, returns the attributed sends.
func (w *Worker) account(c Case, o Outcome) []sentBy {
	st := w.St
	st.Cases++
	st.SendTxCalls += o.SendTxCalls
	st.RegisterCalls += len(callsOf(o.Calls, "RegisterInterchainAccount"))
	st.TimeoutUnrepr += o.TimeoutUnrepresentable
	st.EmptyConnRej += o.EmptyConnRejected
	st.UppercaseOwner += o.NoncanonicalOwnerAccepted
	if o.Code == 0 {
		st.TxOK++
	} else {
		st.TxFailed++
	}
	if !o.DecodeOK {
		st.Undecodable++
		if o.UnexpectedUndecodable {
			st.UnexpUndecodable++
			if st.UnexpUndecodable <= 5 {
				w.Emit(fmt.Sprintf("# note: generated transaction does not decode (case %s, %s): %s", c.ID, c.Msgs[0].InnerTypeURL, shortS(o.DecodeErr)))
			}
		}
	}
	if len(c.Msgs) > 1 {
		st.MultiCases++
	}
	var sends []sentBy
	for i, ev := range o.Evals {
		m := c.Msgs[i]
		st.PerClass[ev.Class]++
		if ev.Class == "invalid" && o.Code != 0 {
			st.InvalidRejected++
		}
		if ev.Class == "not_executed" {
			st.MsgsNotExecuted++
		}
		if m.OwnerRawHex != "" {
			st.PerOwnerLen[len(m.OwnerRawHex)/2]++
			st.Owners[strings.ToLower(portPrefix+string(m.Owner))] = m.OwnerRawHex
		}
		if m.Kind == KindRegister && i == 0 {
			st.RegisterCases++
		}
		if ev.PacketDecoded {
			st.PacketsDecoded++
		}
		if ev.TimeoutChecked {
			st.TimeoutsChecked++
		}
		if ev.NonEmptyMemo {
			st.NonEmptyMemo++
		}
		if ev.FullyEvaluated && m.Kind == KindSubmit {
			st.PerType[m.InnerTypeURL]++
			st.PerCombo[m.Avail.Label()]++
			st.Cells[ev.Cell] = true
			if m.Avail.SendErr {
				st.SendErrCases++
			}
			if len(c.Msgs) == 1 && !m.Avail.SendErr {
				l := m.Avail.Label()
				if st.TypesPerCombo[l] == nil {
					st.TypesPerCombo[l] = map[string]int{}
				}
				st.TypesPerCombo[l][m.InnerTypeURL]++
			}
		}
		if ev.SendCall != nil {
			s := sentBy{ownerHex: m.OwnerRawHex, port: ev.SendCall.PortID, caseID: c.ID}
			sends = append(sends, s)
			st.sendsBy = append(st.sendsBy, s)
		}
	}
	// same-transaction cross check (two owners in one tx): each call carries its own owner's port only
	if len(c.Msgs) > 1 {
		for i, ev := range o.Evals {
			if ev.SendCall == nil {
				continue
			}
			for j, m2 := range c.Msgs {
				if j == i || m2.OwnerRawHex == "" || m2.OwnerRawHex == c.Msgs[i].OwnerRawHex {
					continue
				}
				st.CrossSameTx++
				if strings.EqualFold(ev.SendCall.PortID, portPrefix+string(m2.Owner)) {
					o.Violations = append(o.Violations, Violation{Clause: "cross_owner_same_tx", MsgIdx: i,
						Detail: fmt.Sprintf("SendTx of message %d carries the port of the owner of message %d (%s)", i, j, shortS(string(m2.Owner)))})
				}
			}
		}
	}
	w.sample(c, o)

	if len(o.Violations) > 0 {
		// known findings: suppress only exact signature matches
		var remaining []Violation
		for _, v := range o.Violations {
			known := false
			for _, k := range w.Known {
				if k.matches(v, c) {
					known = true
				}
			}
			if known {
				st.KnownSuppressed++
			} else {
				remaining = append(remaining, v)
			}
		}
		if len(remaining) > 0 {
			st.Violations++
			var parts []string
			for _, v := range remaining {
				parts = append(parts, v.String())
			}
			msg := strings.Join(parts, "; ")
			st.ViolationMsgs = append(st.ViolationMsgs, msg)
			if len(st.ViolationReplays) < w.MaxViol {
				path := w.writeReplay(c, msg, &o)
				st.ViolationReplays = append(st.ViolationReplays, path)
				w.Emit(fmt.Sprintf("VIOLATION property=%s replay=%s", Property, path))
				w.Emit("# " + firstN(msg, 600))
			}
		}
	}
	return sends
}

func firstN(s string, n int) string {
	if len(s) > n {
		return s[:n] + "…"
	}
	return s
}

// ReplayFile is the self-contained replay document.
type ReplayFile struct {
	Property       string      `json:"property"`
	MonitorMessage string      `json:"monitor_message"`
	Case           Case        `json:"case"`
	Observed       interface{} `json:"observed,omitempty"`
	WorkerSeed     int64       `json:"worker_seed"` // the exploration that found it (cases are history-independent unless the code under test keeps state)
}

func observedJSON(o *Outcome) interface{} {
	if o == nil {
		return nil
	}
	return map[string]interface{}{
		"code": o.Code, "codespace": o.Codespace, "log": firstN(o.Log, 2000), "tx_decodes": o.DecodeOK, "decode_error": o.DecodeErr,
		"calls": CallsJSON(o.Calls), "violations": o.Violations,
	}
}

func (w *Worker) writeReplay(c Case, msg string, o *Outcome) string {
	dir := w.ReplayDir
	if dir == "" {
		dir = os.TempDir()
	}
	_ = os.MkdirAll(dir, 0o755)
	bz, err := json.MarshalIndent(ReplayFile{Property: Property, MonitorMessage: msg, Case: c, Observed: observedJSON(o), WorkerSeed: w.Seed}, "", " ")
	if err != nil {
		panic(err)
	}
	h := sha256.Sum256(bz)
	p, _ := filepath.Abs(filepath.Join(dir, fmt.Sprintf("%s-%s-%s.json", Property, c.ID, hex.EncodeToString(h[:4]))))
	if err := os.WriteFile(p, bz, 0o644); err != nil {
		panic(err)
	}
	return p
}

// sample keeps a few small, written-out cases of different shapes for the evidence file (quota per shape).
func (w *Worker) sample(c Case, o Outcome) {
	size := 0
	for _, m := range c.Msgs {
		size += len(m.InnerB64) + len(m.ConnectionID) + len(m.Owner) + len(m.Version)
	}
	if size > 450*len(c.Msgs) {
		return
	}
	m0 := c.Msgs[0]
	key, quota := "", 1
	switch {
	case !o.DecodeOK:
		key = "undecodable"
	case len(c.Msgs) > 1 && o.SendTxCalls == 2:
		key = "multi-two-sends"
	case len(c.Msgs) > 1:
		key = "multi-other"
	case o.Evals[0].Class == "invalid" || o.Evals[0].Class == "empty_conn":
		key = "rejected-" + m0.Kind
	case m0.Kind == KindRegister:
		key = "register-" + m0.Avail.Label()
	case m0.OwnerClass != "canonical":
		key = "owner-" + m0.OwnerClass
	default:
		key = "submit-" + m0.Avail.Label()
		if m0.Avail.Channel && m0.Avail.Capability && !m0.Avail.SendErr {
			quota = 2
		}
	}
	if w.St.sampleCount[key] >= quota || len(w.St.Samples) >= 16 {
		return
	}
	w.St.sampleCount[key]++
	bz, err := json.Marshal(map[string]interface{}{
		"shape":  key,
		"case":   c,
		"result": map[string]interface{}{"code": o.Code, "codespace": o.Codespace, "log": firstN(o.Log, 300)},
		"calls":  CallsJSON(o.Calls),
	})
	if err == nil {
		w.St.Samples = append(w.St.Samples, bz)
	}
}

// Floor: every one of the four availability combinations must have been fully evaluated for at least
// FloorTypes distinct inner message types (single-message transactions).
func (s *Stats) FloorMissed(floorTypes int) string {
	var miss []string
	for _, av := range Combos {
		if n := len(s.TypesPerCombo[av.Label()]); n < floorTypes {
			miss = append(miss, fmt.Sprintf("%s: %d types < %d", av.Label(), n, floorTypes))
		}
	}
	if s.PacketsDecoded == 0 {
		miss = append(miss, "no packet was decoded")
	}
	sort.Strings(miss)
	return strings.Join(miss, "; ")
}

// ReplayOne re-executes the case of a replay file on a fresh node: one block at the case's block time.
func ReplayOne(e *Env, c Case) Outcome {
	e.BeginBlock(c.BlockTime())
	o := RunCase(e, c)
	e.EndBlock()
	return o
}
