package itx

import (
	"encoding/base64"
	"encoding/hex"
	"encoding/json"
	"fmt"
	"math/big"
	"math/rand"
	"strings"
	"time"
	"unicode/utf8"

	"github.com/cosmos/gogoproto/proto"

	"github.com/cosmos/cosmos-sdk/codec"
	codectypes "github.com/cosmos/cosmos-sdk/codec/types"
	"github.com/cosmos/cosmos-sdk/crypto/keys/ed25519"
	sdk "github.com/cosmos/cosmos-sdk/types"
	"github.com/cosmos/cosmos-sdk/types/bech32"
	vestingtypes "github.com/cosmos/cosmos-sdk/x/auth/vesting/types"
	authztypes "github.com/cosmos/cosmos-sdk/x/authz"
	banktypes "github.com/cosmos/cosmos-sdk/x/bank/types"
	crisistypes "github.com/cosmos/cosmos-sdk/x/crisis/types"
	distrtypes "github.com/cosmos/cosmos-sdk/x/distribution/types"
	feegranttypes "github.com/cosmos/cosmos-sdk/x/feegrant"
	govv1 "github.com/cosmos/cosmos-sdk/x/gov/types/v1"
	govv1beta1 "github.com/cosmos/cosmos-sdk/x/gov/types/v1beta1"
	grouptypes "github.com/cosmos/cosmos-sdk/x/group"
	nfttypes "github.com/cosmos/cosmos-sdk/x/nft"
	slashingtypes "github.com/cosmos/cosmos-sdk/x/slashing/types"
	stakingtypes "github.com/cosmos/cosmos-sdk/x/staking/types"
	upgradetypes "github.com/cosmos/cosmos-sdk/x/upgrade/types"
	icacontrollertypes "github.com/cosmos/ibc-go/v7/modules/apps/27-interchain-accounts/controller/types"
	icatypes "github.com/cosmos/ibc-go/v7/modules/apps/27-interchain-accounts/types"
	ibctransfertypes "github.com/cosmos/ibc-go/v7/modules/apps/transfer/types"
	clienttypes "github.com/cosmos/ibc-go/v7/modules/core/02-client/types"

	intertxv1 "github.com/regen-network/regen-ledger/x/intertx/types/v1"
)

// ---------------------------------------------------------------------------------------------
// case model (this is what a replay file carries)

// BStr is a string that survives JSON even when it is not valid UTF-8 (then written as {"hex":..}).
type BStr string

func (b BStr) MarshalJSON() ([]byte, error) {
	if utf8.ValidString(string(b)) {
		return json.Marshal(string(b))
	}
	return json.Marshal(map[string]string{"hex": hex.EncodeToString([]byte(b))})
}

func (b *BStr) UnmarshalJSON(bz []byte) error {
	var s string
	if err := json.Unmarshal(bz, &s); err == nil {
		*b = BStr(s)
		return nil
	}
	var m map[string]string
	if err := json.Unmarshal(bz, &m); err != nil {
		return err
	}
	raw, err := hex.DecodeString(m["hex"])
	if err != nil {
		return err
	}
	*b = BStr(raw)
	return nil
}

const (
	KindSubmit   = "submit"
	KindRegister = "register"
)

// MsgSpec is one intertx message of a transaction together with the fake script for its owner.
type MsgSpec struct {
	Kind         string `json:"kind"`
	Owner        BStr   `json:"owner"`
	OwnerRawHex  string `json:"owner_raw_hex"` // the raw address the generator encoded ("" = deliberately not an address)
	OwnerClass   string `json:"owner_class"`   // canonical | uppercase | empty | garbage | wrong_prefix | bad_checksum | too_long
	ConnectionID BStr   `json:"connection_id"`
	Version      BStr   `json:"version,omitempty"` // register only

	InnerNil     bool            `json:"inner_nil,omitempty"`
	InnerTypeURL string          `json:"inner_type_url,omitempty"`
	InnerB64     string          `json:"inner_b64,omitempty"`
	InnerJSON    json.RawMessage `json:"inner_json,omitempty"` // informational only; bytes are authoritative
	InnerClass   string          `json:"inner_class,omitempty"`
	// canonical | garbage | unknown_type | empty_type | non_msg_type | oversize_int

	Avail Scenario `json:"availability"`
}

func (m MsgSpec) InnerBytes() []byte {
	bz, err := base64.StdEncoding.DecodeString(m.InnerB64)
	if err != nil {
		panic(err)
	}
	return bz
}

type Case struct {
	ID           string    `json:"id"`
	BlockTimeSec int64     `json:"block_time_unix_sec"`
	BlockTimeNs  int64     `json:"block_time_nanos"`
	BlockTimeStr string    `json:"block_time_rfc3339"`
	GasLimit     uint64    `json:"gas_limit"`
	Msgs         []MsgSpec `json:"msgs"`
}

func (c Case) BlockTime() time.Time { return time.Unix(c.BlockTimeSec, c.BlockTimeNs).UTC() }
func (c *Case) SetBlockTime(t time.Time) {
	t = t.UTC()
	c.BlockTimeSec, c.BlockTimeNs = t.Unix(), int64(t.Nanosecond())
	c.BlockTimeStr = t.Format(time.RFC3339Nano)
}

// ---------------------------------------------------------------------------------------------
// generator

type Owner struct {
	Raw    []byte
	Bech32 string
}

type Gen struct {
	R     *rand.Rand
	Pool  []Owner
	IR    codectypes.InterfaceRegistry
	Cdc   *codec.ProtoCodec
	Inner []InnerGen
	// set by fillers that deliberately emit something the SDK codec refuses (e.g. a 300-bit Int)
	oversize bool
}

type InnerGen struct {
	URL string
	Gen func(g *Gen) proto.Message
}

func mkOwner(raw []byte) Owner {
	s, err := bech32.ConvertAndEncode(Bech32Prefix, raw)
	if err != nil {
		panic(err)
	}
	return Owner{Raw: raw, Bech32: s}
}

var ownerLens = []int{1, 2, 19, 20, 20, 20, 20, 21, 31, 32, 32, 32, 33, 64, 128, 254, 255}

func NewGen(seed int64, e *Env) *Gen {
	g := &Gen{R: rand.New(rand.NewSource(seed)), IR: e.IR, Cdc: e.Cdc}
	g.Inner = innerGens()
	// owner pool: various lengths, plus near-collisions (one byte apart, prefix of one another)
	for i := 0; i < 40; i++ {
		g.Pool = append(g.Pool, g.freshOwner())
	}
	base := g.bytesN(20)
	g.Pool = append(g.Pool, mkOwner(base))
	for i := 0; i < 3; i++ {
		b := append([]byte(nil), base...)
		b[g.R.Intn(len(b))] ^= 1 << uint(g.R.Intn(8))
		g.Pool = append(g.Pool, mkOwner(b))
	}
	g.Pool = append(g.Pool, mkOwner(append(append([]byte(nil), base...), 0)))
	g.Pool = append(g.Pool, mkOwner(base[:19]))
	g.Pool = append(g.Pool, mkOwner(make([]byte, 20)), mkOwner(make([]byte, 32)), mkOwner([]byte{0}), mkOwner([]byte{0xff}))
	return g
}

func (g *Gen) bytesN(n int) []byte {
	b := make([]byte, n)
	g.R.Read(b)
	return b
}

func (g *Gen) freshOwner() Owner {
	var n int
	if g.R.Intn(10) == 0 {
		n = 1 + g.R.Intn(255)
	} else {
		n = ownerLens[g.R.Intn(len(ownerLens))]
	}
	return mkOwner(g.bytesN(n))
}

func (g *Gen) PickOwner() Owner {
	if g.R.Intn(10) < 3 {
		return g.freshOwner()
	}
	return g.Pool[g.R.Intn(len(g.Pool))]
}

func (g *Gen) addr() string { return g.PickOwner().Bech32 }

func (g *Gen) valAddr() string {
	s, _ := bech32.ConvertAndEncode(Bech32Prefix+"valoper", g.bytesN(20))
	return s
}

var unicodePieces = []string{"\u00e9", "\u00df", "\u03a9", "\u0436", "\u4e2d", "\u6587", "\u65e5\u672c", "\ud55c", "\u0639", "\u05e8", "\U0001d518", "\U0001f600", "\U0001f469\u200d\U0001f469\u200d\U0001f467", "e\u0301", "\u200b", "\u202e", "\ufeff", "\u0000", "\u00a0", "\ufdfa", "\U0010ffff"}

// str draws a string from several classes: empty, short ascii, address-like, unicode, huge, JSON/meta
// characters, and (rarely) invalid UTF-8.
func (g *Gen) str() string {
	switch k := g.R.Intn(100); {
	case k < 12:
		return ""
	case k < 40:
		return g.ascii(1 + g.R.Intn(24))
	case k < 60:
		return g.addr()
	case k < 75:
		var sb strings.Builder
		for i, n := 0, 1+g.R.Intn(12); i < n; i++ {
			sb.WriteString(unicodePieces[g.R.Intn(len(unicodePieces))])
			if g.R.Intn(3) == 0 {
				sb.WriteString(g.ascii(1 + g.R.Intn(4)))
			}
		}
		return sb.String()
	case k < 83:
		metas := []string{" ", "\n", "\t", "\"", "\\", "{}", "[]", "null", "/", "//", "../", "%00", "\r\n", "'", "<>", "connection-0", "channel-0", "icacontroller-", ",", ";", "=", "\x7f", "\x01"}
		var sb strings.Builder
		for i, n := 0, 1+g.R.Intn(5); i < n; i++ {
			sb.WriteString(metas[g.R.Intn(len(metas))])
		}
		return sb.String()
	case k < 86:
		return string(g.bytesN(1 + g.R.Intn(16))) // arbitrary bytes, usually invalid UTF-8
	case k < 96:
		return g.ascii(200 + g.R.Intn(2000))
	default:
		switch h := g.R.Intn(20); {
		case h < 14:
			return g.ascii(2000 + g.R.Intn(6000))
		case h < 19:
			return strings.Repeat(g.ascii(1+g.R.Intn(64)), 1+g.R.Intn(1024)) // up to 64 KiB
		default:
			return strings.Repeat(unicodePieces[g.R.Intn(len(unicodePieces))]+g.ascii(7), 1<<uint(10+g.R.Intn(7))) // up to ~1 MiB
		}
	}
}

const asciiAlphabet = "abcdefghijklmnopqrstuvwxyzABCDEFGHIJKLMNOPQRSTUVWXYZ0123456789-_./: "

func (g *Gen) ascii(n int) string {
	b := make([]byte, n)
	for i := range b {
		b[i] = asciiAlphabet[g.R.Intn(len(asciiAlphabet))]
	}
	return string(b)
}

func (g *Gen) denom() string {
	switch g.R.Intn(6) {
	case 0:
		return ""
	case 1:
		return "uregen"
	case 2:
		return "ibc/" + strings.ToUpper(hex.EncodeToString(g.bytesN(32)))
	case 3:
		return g.str()
	default:
		return g.ascii(3 + g.R.Intn(10))
	}
}

func pow2(n uint) *big.Int { return new(big.Int).Lsh(big.NewInt(1), n) }

// sdkInt: zero value, 0, 1, small, 2^63, around 2^255 / 2^256-1 (the largest the codec carries), negative;
// very rarely deliberately more than 256 bits, which the SDK's Int refuses to unmarshal.
func (g *Gen) sdkInt() sdk.Int {
	switch k := g.R.Intn(200); {
	case k < 20:
		return sdk.Int{}
	case k < 40:
		return sdk.ZeroInt()
	case k < 60:
		return sdk.OneInt()
	case k < 110:
		return sdk.NewInt(g.R.Int63n(1_000_000_000))
	case k < 125:
		return sdk.NewIntFromBigInt(pow2(63))
	case k < 140:
		return sdk.NewIntFromBigInt(new(big.Int).Sub(pow2(255), big.NewInt(1)))
	case k < 155:
		return sdk.NewIntFromBigInt(new(big.Int).Sub(pow2(256), big.NewInt(1)))
	case k < 175:
		return sdk.NewInt(-g.R.Int63())
	case k < 198:
		return sdk.NewIntFromBigInt(new(big.Int).Rand(g.R, pow2(200)))
	default:
		g.oversize = true
		// built through the mutable accessor: NewIntFromBigInt panics above 256 bits
		i := sdk.NewInt(1)
		i.BigIntMut().Set(new(big.Int).Add(pow2(300), big.NewInt(g.R.Int63())))
		return i
	}
}

func (g *Gen) sdkDec() sdk.Dec {
	switch k := g.R.Intn(10); {
	case k < 1:
		return sdk.Dec{}
	case k < 3:
		return sdk.ZeroDec()
	case k < 5:
		return sdk.NewDecWithPrec(g.R.Int63n(1_000_000), int64(g.R.Intn(18)))
	case k < 6:
		return sdk.OneDec()
	case k < 7:
		return sdk.NewDecWithPrec(-g.R.Int63n(1_000_000), int64(g.R.Intn(18)))
	case k < 9:
		return sdk.NewDecFromBigIntWithPrec(new(big.Int).Rand(g.R, pow2(250)), 18)
	default:
		return sdk.SmallestDec()
	}
}

func (g *Gen) coin() sdk.Coin { return sdk.Coin{Denom: g.denom(), Amount: g.sdkInt()} }

func (g *Gen) coins() sdk.Coins {
	n := []int{0, 0, 1, 1, 1, 2, 3, 8}[g.R.Intn(8)]
	if g.R.Intn(200) == 0 {
		n = 500
	}
	var cs sdk.Coins
	for i := 0; i < n; i++ {
		cs = append(cs, g.coin())
	}
	return cs
}

func (g *Gen) u64() uint64 {
	switch g.R.Intn(5) {
	case 0:
		return 0
	case 1:
		return ^uint64(0)
	case 2:
		return uint64(g.R.Intn(100))
	default:
		return g.R.Uint64()
	}
}

func (g *Gen) i64() int64 { return int64(g.u64()) }

// protoTime: any instant a protobuf Timestamp can carry (years 1..9999), mostly ordinary.
func (g *Gen) protoTime() time.Time {
	switch k := g.R.Intn(10); {
	case k < 1:
		return time.Time{}.UTC() // year 1
	case k < 2:
		return time.Date(9999, 12, 31, 23, 59, 59, 999999999, time.UTC)
	case k < 3:
		return time.Unix(0, 0).UTC()
	case k < 4:
		return time.Unix(-62135596800+g.R.Int63n(253402300799+62135596800), g.R.Int63n(1e9)).UTC()
	default:
		return time.Unix(946684800+g.R.Int63n(3155760000), g.R.Int63n(1e9)).UTC() // 2000..2100
	}
}

func (g *Gen) protoTimePtr() *time.Time {
	if g.R.Intn(3) == 0 {
		return nil
	}
	t := g.protoTime()
	return &t
}

func (g *Gen) dur() time.Duration { return time.Duration(g.i64()) }

func mustAny(m proto.Message) *codectypes.Any {
	a, err := codectypes.NewAnyWithValue(m)
	if err != nil {
		panic(err)
	}
	// drop the cached value: what travels is type URL + bytes
	return &codectypes.Any{TypeUrl: a.TypeUrl, Value: a.Value}
}

// nestedMsgs: 0..3 packed sdk.Msgs (simple leaf types) for MsgExec / gov v1 MsgSubmitProposal.
func (g *Gen) nestedMsgs() []*codectypes.Any {
	n := g.R.Intn(4)
	var out []*codectypes.Any
	for i := 0; i < n; i++ {
		var m proto.Message
		switch g.R.Intn(4) {
		case 0:
			m = &banktypes.MsgSend{FromAddress: g.str(), ToAddress: g.str(), Amount: g.coins()}
		case 1:
			m = &stakingtypes.MsgDelegate{DelegatorAddress: g.str(), ValidatorAddress: g.valAddr(), Amount: g.coin()}
		case 2:
			m = &govv1.MsgVote{ProposalId: g.u64(), Voter: g.str(), Option: govv1.VoteOption(g.R.Intn(6)), Metadata: g.str()}
		default:
			m = &intertxv1.MsgSubmitTx{Owner: g.str(), ConnectionId: g.str(), Msg: mustAny(&banktypes.MsgSend{FromAddress: g.str()})}
		}
		out = append(out, mustAny(m))
	}
	return out
}

func (g *Gen) description() stakingtypes.Description {
	return stakingtypes.Description{Moniker: g.str(), Identity: g.str(), Website: g.str(), SecurityContact: g.str(), Details: g.str()}
}

func innerGens() []InnerGen {
	list := []func(g *Gen) proto.Message{
		func(g *Gen) proto.Message {
			return &banktypes.MsgSend{FromAddress: g.str(), ToAddress: g.str(), Amount: g.coins()}
		},
		func(g *Gen) proto.Message {
			m := &banktypes.MsgMultiSend{}
			for i, n := 0, g.R.Intn(4); i < n; i++ {
				m.Inputs = append(m.Inputs, banktypes.Input{Address: g.str(), Coins: g.coins()})
			}
			for i, n := 0, g.R.Intn(4); i < n; i++ {
				m.Outputs = append(m.Outputs, banktypes.Output{Address: g.str(), Coins: g.coins()})
			}
			return m
		},
		func(g *Gen) proto.Message {
			return &stakingtypes.MsgDelegate{DelegatorAddress: g.str(), ValidatorAddress: g.str(), Amount: g.coin()}
		},
		func(g *Gen) proto.Message {
			return &stakingtypes.MsgUndelegate{DelegatorAddress: g.str(), ValidatorAddress: g.str(), Amount: g.coin()}
		},
		func(g *Gen) proto.Message {
			return &stakingtypes.MsgBeginRedelegate{DelegatorAddress: g.str(), ValidatorSrcAddress: g.str(), ValidatorDstAddress: g.str(), Amount: g.coin()}
		},
		func(g *Gen) proto.Message {
			m := &stakingtypes.MsgCreateValidator{
				Description:       g.description(),
				Commission:        stakingtypes.CommissionRates{Rate: g.sdkDec(), MaxRate: g.sdkDec(), MaxChangeRate: g.sdkDec()},
				MinSelfDelegation: g.sdkInt(),
				DelegatorAddress:  g.str(),
				ValidatorAddress:  g.str(),
				Value:             g.coin(),
			}
			if g.R.Intn(4) != 0 {
				m.Pubkey = mustAny(&ed25519.PubKey{Key: g.bytesN(32)})
			}
			return m
		},
		func(g *Gen) proto.Message {
			m := &stakingtypes.MsgEditValidator{Description: g.description(), ValidatorAddress: g.str()}
			if g.R.Intn(2) == 0 {
				d := g.sdkDec()
				m.CommissionRate = &d
			}
			if g.R.Intn(2) == 0 {
				i := g.sdkInt()
				m.MinSelfDelegation = &i
			}
			return m
		},
		func(g *Gen) proto.Message {
			return &stakingtypes.MsgCancelUnbondingDelegation{DelegatorAddress: g.str(), ValidatorAddress: g.str(), Amount: g.coin(), CreationHeight: g.i64()}
		},
		func(g *Gen) proto.Message {
			return &distrtypes.MsgSetWithdrawAddress{DelegatorAddress: g.str(), WithdrawAddress: g.str()}
		},
		func(g *Gen) proto.Message {
			return &distrtypes.MsgWithdrawDelegatorReward{DelegatorAddress: g.str(), ValidatorAddress: g.str()}
		},
		func(g *Gen) proto.Message {
			return &distrtypes.MsgWithdrawValidatorCommission{ValidatorAddress: g.str()}
		},
		func(g *Gen) proto.Message {
			return &distrtypes.MsgFundCommunityPool{Amount: g.coins(), Depositor: g.str()}
		},
		func(g *Gen) proto.Message {
			return &distrtypes.MsgCommunityPoolSpend{Authority: g.str(), Recipient: g.str(), Amount: g.coins()}
		},
		func(g *Gen) proto.Message {
			return &govv1.MsgSubmitProposal{Messages: g.nestedMsgs(), InitialDeposit: g.coins(), Proposer: g.str(), Metadata: g.str(), Title: g.str(), Summary: g.str()}
		},
		func(g *Gen) proto.Message {
			return &govv1.MsgVote{ProposalId: g.u64(), Voter: g.str(), Option: govv1.VoteOption(g.R.Intn(7) - 1), Metadata: g.str()}
		},
		func(g *Gen) proto.Message {
			m := &govv1.MsgVoteWeighted{ProposalId: g.u64(), Voter: g.str(), Metadata: g.str()}
			for i, n := 0, g.R.Intn(5); i < n; i++ {
				m.Options = append(m.Options, &govv1.WeightedVoteOption{Option: govv1.VoteOption(g.R.Intn(6)), Weight: g.str()})
			}
			return m
		},
		func(g *Gen) proto.Message {
			return &govv1.MsgDeposit{ProposalId: g.u64(), Depositor: g.str(), Amount: g.coins()}
		},
		func(g *Gen) proto.Message {
			m := &govv1beta1.MsgSubmitProposal{InitialDeposit: g.coins(), Proposer: g.str()}
			if g.R.Intn(4) != 0 {
				m.Content = mustAny(&govv1beta1.TextProposal{Title: g.str(), Description: g.str()})
			}
			return m
		},
		func(g *Gen) proto.Message {
			return &govv1beta1.MsgVote{ProposalId: g.u64(), Voter: g.str(), Option: govv1beta1.VoteOption(g.R.Intn(7) - 1)}
		},
		func(g *Gen) proto.Message {
			m := &govv1beta1.MsgVoteWeighted{ProposalId: g.u64(), Voter: g.str()}
			for i, n := 0, g.R.Intn(5); i < n; i++ {
				m.Options = append(m.Options, govv1beta1.WeightedVoteOption{Option: govv1beta1.VoteOption(g.R.Intn(6)), Weight: g.sdkDec()})
			}
			return m
		},
		func(g *Gen) proto.Message {
			return &govv1beta1.MsgDeposit{ProposalId: g.u64(), Depositor: g.str(), Amount: g.coins()}
		},
		func(g *Gen) proto.Message {
			m := &authztypes.MsgGrant{Granter: g.str(), Grantee: g.str()}
			m.Grant.Expiration = g.protoTimePtr()
			switch g.R.Intn(4) {
			case 0:
			case 1:
				m.Grant.Authorization = mustAny(&authztypes.GenericAuthorization{Msg: g.str()})
			case 2:
				m.Grant.Authorization = mustAny(&banktypes.SendAuthorization{SpendLimit: g.coins(), AllowList: []string{g.str()}})
			default:
				m.Grant.Authorization = mustAny(&stakingtypes.StakeAuthorization{MaxTokens: nil, AuthorizationType: stakingtypes.AuthorizationType(g.R.Intn(4))})
			}
			return m
		},
		func(g *Gen) proto.Message {
			return &authztypes.MsgExec{Grantee: g.str(), Msgs: g.nestedMsgs()}
		},
		func(g *Gen) proto.Message {
			return &authztypes.MsgRevoke{Granter: g.str(), Grantee: g.str(), MsgTypeUrl: g.str()}
		},
		func(g *Gen) proto.Message {
			m := &feegranttypes.MsgGrantAllowance{Granter: g.str(), Grantee: g.str()}
			switch g.R.Intn(3) {
			case 0:
			case 1:
				m.Allowance = mustAny(&feegranttypes.BasicAllowance{SpendLimit: g.coins(), Expiration: g.protoTimePtr()})
			default:
				m.Allowance = mustAny(&feegranttypes.PeriodicAllowance{
					Basic:  feegranttypes.BasicAllowance{SpendLimit: g.coins(), Expiration: g.protoTimePtr()},
					Period: g.dur(), PeriodSpendLimit: g.coins(), PeriodCanSpend: g.coins(), PeriodReset: g.protoTime()})
			}
			return m
		},
		func(g *Gen) proto.Message {
			return &feegranttypes.MsgRevokeAllowance{Granter: g.str(), Grantee: g.str()}
		},
		func(g *Gen) proto.Message {
			return &crisistypes.MsgVerifyInvariant{Sender: g.str(), InvariantModuleName: g.str(), InvariantRoute: g.str()}
		},
		func(g *Gen) proto.Message {
			return &slashingtypes.MsgUnjail{ValidatorAddr: g.str()}
		},
		func(g *Gen) proto.Message {
			return &vestingtypes.MsgCreateVestingAccount{FromAddress: g.str(), ToAddress: g.str(), Amount: g.coins(), EndTime: g.i64(), Delayed: g.R.Intn(2) == 0}
		},
		func(g *Gen) proto.Message {
			m := &vestingtypes.MsgCreatePeriodicVestingAccount{FromAddress: g.str(), ToAddress: g.str(), StartTime: g.i64()}
			for i, n := 0, g.R.Intn(4); i < n; i++ {
				m.VestingPeriods = append(m.VestingPeriods, vestingtypes.Period{Length: g.i64(), Amount: g.coins()})
			}
			return m
		},
		func(g *Gen) proto.Message {
			return &vestingtypes.MsgCreatePermanentLockedAccount{FromAddress: g.str(), ToAddress: g.str(), Amount: g.coins()}
		},
		func(g *Gen) proto.Message {
			return &upgradetypes.MsgSoftwareUpgrade{Authority: g.str(), Plan: upgradetypes.Plan{Name: g.str(), Time: g.protoTime(), Height: g.i64(), Info: g.str()}}
		},
		func(g *Gen) proto.Message {
			m := &grouptypes.MsgCreateGroup{Admin: g.str(), Metadata: g.str()}
			for i, n := 0, g.R.Intn(4); i < n; i++ {
				m.Members = append(m.Members, grouptypes.MemberRequest{Address: g.str(), Weight: g.str(), Metadata: g.str()})
			}
			return m
		},
		func(g *Gen) proto.Message {
			return &nfttypes.MsgSend{ClassId: g.str(), Id: g.str(), Sender: g.str(), Receiver: g.str()}
		},
		func(g *Gen) proto.Message {
			return &ibctransfertypes.MsgTransfer{SourcePort: g.str(), SourceChannel: g.str(), Token: g.coin(), Sender: g.str(), Receiver: g.str(),
				TimeoutHeight: clienttypes.Height{RevisionNumber: g.u64(), RevisionHeight: g.u64()}, TimeoutTimestamp: g.u64(), Memo: g.str()}
		},
		func(g *Gen) proto.Message {
			return &icacontrollertypes.MsgSendTx{Owner: g.str(), ConnectionId: g.str(), RelativeTimeout: g.u64(),
				PacketData: icatypes.InterchainAccountPacketData{Type: icatypes.Type(g.R.Intn(3)), Data: g.bytesN(g.R.Intn(64)), Memo: g.str()}}
		},
		// intertx's own messages as the inner message (a MsgSubmitTx carrying a MsgSubmitTx of ANOTHER owner)
		func(g *Gen) proto.Message {
			return &intertxv1.MsgSubmitTx{Owner: g.addr(), ConnectionId: g.str(),
				Msg: mustAny(&banktypes.MsgSend{FromAddress: g.addr(), ToAddress: g.addr(), Amount: g.coins()})}
		},
		func(g *Gen) proto.Message {
			return &intertxv1.MsgRegisterAccount{Owner: g.str(), ConnectionId: g.str(), Version: g.str()}
		},
	}
	g0 := &Gen{R: rand.New(rand.NewSource(1))}
	g0.Pool = []Owner{mkOwner(make([]byte, 20))}
	var out []InnerGen
	seen := map[string]bool{}
	for _, f := range list {
		url := "/" + proto.MessageName(f(g0))
		if seen[url] {
			panic("duplicate inner generator " + url)
		}
		seen[url] = true
		out = append(out, InnerGen{URL: url, Gen: f})
	}
	return out
}

// ---------------------------------------------------------------------------------------------
// building MsgSpecs

func (g *Gen) connectionID() string {
	switch k := g.R.Intn(20); {
	case k < 10:
		return fmt.Sprintf("connection-%d", g.R.Intn(1000))
	case k < 12:
		return "connection-0"
	case k < 13:
		return "connection-18446744073709551615"
	case k < 14:
		return " "
	default:
		s := g.str()
		if s == "" {
			s = "c"
		}
		return s
	}
}

// FillInner generates an inner message of the given generator and stores type URL + bytes (+ JSON).
func (g *Gen) FillInner(m *MsgSpec, ig InnerGen) {
	g.oversize = false
	msg := ig.Gen(g)
	bz, err := proto.Marshal(msg)
	if err != nil {
		panic(fmt.Sprintf("generator %s produced an unmarshalable message: %v", ig.URL, err))
	}
	m.InnerTypeURL = ig.URL
	m.InnerB64 = base64.StdEncoding.EncodeToString(bz)
	m.InnerClass = "canonical"
	if g.oversize {
		m.InnerClass = "oversize_int"
	}
	if len(bz) <= 4096 {
		if js, err := g.Cdc.MarshalJSON(msg); err == nil && json.Valid(js) {
			m.InnerJSON = js
		}
	}
}

func (g *Gen) SubmitSpec(o Owner, ig InnerGen, av Scenario) MsgSpec {
	m := MsgSpec{Kind: KindSubmit, Owner: BStr(o.Bech32), OwnerRawHex: hex.EncodeToString(o.Raw), OwnerClass: "canonical",
		ConnectionID: BStr(g.connectionID()), Avail: av}
	g.FillInner(&m, ig)
	return m
}

func (g *Gen) RegisterSpec(o Owner, av Scenario) MsgSpec {
	return MsgSpec{Kind: KindRegister, Owner: BStr(o.Bech32), OwnerRawHex: hex.EncodeToString(o.Raw), OwnerClass: "canonical",
		ConnectionID: BStr(g.connectionID()), Version: BStr(g.str()), Avail: av}
}

// BlockTime: mostly 2000..2100; sometimes anywhere a uint64 nanosecond timeout can express; rarely the
// extremes a header's protobuf Timestamp can carry (year 1, year 9999, before 1970).
func (g *Gen) BlockTime() time.Time {
	switch k := g.R.Intn(100); {
	case k < 80:
		return time.Unix(946684800+g.R.Int63n(3155760000), g.R.Int63n(1e9)).UTC()
	case k < 84:
		return time.Unix(g.R.Int63n(9223372036), g.R.Int63n(1e9)).UTC() // 1970..2262
	case k < 86:
		return time.Unix(0, 0).UTC()
	case k < 88:
		return time.Unix(-60, 0).UTC() // timeout is exactly 0
	case k < 90:
		return time.Unix(9223372036-60, 854775807).UTC() // timeout is exactly MaxInt64 ns
	case k < 92:
		return time.Unix(9223372036-60, 854775808).UTC() // one ns beyond what int64 ns can hold
	case k < 94:
		return time.Unix(9223372036+g.R.Int63n(9000000000), g.R.Int63n(1e9)).UTC() // 2262..2547: fits uint64 only
	case k < 96:
		return time.Unix(-g.R.Int63n(62135596800), g.R.Int63n(1e9)).UTC() // before 1970
	case k < 97:
		return time.Time{}.UTC()
	case k < 98:
		return time.Date(9999, 12, 31, 23, 59, 59, 999999999, time.UTC)
	default:
		return time.Unix(-62135596800+g.R.Int63n(253402300799+62135596800), g.R.Int63n(1e9)).UTC()
	}
}

// MakeInvalid turns a submit spec into one of the shapes ValidateBasic / the decoder is expected to refuse.
func (g *Gen) MakeInvalid(m *MsgSpec) {
	switch g.R.Intn(12) {
	case 0:
		m.Owner, m.OwnerRawHex, m.OwnerClass = "", "", "empty"
	case 1:
		m.Owner, m.OwnerRawHex, m.OwnerClass = BStr(g.ascii(1+g.R.Intn(40))), "", "garbage"
	case 2:
		s, _ := bech32.ConvertAndEncode("cosmos", g.bytesN(20))
		m.Owner, m.OwnerRawHex, m.OwnerClass = BStr(s), "", "wrong_prefix"
	case 3:
		s := []byte(string(m.Owner))
		if s[len(s)-1] == 'q' {
			s[len(s)-1] = 'p'
		} else {
			s[len(s)-1] = 'q'
		}
		m.Owner, m.OwnerRawHex, m.OwnerClass = BStr(s), "", "bad_checksum"
	case 4:
		s, _ := bech32.ConvertAndEncode(Bech32Prefix, g.bytesN(256+g.R.Intn(40)))
		m.Owner, m.OwnerRawHex, m.OwnerClass = BStr(s), "", "too_long"
	case 5:
		m.ConnectionID = ""
	case 6:
		m.InnerNil, m.InnerTypeURL, m.InnerB64, m.InnerJSON, m.InnerClass = true, "", "", nil, ""
	case 7:
		m.InnerTypeURL, m.InnerClass, m.InnerJSON = "/verif.unknown.MsgNope", "unknown_type", nil
	case 8:
		m.InnerTypeURL, m.InnerClass, m.InnerJSON = "", "empty_type", nil
	case 9:
		bz, _ := proto.Marshal(&banktypes.SendAuthorization{SpendLimit: g.coins()})
		m.InnerTypeURL, m.InnerB64, m.InnerClass, m.InnerJSON = "/cosmos.bank.v1beta1.SendAuthorization", base64.StdEncoding.EncodeToString(bz), "non_msg_type", nil
	case 10:
		m.InnerB64, m.InnerClass, m.InnerJSON = base64.StdEncoding.EncodeToString(g.bytesN(1+g.R.Intn(40))), "garbage", nil
	default:
		// upper-case bech32 is a valid encoding of the same address (BIP-173); kept as its own class
		m.Owner, m.OwnerClass = BStr(strings.ToUpper(string(m.Owner))), "uppercase"
	}
}
