package itx

import (
	"errors"
	"fmt"
	"hash/fnv"
	"strings"
	"time"

	sdk "github.com/cosmos/cosmos-sdk/types"
	capabilitytypes "github.com/cosmos/cosmos-sdk/x/capability/types"
	icatypes "github.com/cosmos/ibc-go/v7/modules/apps/27-interchain-accounts/types"
)

// Scenario scripts what the fakes answer.
type Scenario struct {
	Channel     bool `json:"channel"`      // GetActiveChannelID finds a channel
	Capability  bool `json:"capability"`   // GetCapability finds the capability
	SendErr     bool `json:"send_err"`     // SendTx returns an error
	RegisterErr bool `json:"register_err"` // RegisterInterchainAccount returns an error
}

func (s Scenario) Label() string {
	l := "chan=" + b01(s.Channel) + ",cap=" + b01(s.Capability)
	if s.SendErr {
		l += ",senderr"
	}
	if s.RegisterErr {
		l += ",regerr"
	}
	return l
}

func b01(b bool) string {
	if b {
		return "1"
	}
	return "0"
}

// Script: the scenario that applies to a lookup is chosen by the port id the keeper passes (multi-message
// transactions script each owner separately); any port that is not listed gets Default. A keeper that
// derives a wrong port therefore still reaches SendTx (Default is what single-message cases use).
type Script struct {
	Default Scenario
	ByPort  map[string]Scenario
}

func (s Script) forPort(port string) Scenario {
	if sc, ok := s.ByPort[port]; ok {
		return sc
	}
	return s.Default
}

func (s Script) forCapName(name string) Scenario {
	for p, sc := range s.ByPort {
		if strings.HasPrefix(name, "capabilities/ports/"+p+"/channels/") {
			return sc
		}
	}
	return s.Default
}

// Call is one recorded call on a fake, with every argument.
type Call struct {
	Kind         string // GetActiveChannelID | GetCapability | SendTx | RegisterInterchainAccount | ClaimCapability | GetInterchainAccountAddress
	ConnectionID string
	PortID       string
	Owner        string
	Version      string
	Name         string                      // capability name (GetCapability / ClaimCapability)
	Cap          *capabilitytypes.Capability // SendTx / ClaimCapability argument, GetCapability result
	CapName      string                      // the name for which the fake handed out Cap ("" = not one of ours / nil)
	PacketType   icatypes.Type
	PacketData   []byte
	PacketMemo   string
	Timeout      uint64
	CtxTime      time.Time
	CtxHeight    int64
	CtxChainID   string
	RetString    string
	RetFound     bool
	RetErr       string
}

// Recorder is shared by both fakes: one ordered log.
type Recorder struct {
	script  Script
	calls   []Call
	caps    map[string]*capabilitytypes.Capability
	names   map[*capabilitytypes.Capability]string
	seq     uint64
	capBase uint64
}

func NewRecorder() *Recorder {
	return &Recorder{caps: map[string]*capabilitytypes.Capability{}, names: map[*capabilitytypes.Capability]string{}}
}

func (r *Recorder) Reset(s Script) {
	r.script = s
	r.calls = nil
	// bound the memory of long runs: capability objects only need to outlive one transaction
	if len(r.caps) > 1<<15 {
		r.capBase += uint64(len(r.caps))
		r.caps = map[string]*capabilitytypes.Capability{}
		r.names = map[*capabilitytypes.Capability]string{}
	}
}
func (r *Recorder) Take() []Call { c := r.calls; r.calls = nil; return c }

// CapFor returns THE capability object of a capability name (one distinct object per name).
func (r *Recorder) CapFor(name string) *capabilitytypes.Capability {
	if c, ok := r.caps[name]; ok {
		return c
	}
	c := capabilitytypes.NewCapability(r.capBase + uint64(len(r.caps)) + 1)
	r.caps[name] = c
	r.names[c] = name
	return c
}

func (r *Recorder) nameOf(c *capabilitytypes.Capability) string {
	if c == nil {
		return ""
	}
	return r.names[c]
}

func (r *Recorder) ctxInfo(c *Call, ctx sdk.Context) {
	c.CtxTime = ctx.BlockTime()
	c.CtxHeight = ctx.BlockHeight()
	c.CtxChainID = ctx.ChainID()
}

// ScriptedChannelID is the channel the fake reports for (connection, port) when one is available; a pure
// function so that the oracle can recompute it without looking at the log.
func ScriptedChannelID(connectionID, portID string) string {
	h := fnv.New64a()
	h.Write([]byte(connectionID))
	h.Write([]byte{0})
	h.Write([]byte(portID))
	return fmt.Sprintf("channel-%d", h.Sum64()%100000)
}

// ExpectedCapName is the capability path ibc-go uses for a channel ("capabilities/ports/{p}/channels/{c}").
func ExpectedCapName(portID, channelID string) string {
	return "capabilities/ports/" + portID + "/channels/" + channelID
}

// ---- ICA controller keeper fake ----

type FakeICA struct{ r *Recorder }

func (f *FakeICA) RegisterInterchainAccount(ctx sdk.Context, connectionID, owner, version string) error {
	c := Call{Kind: "RegisterInterchainAccount", ConnectionID: connectionID, Owner: owner, Version: version}
	f.r.ctxInfo(&c, ctx)
	var err error
	if f.r.script.forPort("icacontroller-" + owner).RegisterErr {
		err = errors.New("fake: scripted RegisterInterchainAccount failure")
		c.RetErr = err.Error()
	}
	f.r.calls = append(f.r.calls, c)
	return err
}

func (f *FakeICA) GetActiveChannelID(ctx sdk.Context, connectionID, portID string) (string, bool) {
	c := Call{Kind: "GetActiveChannelID", ConnectionID: connectionID, PortID: portID}
	f.r.ctxInfo(&c, ctx)
	if f.r.script.forPort(portID).Channel {
		c.RetString, c.RetFound = ScriptedChannelID(connectionID, portID), true
	}
	f.r.calls = append(f.r.calls, c)
	return c.RetString, c.RetFound
}

func (f *FakeICA) SendTx(ctx sdk.Context, chanCap *capabilitytypes.Capability, connectionID, portID string, p icatypes.InterchainAccountPacketData, timeoutTimestamp uint64) (uint64, error) {
	c := Call{Kind: "SendTx", ConnectionID: connectionID, PortID: portID, Cap: chanCap, CapName: f.r.nameOf(chanCap),
		PacketType: p.Type, PacketData: append([]byte(nil), p.Data...), PacketMemo: p.Memo, Timeout: timeoutTimestamp}
	f.r.ctxInfo(&c, ctx)
	var err error
	var seq uint64
	if f.r.script.forPort(portID).SendErr {
		err = errors.New("fake: scripted SendTx failure")
		c.RetErr = err.Error()
	} else {
		f.r.seq++
		seq = f.r.seq
	}
	f.r.calls = append(f.r.calls, c)
	return seq, err
}

func (f *FakeICA) GetInterchainAccountAddress(ctx sdk.Context, connectionID string, portID string) (string, bool) {
	c := Call{Kind: "GetInterchainAccountAddress", ConnectionID: connectionID, PortID: portID}
	f.r.ctxInfo(&c, ctx)
	f.r.calls = append(f.r.calls, c)
	return "", false
}

// ---- scoped capability keeper fake ----

type FakeCap struct{ r *Recorder }

func (f *FakeCap) ClaimCapability(ctx sdk.Context, cpb *capabilitytypes.Capability, name string) error {
	c := Call{Kind: "ClaimCapability", Name: name, Cap: cpb, CapName: f.r.nameOf(cpb)}
	f.r.ctxInfo(&c, ctx)
	f.r.calls = append(f.r.calls, c)
	return nil
}

func (f *FakeCap) GetCapability(ctx sdk.Context, name string) (*capabilitytypes.Capability, bool) {
	c := Call{Kind: "GetCapability", Name: name}
	f.r.ctxInfo(&c, ctx)
	if f.r.script.forCapName(name).Capability {
		c.Cap = f.r.CapFor(name)
		c.CapName = name
		c.RetFound = true
	}
	f.r.calls = append(f.r.calls, c)
	return c.Cap, c.RetFound
}
