package itx

import (
	"bytes"
	"encoding/base64"
	"encoding/hex"
	"fmt"
	"math/big"
	"strings"

	"github.com/cosmos/gogoproto/proto"

	codectypes "github.com/cosmos/cosmos-sdk/codec/types"
	sdk "github.com/cosmos/cosmos-sdk/types"
	icatypes "github.com/cosmos/ibc-go/v7/modules/apps/27-interchain-accounts/types"

	intertxv1 "github.com/regen-network/regen-ledger/x/intertx/types/v1"
)

const portPrefix = "icacontroller-" // ICS-27 controller port prefix (checked against ibc-go at start-up)

// Violation is one failed oracle clause.
type Violation struct {
	Clause string `json:"clause"`
	Detail string `json:"detail"`
	MsgIdx int    `json:"msg_index"`
}

func (v Violation) String() string {
	return fmt.Sprintf("[%s] msg#%d: %s", v.Clause, v.MsgIdx, v.Detail)
}

// MsgEval says what the oracle could evaluate for one message of the transaction.
type MsgEval struct {
	Class          string // valid | invalid | empty_conn | undecodable | not_executed
	FullyEvaluated bool
	Cell           string // inner type URL | availability | single/multi   (submit only, when fully evaluated)
	SendCall       *Call  // the SendTx call attributed to this message (if any)
	RegCall        *Call
	TimeoutChecked bool
	PacketDecoded  bool
	NonEmptyMemo   bool
}

type Outcome struct {
	Code       uint32
	Codespace  string
	Log        string
	DecodeOK   bool
	DecodeErr  string
	Calls      []Call
	Evals      []MsgEval
	Violations []Violation
	// counters
	SendTxCalls               int
	UnexpectedUndecodable     bool
	TimeoutUnrepresentable    int
	EmptyConnRejected         int
	NoncanonicalOwnerAccepted int
}

func callsOf(calls []Call, kind string) []*Call {
	var out []*Call
	for i := range calls {
		if calls[i].Kind == kind {
			out = append(out, &calls[i])
		}
	}
	return out
}

// BuildMsgs turns the specs into the intertx messages exactly as a client would put them in a tx: the
// inner message travels as type URL + bytes.
func BuildMsgs(c Case) []sdk.Msg {
	var msgs []sdk.Msg
	for _, m := range c.Msgs {
		switch m.Kind {
		case KindSubmit:
			s := &intertxv1.MsgSubmitTx{Owner: string(m.Owner), ConnectionId: string(m.ConnectionID)}
			if !m.InnerNil {
				s.Msg = &codectypes.Any{TypeUrl: m.InnerTypeURL, Value: m.InnerBytes()}
			}
			msgs = append(msgs, s)
		case KindRegister:
			msgs = append(msgs, &intertxv1.MsgRegisterAccount{Owner: string(m.Owner), ConnectionId: string(m.ConnectionID), Version: string(m.Version)})
		default:
			panic("unknown msg kind " + m.Kind)
		}
	}
	return msgs
}

func ScriptFor(c Case) Script {
	if len(c.Msgs) == 1 {
		return Script{Default: c.Msgs[0].Avail}
	}
	s := Script{Default: Scenario{Channel: true, Capability: true}, ByPort: map[string]Scenario{}}
	for _, m := range c.Msgs {
		s.ByPort[portPrefix+string(m.Owner)] = m.Avail
	}
	return s
}

var two64 = new(big.Int).Lsh(big.NewInt(1), 64)

// expectedTimeout = block time + 60 s in ns since the Unix epoch, by integer arithmetic on the case's
// (seconds, nanos); ok=false when the number is not expressible in the uint64 argument of SendTx.
func expectedTimeout(c Case) (uint64, bool) {
	v := new(big.Int).Mul(big.NewInt(c.BlockTimeSec), big.NewInt(1_000_000_000))
	v.Add(v, big.NewInt(c.BlockTimeNs))
	v.Add(v, big.NewInt(60_000_000_000))
	if v.Sign() < 0 || v.Cmp(two64) >= 0 {
		return 0, false
	}
	return v.Uint64(), true
}

func short(b []byte) string {
	if len(b) > 48 {
		return fmt.Sprintf("%s…(%d bytes)", hex.EncodeToString(b[:48]), len(b))
	}
	return hex.EncodeToString(b)
}

func shortS(s string) string {
	if len(s) > 160 {
		return fmt.Sprintf("%q…(%d bytes)", s[:160], len(s))
	}
	return fmt.Sprintf("%q", s)
}

// RunCase delivers the case's transaction in the currently open block (whose time must be the case's
// block time) and evaluates the C20 oracle on what the fakes recorded.
func RunCase(e *Env, c Case) Outcome {
	var o Outcome
	o.Evals = make([]MsgEval, len(c.Msgs))
	addV := func(i int, clause, f string, a ...interface{}) {
		o.Violations = append(o.Violations, Violation{Clause: clause, Detail: fmt.Sprintf(f, a...), MsgIdx: i})
	}
	multi := len(c.Msgs) > 1
	mode := "single"
	if multi {
		mode = "multi"
	}

	txBytes, err := e.EncodeTx(c.GasLimit, BuildMsgs(c)...)
	if err != nil {
		panic(fmt.Sprintf("harness: cannot encode tx of case %s: %v", c.ID, err))
	}

	// The harness' own decode of the very bytes it delivers (SDK tx decoder + interface registry): tells
	// whether the transaction is expressible on the wire at all, and who its signers are.
	decoded, derr := e.TxCfg.TxDecoder()(txBytes)
	o.DecodeOK = derr == nil
	if derr != nil {
		o.DecodeErr = derr.Error()
	}

	res, calls := e.Deliver(txBytes, ScriptFor(c))
	o.Code, o.Codespace, o.Log, o.Calls = res.Code, res.Codespace, res.Log, calls
	sends := callsOf(calls, "SendTx")
	regs := callsOf(calls, "RegisterInterchainAccount")
	o.SendTxCalls = len(sends)

	if !o.DecodeOK {
		expectedBad := false
		for i, m := range c.Msgs {
			o.Evals[i].Class = "undecodable"
			switch m.InnerClass {
			case "garbage", "unknown_type", "empty_type", "non_msg_type", "oversize_int":
				expectedBad = true
			}
		}
		o.UnexpectedUndecodable = !expectedBad
		if len(sends) != 0 {
			addV(0, "send_from_undecodable_tx", "%d SendTx call(s) although the transaction bytes do not decode (%s)", len(sends), o.DecodeErr)
		}
		if res.Code == 0 {
			addV(0, "undecodable_tx_accepted", "transaction that the tx decoder refuses (%s) was delivered with code 0", o.DecodeErr)
		}
		return o
	}
	dmsgs := decoded.GetMsgs()
	if len(dmsgs) != len(c.Msgs) {
		panic("harness: decoded message count differs")
	}

	anyInvalid := false
	for _, m := range c.Msgs {
		if m.OwnerRawHex == "" || (m.Kind == KindSubmit && m.InnerNil) {
			anyInvalid = true
		}
	}
	if anyInvalid {
		// A message without a well-formed owner has no possible signer, one without an inner message
		// supplies nothing to send: the transaction must fail and (single-message case) send nothing.
		for i := range c.Msgs {
			o.Evals[i].Class = "invalid"
		}
		if res.Code == 0 {
			addV(0, "invalid_message_accepted", "transaction with a malformed owner / missing inner message was delivered with code 0")
		}
		if !multi && len(sends) != 0 {
			addV(0, "send_from_invalid_message", "%d SendTx call(s) for a message with malformed owner / missing inner message", len(sends))
		}
		if !multi && len(regs) != 0 && c.Msgs[0].Kind == KindRegister {
			addV(0, "register_from_invalid_message", "%d RegisterInterchainAccount call(s) for a message with malformed owner", len(regs))
		}
		return o
	}

	// The property says nothing about an empty connection id: rejecting such a transaction up front is
	// fine; if it is processed instead, the ordinary clauses apply to whatever is sent.
	for _, m := range c.Msgs {
		if m.ConnectionID == "" && res.Code != 0 && len(sends) == 0 && len(regs) == 0 {
			for i := range c.Msgs {
				o.Evals[i].Class = "empty_conn"
			}
			o.EmptyConnRejected++
			return o
		}
	}

	sendIdx, regIdx := 0, 0
	stopped, expectFail := false, false
	for i, m := range c.Msgs {
		ev := &o.Evals[i]
		if stopped {
			ev.Class = "not_executed"
			continue
		}
		ev.Class = "valid"
		raw, herr := hex.DecodeString(m.OwnerRawHex)
		if herr != nil {
			panic("harness: bad owner_raw_hex")
		}
		// signer = owner, and the only one
		signers := dmsgs[i].GetSigners()
		if len(signers) != 1 {
			addV(i, "signer", "message has %d required signers, want exactly 1 (the owner)", len(signers))
		} else if !bytes.Equal(signers[0], raw) {
			addV(i, "signer", "required signer %X is not the owner %X", []byte(signers[0]), raw)
		}
		owner := string(m.Owner)
		if m.OwnerClass == "uppercase" {
			o.NoncanonicalOwnerAccepted++
		}
		conn := string(m.ConnectionID)
		if conn == "" {
			ev.Class = "empty_conn"
		}

		if m.Kind == KindRegister {
			if regIdx >= len(regs) {
				addV(i, "register_call_missing", "no RegisterInterchainAccount call for MsgRegisterAccount(owner=%s)", shortS(owner))
				stopped = true
				continue
			}
			rc := regs[regIdx]
			regIdx++
			ev.RegCall = rc
			if rc.Owner != owner {
				addV(i, "register_owner", "RegisterInterchainAccount owner %s, message owner %s", shortS(rc.Owner), shortS(owner))
			}
			if rc.ConnectionID != conn {
				addV(i, "register_connection", "RegisterInterchainAccount connection %s, message connection %s", shortS(rc.ConnectionID), shortS(conn))
			}
			if rc.Version != string(m.Version) {
				addV(i, "register_version", "RegisterInterchainAccount version %s, message version %s", shortS(rc.Version), shortS(string(m.Version)))
			}
			ev.FullyEvaluated = true
			if m.Avail.RegisterErr {
				expectFail, stopped = true, true
			}
			continue
		}

		// ---- MsgSubmitTx ----
		wantPort := portPrefix + owner
		if !m.Avail.Channel || !m.Avail.Capability {
			// sends nothing when no active channel or channel capability exists
			if sendIdx < len(sends) {
				addV(i, "send_without_channel_or_capability", "%d SendTx call(s) although %s (port %s)", len(sends)-sendIdx, m.Avail.Label(), shortS(sends[sendIdx].PortID))
				sendIdx = len(sends)
			}
			expectFail, stopped = true, true
			ev.FullyEvaluated = true
			ev.Cell = m.InnerTypeURL + "|" + m.Avail.Label() + "|" + mode
			continue
		}
		if sendIdx >= len(sends) {
			addV(i, "send_missing", "no SendTx call although channel and capability exist (owner %s, result code %d, log %s)", shortS(owner), res.Code, shortS(res.Log))
			stopped = true
			continue
		}
		sc := sends[sendIdx]
		sendIdx++
		ev.SendCall = sc

		if sc.PortID != wantPort {
			addV(i, "port", "SendTx port %s, want %s (controller port of the signer/owner)", shortS(sc.PortID), shortS(wantPort))
		}
		if m.OwnerClass == "canonical" {
			if can := portPrefix + sdk.AccAddress(raw).String(); wantPort != can {
				panic("harness: canonical owner string is not the bech32 of its raw bytes")
			}
		}
		if sc.ConnectionID != conn {
			addV(i, "connection", "SendTx connection %s, message connection %s", shortS(sc.ConnectionID), shortS(conn))
		}
		wantCapName := ExpectedCapName(wantPort, ScriptedChannelID(conn, wantPort))
		wantCap := e.Rec.CapFor(wantCapName)
		if sc.Cap == nil {
			addV(i, "capability", "SendTx called with a nil capability")
		} else if sc.Cap != wantCap {
			addV(i, "capability", "SendTx capability is the one of %s, want the one of %s", shortS(sc.CapName), shortS(wantCapName))
		}
		if sc.PacketType != icatypes.EXECUTE_TX {
			addV(i, "packet_type", "packet type %s, want EXECUTE_TX", sc.PacketType.String())
		}
		if want, ok := expectedTimeout(c); ok {
			ev.TimeoutChecked = true
			if sc.Timeout != want {
				addV(i, "timeout", "timeout %d, want block time %s + 60 s = %d (difference %s ns)", sc.Timeout, c.BlockTimeStr, want,
					new(big.Int).Sub(new(big.Int).SetUint64(sc.Timeout), new(big.Int).SetUint64(want)).String())
			}
		} else {
			o.TimeoutUnrepresentable++
		}
		if sc.PacketMemo != "" {
			ev.NonEmptyMemo = true
		}

		// the packet carries exactly the submitted message
		wantBytes := m.InnerBytes()
		if m.InnerClass != "canonical" {
			// deliberately arbitrary bytes that happen to decode: compare with the canonical encoding of
			// what the harness' own decode of the submitted bytes yields
			if st, ok := dmsgs[i].(*intertxv1.MsgSubmitTx); ok && st.Msg != nil {
				if pm, ok := st.Msg.GetCachedValue().(proto.Message); ok {
					if bz, err := proto.Marshal(pm); err == nil {
						wantBytes = bz
					}
				}
			}
		}
		var ctx icatypes.CosmosTx
		if err := proto.Unmarshal(sc.PacketData, &ctx); err != nil {
			addV(i, "packet_data", "packet data is not a CosmosTx: %v", err)
		} else {
			if len(ctx.Messages) != 1 {
				addV(i, "packet_single_message", "packet carries %d messages, want exactly 1", len(ctx.Messages))
			}
			for j, a := range ctx.Messages {
				if a.TypeUrl != m.InnerTypeURL {
					addV(i, "packet_type_url", "packet message %d has type URL %s, submitted %s", j, shortS(a.TypeUrl), shortS(m.InnerTypeURL))
				}
				if !bytes.Equal(a.Value, wantBytes) {
					addV(i, "packet_message_bytes", "packet message %d bytes %s differ from the submitted inner message %s", j, short(a.Value), short(wantBytes))
				}
			}
		}
		dm, err := icatypes.DeserializeCosmosTx(e.Cdc, sc.PacketData)
		if err != nil {
			addV(i, "packet_deserialize", "DeserializeCosmosTx fails on the packet data: %v", err)
		} else {
			ev.PacketDecoded = true
			if len(dm) != 1 {
				addV(i, "packet_single_message", "DeserializeCosmosTx yields %d messages, want exactly 1", len(dm))
			}
			for j, x := range dm {
				if url := "/" + proto.MessageName(x); url != m.InnerTypeURL {
					addV(i, "packet_type_url", "deserialized message %d is %s, submitted %s", j, url, m.InnerTypeURL)
				}
				bz, err := proto.Marshal(x)
				if err != nil {
					addV(i, "packet_message_bytes", "deserialized message %d does not marshal: %v", j, err)
				} else if !bytes.Equal(bz, wantBytes) {
					addV(i, "packet_message_bytes", "deserialized message %d marshals to %s, submitted %s", j, short(bz), short(wantBytes))
				}
			}
		}
		ev.FullyEvaluated = true
		ev.Cell = m.InnerTypeURL + "|" + m.Avail.Label() + "|" + mode
		if m.Avail.SendErr {
			expectFail, stopped = true, true
		}
	}
	if sendIdx < len(sends) {
		addV(len(c.Msgs)-1, "extra_send", "%d SendTx call(s) more than messages that may send (first extra: port %s)", len(sends)-sendIdx, shortS(sends[sendIdx].PortID))
	}
	if regIdx < len(regs) {
		addV(len(c.Msgs)-1, "extra_register", "%d RegisterInterchainAccount call(s) more than MsgRegisterAccount messages executed", len(regs)-regIdx)
	}
	if expectFail && res.Code == 0 {
		addV(len(c.Msgs)-1, "tx_must_fail", "transaction delivered with code 0 although a message had %s", failReason(c))
	}
	if !expectFail && res.Code != 0 {
		addV(len(c.Msgs)-1, "tx_must_succeed", "transaction failed (codespace %s code %d: %s) although channel and capability exist and the fakes returned no error", res.Codespace, res.Code, shortS(res.Log))
	}
	return o
}

func failReason(c Case) string {
	var r []string
	for _, m := range c.Msgs {
		r = append(r, m.Avail.Label())
	}
	return strings.Join(r, " ; ")
}

// ---- JSON views of recorded calls (evidence samples, replay files) ----

type CallJSON struct {
	Kind         string `json:"kind"`
	ConnectionID BStr   `json:"connection_id,omitempty"`
	PortID       BStr   `json:"port_id,omitempty"`
	Owner        BStr   `json:"owner,omitempty"`
	Version      BStr   `json:"version,omitempty"`
	Name         BStr   `json:"capability_name,omitempty"`
	CapName      BStr   `json:"capability_passed_is_the_one_of,omitempty"`
	CapNil       bool   `json:"capability_nil,omitempty"`
	PacketType   string `json:"packet_type,omitempty"`
	PacketData   string `json:"packet_data_b64,omitempty"`
	PacketMemo   BStr   `json:"packet_memo,omitempty"`
	Timeout      uint64 `json:"timeout_ns,omitempty"`
	CtxTime      string `json:"ctx_block_time"`
	CtxHeight    int64  `json:"ctx_height"`
	RetString    string `json:"returned,omitempty"`
	RetFound     bool   `json:"returned_found,omitempty"`
	RetErr       string `json:"returned_error,omitempty"`
}

func CallsJSON(calls []Call) []CallJSON {
	out := make([]CallJSON, 0, len(calls))
	for _, c := range calls {
		j := CallJSON{Kind: c.Kind, ConnectionID: BStr(c.ConnectionID), PortID: BStr(c.PortID), Owner: BStr(c.Owner), Version: BStr(c.Version),
			Name: BStr(c.Name), CapName: BStr(c.CapName), PacketMemo: BStr(c.PacketMemo), Timeout: c.Timeout,
			CtxTime: c.CtxTime.UTC().Format("2006-01-02T15:04:05.999999999Z07:00"), CtxHeight: c.CtxHeight,
			RetString: c.RetString, RetFound: c.RetFound, RetErr: c.RetErr}
		if c.Kind == "SendTx" {
			j.PacketType = c.PacketType.String()
			j.PacketData = base64.StdEncoding.EncodeToString(c.PacketData)
			j.CapNil = c.Cap == nil
		}
		out = append(out, j)
	}
	return out
}
