// Package itx wires a real BaseApp around the real x/intertx MsgServer of /repo, with the keeper's two
// expected keepers (ICA controller keeper, scoped capability keeper) replaced by recording fakes, and
// decides property C20 by runtime monitoring (see /verif/DESIGN.md §5).
package itx

import (
	"fmt"
	"time"

	dbm "github.com/cometbft/cometbft-db"
	abci "github.com/cometbft/cometbft/abci/types"
	"github.com/cometbft/cometbft/libs/log"
	tmproto "github.com/cometbft/cometbft/proto/tendermint/types"

	"github.com/cosmos/cosmos-sdk/baseapp"
	"github.com/cosmos/cosmos-sdk/client"
	"github.com/cosmos/cosmos-sdk/codec"
	codectypes "github.com/cosmos/cosmos-sdk/codec/types"
	"github.com/cosmos/cosmos-sdk/std"
	storetypes "github.com/cosmos/cosmos-sdk/store/types"
	sdk "github.com/cosmos/cosmos-sdk/types"
	"github.com/cosmos/cosmos-sdk/types/module"
	"github.com/cosmos/cosmos-sdk/x/auth/ante"
	authtx "github.com/cosmos/cosmos-sdk/x/auth/tx"
	authtypes "github.com/cosmos/cosmos-sdk/x/auth/types"
	vestingtypes "github.com/cosmos/cosmos-sdk/x/auth/vesting/types"
	authztypes "github.com/cosmos/cosmos-sdk/x/authz"
	banktypes "github.com/cosmos/cosmos-sdk/x/bank/types"
	consensustypes "github.com/cosmos/cosmos-sdk/x/consensus/types"
	crisistypes "github.com/cosmos/cosmos-sdk/x/crisis/types"
	distrtypes "github.com/cosmos/cosmos-sdk/x/distribution/types"
	evidencetypes "github.com/cosmos/cosmos-sdk/x/evidence/types"
	feegranttypes "github.com/cosmos/cosmos-sdk/x/feegrant"
	govv1 "github.com/cosmos/cosmos-sdk/x/gov/types/v1"
	govv1beta1 "github.com/cosmos/cosmos-sdk/x/gov/types/v1beta1"
	grouptypes "github.com/cosmos/cosmos-sdk/x/group"
	minttypes "github.com/cosmos/cosmos-sdk/x/mint/types"
	nfttypes "github.com/cosmos/cosmos-sdk/x/nft"
	paramsproposal "github.com/cosmos/cosmos-sdk/x/params/types/proposal"
	slashingtypes "github.com/cosmos/cosmos-sdk/x/slashing/types"
	stakingtypes "github.com/cosmos/cosmos-sdk/x/staking/types"
	upgradetypes "github.com/cosmos/cosmos-sdk/x/upgrade/types"
	icacontrollertypes "github.com/cosmos/ibc-go/v7/modules/apps/27-interchain-accounts/controller/types"
	icatypes "github.com/cosmos/ibc-go/v7/modules/apps/27-interchain-accounts/types"
	ibctransfertypes "github.com/cosmos/ibc-go/v7/modules/apps/transfer/types"

	intertxkeeper "github.com/regen-network/regen-ledger/x/intertx/keeper"
	intertxmodule "github.com/regen-network/regen-ledger/x/intertx/module"
)

const (
	ChainID      = "verif-intertx-1"
	Bech32Prefix = "regen"
	dummyStore   = "verifdummy"
)

func init() {
	cfg := sdk.GetConfig()
	cfg.SetBech32PrefixForAccount(Bech32Prefix, Bech32Prefix+"pub")
	cfg.SetBech32PrefixForValidator(Bech32Prefix+"valoper", Bech32Prefix+"valoperpub")
	cfg.SetBech32PrefixForConsensusNode(Bech32Prefix+"valcons", Bech32Prefix+"valconspub")
}

// Env is one node: BaseApp + codec + the recording fakes.
type Env struct {
	IR    codectypes.InterfaceRegistry
	Cdc   *codec.ProtoCodec
	TxCfg client.TxConfig
	BA    *baseapp.BaseApp
	Rec   *Recorder

	Height  int64
	inBlock bool
	header  tmproto.Header
}

// RegisterAllInterfaces registers the intertx types and the sdk.Msg types of every SDK / ibc-go module
// available in the intertx module's own dependency set.
func RegisterAllInterfaces(ir codectypes.InterfaceRegistry) {
	std.RegisterInterfaces(ir) // sdk.Msg, tx, crypto keys
	authtypes.RegisterInterfaces(ir)
	vestingtypes.RegisterInterfaces(ir)
	authztypes.RegisterInterfaces(ir)
	banktypes.RegisterInterfaces(ir)
	consensustypes.RegisterInterfaces(ir)
	crisistypes.RegisterInterfaces(ir)
	distrtypes.RegisterInterfaces(ir)
	evidencetypes.RegisterInterfaces(ir)
	feegranttypes.RegisterInterfaces(ir)
	govv1.RegisterInterfaces(ir)
	govv1beta1.RegisterInterfaces(ir)
	grouptypes.RegisterInterfaces(ir)
	minttypes.RegisterInterfaces(ir)
	nfttypes.RegisterInterfaces(ir)
	paramsproposal.RegisterInterfaces(ir)
	slashingtypes.RegisterInterfaces(ir)
	stakingtypes.RegisterInterfaces(ir)
	upgradetypes.RegisterInterfaces(ir)
	icatypes.RegisterInterfaces(ir)
	icacontrollertypes.RegisterInterfaces(ir)
	ibctransfertypes.RegisterInterfaces(ir)
}

func NewEnv() *Env {
	e := &Env{Rec: NewRecorder()}
	e.IR = codectypes.NewInterfaceRegistry()
	e.Cdc = codec.NewProtoCodec(e.IR)
	RegisterAllInterfaces(e.IR)
	e.TxCfg = authtx.NewTxConfig(e.Cdc, authtx.DefaultSignModes)

	// the real keeper over the fakes, registered through the module's own RegisterServices
	k := intertxkeeper.NewKeeper(e.Cdc, &FakeICA{r: e.Rec}, &FakeCap{r: e.Rec})
	mod := intertxmodule.NewModule(k)
	mod.RegisterInterfaces(e.IR)

	db := dbm.NewMemDB()
	e.BA = baseapp.NewBaseApp("vintertx", log.NewNopLogger(), db, e.TxCfg.TxDecoder(), baseapp.SetChainID(ChainID))
	e.BA.SetInterfaceRegistry(e.IR)
	// x/intertx has no store of its own; the multistore wants at least one mounted store.
	e.BA.MountStores(storetypes.NewKVStoreKey(dummyStore))

	cfg := module.NewConfigurator(e.Cdc, e.BA.MsgServiceRouter(), e.BA.GRPCQueryRouter())
	mod.RegisterServices(cfg)

	e.BA.SetInitChainer(func(ctx sdk.Context, req abci.RequestInitChain) abci.ResponseInitChain {
		return abci.ResponseInitChain{}
	})
	e.BA.SetBeginBlocker(func(ctx sdk.Context, req abci.RequestBeginBlock) abci.ResponseBeginBlock {
		return abci.ResponseBeginBlock{}
	})
	e.BA.SetEndBlocker(func(ctx sdk.Context, req abci.RequestEndBlock) abci.ResponseEndBlock {
		return abci.ResponseEndBlock{}
	})
	e.BA.SetAnteHandler(sdk.ChainAnteDecorators(ante.NewSetUpContextDecorator()))
	if err := e.BA.LoadLatestVersion(); err != nil {
		panic(err)
	}
	e.BA.InitChain(abci.RequestInitChain{
		ChainId:       ChainID,
		Time:          time.Date(2000, 1, 1, 0, 0, 0, 0, time.UTC),
		AppStateBytes: []byte("{}"),
		InitialHeight: 1,
	})
	return e
}

// BeginBlock opens the next block with the given (UTC) time.
func (e *Env) BeginBlock(t time.Time) {
	if e.inBlock {
		panic("BeginBlock inside a block")
	}
	e.Height++
	e.header = tmproto.Header{ChainID: ChainID, Height: e.Height, Time: t.UTC()}
	e.BA.BeginBlock(abci.RequestBeginBlock{Header: e.header})
	e.inBlock = true
}

func (e *Env) EndBlock() {
	if !e.inBlock {
		panic("EndBlock outside a block")
	}
	e.BA.EndBlock(abci.RequestEndBlock{Height: e.Height})
	e.BA.Commit()
	e.inBlock = false
}

// Deliver delivers encoded tx bytes and returns the result together with every call the fakes saw.
func (e *Env) Deliver(txBytes []byte, script Script) (abci.ResponseDeliverTx, []Call) {
	if !e.inBlock {
		panic("Deliver outside a block")
	}
	e.Rec.Reset(script)
	res := e.BA.DeliverTx(abci.RequestDeliverTx{Tx: txBytes})
	calls := e.Rec.Take()
	return res, calls
}

// EncodeTx builds and encodes an (unsigned) transaction; the ante chain has no signature decorator.
func (e *Env) EncodeTx(gas uint64, msgs ...sdk.Msg) ([]byte, error) {
	b := e.TxCfg.NewTxBuilder()
	if err := b.SetMsgs(msgs...); err != nil {
		return nil, fmt.Errorf("SetMsgs: %w", err)
	}
	b.SetGasLimit(gas)
	return e.TxCfg.TxEncoder()(b.GetTx())
}
