#!/bin/bash
# Runs the repository's pinned baseline suite with the verif guard OFF (no -tags verif).
# The root module's app package is known not to build in this sandbox (emptied statik.go); only the
# stable_pass tests of /root/.vp/BASELINE.json count.
export GOFLAGS=-mod=mod GOPROXY=off GOSUMDB=off GOTOOLCHAIN=local
rc=0
for m in . api types x/data x/ecocredit x/intertx; do
  (cd /repo/$m && go test -vet=off -count=1 -timeout 25m ./... 2>&1) | grep -v "no test files" || true
done
exit $rc
