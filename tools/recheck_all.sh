#!/bin/bash
# usage: tools/recheck_all.sh [parallel jobs]   re-run the owning quick check of every seeded change (scratch copies only)
# against the current machinery at VERIF_SEED (default 1); results go to each meta.json ("checks") and to stdout.
cd "$(dirname "$0")/.." || exit 1
J=${1:-5}
mkdir -p /tmp/seedlogs/recheck
ls seeded | xargs -P "$J" -I{} sh -c 'python3 tools/seeded.py check {} quick > /tmp/seedlogs/recheck/{}.log 2>&1; tail -n 1 /tmp/seedlogs/recheck/{}.log | cut -c1-160'
