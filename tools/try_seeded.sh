#!/bin/bash
# usage: tools/try_seeded.sh <patch.diff> <tier> <check-id>...
# applies a seeded change to /repo, runs the given checks, always undoes the change afterwards.
patch=$1; tier=$2; shift 2
cd /repo || exit 1
if ! git diff --quiet; then echo "/repo has uncommitted changes; refusing"; exit 2; fi
if ! git apply --check "$patch" 2>/dev/null; then echo "patch does not apply"; exit 2; fi
git apply "$patch"
trap 'git -C /repo checkout -- . ; git -C /repo clean -fdq -- x types api 2>/dev/null' EXIT
cd /verif
for id in "$@"; do
  start=$(date +%s)
  out=$(./check $id $tier 2>&1); rc=$?
  end=$(date +%s)
  echo "$id rc=$rc violations=$(echo "$out" | grep -c '^VIOLATION') wall=$((end-start))s"
  echo "$out" | grep '^# violation' | cut -c1-420 | head -3 | sed 's/^/    /'
  if [ $rc -eq 2 ]; then echo "$out" | grep -i 'INCONCLUSIVE' | cut -c1-400 | head -3 | sed 's/^/    /'; fi
done
