#!/bin/bash
# usage: tools/seed_in.sh <prop> <seeded id> [extra checks...]   import an agent's OUT dir, run checks, verify in background
p=$1; sid=$2; shift 2
cd /verif
python3 tools/seeded.py import ${SEEDBASE:-/tmp/seed}/$p/OUT $sid || exit 1
nohup python3 tools/seeded.py verify $sid > /tmp/seedlogs/verify-$sid.log 2>&1 &
python3 tools/seeded.py check $sid quick $p "$@"
git -C /repo worktree remove --force ${SEEDBASE:-/tmp/seed}/$p 2>/dev/null
