#!/usr/bin/env python3
"""Seeded-change workflow.

  seeded.py import  <agent OUT dir> <seeded id>      copy patch/demo/meta into /verif/seeded/<id>/
  seeded.py verify  <seeded id>                      in a scratch git worktree of /repo (removed afterwards): patch applies,
                                                     touched modules build, their EXISTING tests pass, demo fails with / passes without
  seeded.py check   <seeded id> <tier> [Cxx ...]     scratch COPY of /repo + private copy of the harness (-modfile): run the checks
                                                     (default: the property the change breaks); /repo itself is never touched
Results are appended to /verif/seeded/<id>/meta.json ("verified", "checks").
"""
import json, os, shutil, subprocess, sys, tempfile, time, glob

ENV = dict(os.environ, GOFLAGS="-mod=mod", GOPROXY="off", GOSUMDB="off", GOTOOLCHAIN="local")
ROOT = "/verif/seeded"


def sh(cmd, cwd=None, timeout=7200):
    return subprocess.run(cmd, shell=True, cwd=cwd, env=ENV, stdout=subprocess.PIPE, stderr=subprocess.STDOUT, text=True, errors="replace", timeout=timeout)


def load(sid):
    return json.load(open(f"{ROOT}/{sid}/meta.json"))


def save(sid, m):
    json.dump(m, open(f"{ROOT}/{sid}/meta.json", "w"), indent=1)


def modules_touched(patch):
    mods = set()
    for l in open(patch):
        if l.startswith("+++ b/"):
            f = l[6:].strip()
            for m in ("x/ecocredit", "x/data", "x/intertx", "types", "api"):
                if f.startswith(m + "/"):
                    mods.add(m)
    if "types" in mods:
        mods.update(["x/ecocredit", "x/data"])
    return sorted(mods)


def cmd_import(src, sid):
    d = f"{ROOT}/{sid}"
    os.makedirs(d, exist_ok=True)
    for f in glob.glob(src + "/*"):
        if os.path.isfile(f):
            shutil.copy(f, d)
    m = json.load(open(d + "/meta.json"))
    m["id"] = sid
    save(sid, m)
    print("imported", sid, m.get("summary", "")[:120])


def cmd_verify(sid):
    m = load(sid)
    d = f"{ROOT}/{sid}"
    wt = tempfile.mkdtemp(prefix="seedverify-")
    os.rmdir(wt)
    r = sh(f"git -C /repo worktree add --detach {wt} HEAD")
    res = {"commit": sh("git -C /repo rev-parse --short HEAD").stdout.strip(), "when": time.strftime("%Y-%m-%dT%H:%M:%SZ", time.gmtime())}
    try:
        a = sh(f"git apply --check {d}/patch.diff", cwd=wt)
        res["patch_applies"] = a.returncode == 0
        if a.returncode != 0:
            res["error"] = a.stdout[-400:]
            return res
        # no test or feature files in the patch
        bad = [l for l in open(f"{d}/patch.diff") if l.startswith("+++ b/") and (l.strip().endswith("_test.go") or l.strip().endswith(".feature"))]
        res["patch_touches_tests"] = bool(bad)
        mods = modules_touched(f"{d}/patch.diff")
        res["modules"] = mods
        place = m.get("demo_place_at")
        demo_files = [f for f in os.listdir(d) if f.endswith(".go")]
        demo_cmd = m.get("demo_cmd", "")

        def run_demo():
            # place demo file(s)
            placed = []
            for f in demo_files:
                dst = place if place and place.endswith(".go") and len(demo_files) == 1 else os.path.join(place or ".", f)
                dst = os.path.join(wt, dst)
                os.makedirs(os.path.dirname(dst), exist_ok=True)
                shutil.copy(f"{d}/{f}", dst)
                placed.append(dst)
            c = demo_cmd.replace(m.get("worktree", "/nonexistent"), wt)
            import re
            c = re.sub(r"/tmp/seed\d*/C\d\d", wt, c)
            r = sh(c, cwd=wt, timeout=1800)
            for p in placed:
                os.remove(p)
            return r

        # WITHOUT the change: demo passes
        r0 = run_demo()
        res["demo_passes_without_change"] = r0.returncode == 0
        res["demo_without_tail"] = r0.stdout[-300:]
        sh(f"git apply {d}/patch.diff", cwd=wt)
        # builds + existing tests pass
        ok = True
        tests = []
        for mod in mods:
            b = sh("go build ./...", cwd=f"{wt}/{mod}")
            t = sh("go test -vet=off -count=1 ./... 2>&1 | grep -v 'no test files' | tail -40", cwd=f"{wt}/{mod}", timeout=3600)
            failed = [l for l in t.stdout.splitlines() if l.startswith("FAIL") or l.startswith("--- FAIL") or "panic:" in l]
            tests.append({"module": mod, "build_ok": b.returncode == 0, "tests_ok": not failed, "fail_lines": failed[:5]})
            ok = ok and b.returncode == 0 and not failed
        res["existing_tests"] = tests
        res["compiles_and_existing_tests_pass"] = ok
        r1 = run_demo()
        res["demo_fails_with_change"] = r1.returncode != 0
        res["demo_with_tail"] = r1.stdout[-300:]
        res["confirmed"] = bool(res["patch_applies"] and not res["patch_touches_tests"] and ok and res["demo_fails_with_change"] and res["demo_passes_without_change"])
        return res
    finally:
        m = load(sid)  # re-read: a concurrent `check` may have written meanwhile
        m["verified"] = res
        save(sid, m)
        sh(f"git -C /repo worktree remove --force {wt}")
        shutil.rmtree(wt, ignore_errors=True)
        print(json.dumps({k: v for k, v in res.items() if "tail" not in k}, indent=1))


def cmd_check(sid, tier, props):
    m = load(sid)
    d = f"{ROOT}/{sid}"
    props = props or [m["property"]]
    scratch = tempfile.mkdtemp(prefix="seedcheck-")
    out = []
    try:
        os.makedirs(scratch + "/repo")
        for x in ("api", "types", "x"):
            sh(f"rsync -a --exclude .git /repo/{x} {scratch}/repo/")
        p = sh(f"patch -p1 -s -d {scratch}/repo < {d}/patch.diff")
        if p.returncode != 0:
            print("patch failed", p.stdout)
            return
        excl = ""
        sh(f"rsync -a {excl} /verif/harness /verif/harness-intertx {scratch}/")
        for h in ("harness", "harness-intertx"):
            mod = open(f"{scratch}/{h}/go.mod").read().replace("=> /repo/", f"=> {scratch}/repo/")
            open(f"{scratch}/{h}/go.mod", "w").write(mod)
        b = sh(f"go build -tags verif -o {scratch}/bin/vrun ./cmd/vrun && go build -tags verif -o {scratch}/bin/vreplay ./cmd/vreplay && go build -tags verif -o {scratch}/bin/vpure ./cmd/vpure", cwd=f"{scratch}/harness")
        if b.returncode != 0:
            print("harness build failed:", b.stdout[-600:])
            return
        for prop in props:
            t0 = time.time()
            if prop == "C20":
                sh(f"go build -tags verif -o {scratch}/bin/vintertx ./cmd/vintertx", cwd=f"{scratch}/harness-intertx")
                binp = "vintertx"
            elif prop == "C19":
                binp = "vpure"
            else:
                binp = "vrun"
            if prop == "C10":
                sh(f"go build -race -tags verif -o {scratch}/bin/vrace ./cmd/vreplay", cwd=f"{scratch}/harness")
            cmd = f"{scratch}/bin/{binp} -prop {prop} -tier {tier} -seed {os.environ.get('VERIF_SEED', '1')} -evidence {scratch}/ev-{prop}.json -replaydir {scratch}/replay -known /verif/known_findings.json"
            if os.environ.get("SEED_ARGS"):
                cmd += " " + os.environ["SEED_ARGS"]
            if os.environ.get("SEED_STEPS"):
                cmd += f" -steps {os.environ['SEED_STEPS']}"
            if prop == "C15":
                cmd = f"{scratch}/bin/vpure -prop C15 -tier {tier} -seed 1 -evidence {scratch}/pure.json -replaydir {scratch}/replay -known /verif/known_findings.json; r1=$?; VERIF_C15_PURE={scratch}/pure.json " + cmd + "; r2=$?; [ $r1 -eq 1 -o $r2 -eq 1 ] && exit 1; exit $r2"
            r = sh(cmd, timeout=7200)
            nv = sum(1 for l in r.stdout.splitlines() if l.startswith("VIOLATION"))
            first = next((l for l in r.stdout.splitlines() if l.startswith("# violation")), "")[:300]
            verdict = "CAUGHT" if r.returncode == 1 and nv > 0 else ("INCONCLUSIVE" if r.returncode == 2 else "MISSED")
            rec = {"check": prop, "tier": tier, "seed": int(os.environ.get("VERIF_SEED", "1")), "verdict": verdict, "violation_lines": nv, "first_report": first, "wall_s": round(time.time() - t0)}
            if verdict != "CAUGHT":
                rec["tail"] = r.stdout[-300:]
            out.append(rec)
            print(sid, prop, tier, verdict, f"{time.time()-t0:.0f}s", first[:220], flush=True)
    finally:
        m = load(sid)  # re-read: a concurrent `verify` may have written meanwhile
        m.setdefault("checks", [])
        m["checks"] = [c for c in m["checks"] if not any(c["check"] == o["check"] and c["tier"] == o["tier"] and c.get("seed", 1) == o["seed"] for o in out)] + out
        save(sid, m)
        shutil.rmtree(scratch, ignore_errors=True)


if __name__ == "__main__":
    a = sys.argv[1:]
    if a[0] == "import":
        cmd_import(a[1], a[2])
    elif a[0] == "verify":
        cmd_verify(a[1])
    elif a[0] == "check":
        cmd_check(a[1], a[2], a[3:])
