#!/usr/bin/env python3
"""Prints the seeded-change table (markdown) from /verif/seeded/*/meta.json."""
import json, glob, os
rows = []
for f in sorted(glob.glob('/verif/seeded/*/meta.json')):
    m = json.load(open(f))
    sid = m.get('id', os.path.basename(os.path.dirname(f)))
    v = m.get('verified', {})
    checks = m.get('checks', [])
    caught = [f"{c['check']} ({c['tier']})" for c in checks if c['verdict'] == 'CAUGHT']
    missed = [f"{c['check']} ({c['tier']})" for c in checks if c['verdict'] != 'CAUGHT']
    rows.append((sid, m['property'], m.get('summary', '').split('. ')[0][:150], m.get('needs_to_manifest', '')[:170], 'yes' if v.get('confirmed') else 'NO', ', '.join(caught) or '–', ', '.join(missed) or '–'))
print('| id | breaks | change | needs to manifest | confirmed | caught by | not caught by |')
print('|---|---|---|---|---|---|---|')
for r in rows:
    print('| ' + ' | '.join(x.replace('|', '/').replace('\n', ' ') for x in r) + ' |')
