#!/usr/bin/env python3
"""Prints the seeded-change table (markdown) from /verif/seeded/*/meta.json."""
import json, glob, os
rows = []
for f in sorted(glob.glob('/verif/seeded/*/meta.json')):
    m = json.load(open(f))
    sid = m.get('id', os.path.basename(os.path.dirname(f)))
    v = m.get('verified', {})
    checks = m.get('checks', [])
    def fmt(sel):
        by = {}
        for c in checks:
            if sel(c):
                by.setdefault((c['check'], c['tier']), []).append(c.get('seed', 1))
        own = m['property']
        keys = sorted(by, key=lambda k: (k[0] != own, k[0], k[1]))
        return ', '.join(f"{k[0]} ({k[1]}, seed{'s' if len(by[k]) > 1 else ''} {','.join(str(x) for x in sorted(set(by[k])))})" for k in keys)
    caught = fmt(lambda c: c['verdict'] == 'CAUGHT')
    missed = fmt(lambda c: c['verdict'] != 'CAUGHT')
    rows.append((sid, m['property'], m.get('summary', '').split('. ')[0][:150], m.get('needs_to_manifest', '')[:170], 'yes' if v.get('confirmed') else 'NO', caught or '–', missed or '–'))
print('| id | breaks | change | needs to manifest | confirmed | caught by | not caught by |')
print('|---|---|---|---|---|---|---|')
for r in rows:
    print('| ' + ' | '.join(x.replace('|', '/').replace('\n', ' ') for x in r) + ' |')
