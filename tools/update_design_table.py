#!/usr/bin/env python3
"""Refreshes the seeded-change table of DESIGN.md §9.3 from /verif/seeded/*/meta.json."""
import subprocess
t = subprocess.run(["python3", "/verif/tools/seeded_report.py"], stdout=subprocess.PIPE, text=True).stdout
p = "/verif/DESIGN.md"
s = open(p).read()
a = s.index("<!-- seeded-table-begin -->") + len("<!-- seeded-table-begin -->\n")
b = s.index("<!-- seeded-table-end -->")
open(p, "w").write(s[:a] + t + s[b:])
