#!/usr/bin/env python3
"""Generates /verif/MANIFEST.json from the table below (single source of truth for the interface)."""
import json, subprocess

HOOK_COMMITS = ["f93d97b6e"]

CHECKS = {
 "C01": ("exploration", "chain harness + online conservation monitor (exact big.Rat scan + chain's own invariant every step)", "§2 C01",
         "Hostile all-message histories on the real BaseApp/bank/ecocredit wiring; after genesis, every BeginBlock and every DeliverTx (successful or failed) the three ledgers are summed exactly per batch and compared with supply, every stored amount is checked for form/precision and the registered batch-supply invariant is evaluated on the same state. Held-on-K-executions evidence, not a proof; reach comes from state-aware generation, amount classes and multi-message transactions."),
 "C02": ("exploration", "chain harness + ghost ledger of issued amounts compared every step", "§2 C02",
         "Ghost ledger fed only from accepted CreateBatch/MintBatchCredits/BridgeReceive contents (or the genesis document) compared with tradable+retired+cancelled after every step; sealing monotone; mint after seal flagged."),
 "C03": ("exploration", "chain harness + pre/post frame condition over all non-signers (credits, coins, module accounts) around every tx and block", "§2 C03",
         "Frame condition over every account that did not sign, every batch and bank denom, with the exact fill exception and fee-pool exception; failed transactions must leave raw KV identical."),
 "C04": ("exploration", "chain harness + monotonicity monitor between consecutive snapshots", "§2 C04",
         "Retired balances, retired supply and cancelled supply compared with the previous snapshot after every step including failed transactions; coverage counts rewrites of rows with a non-zero retired column per handler."),
 "C05": ("exploration", "chain harness (real bank) + exact backing equation, Put/Take delta oracle and chain's own basket invariant every step", "§2 C05",
         "bank.GetSupply(basket denom) == Σ basket credits × 10^precision exactly after every step; exact mint/burn/release deltas around each Put/Take; registered basket-supply invariant evaluated on the same state."),
 "C06": ("exploration", "chain harness + escrow==Σ open orders scan every step, allowed-denom gate on the pre-state", "§2 C06",
         "Full scan of SellOrder/Market/BatchBalance after every step; allowed-denom membership evaluated on the pre-state of every successful Sell/UpdateSellOrders."),
 "C07": ("exploration", "chain harness (real bank) + exact-rational settlement reference around every successful BuyDirect", "§2 C07",
         "Reference model computed with big.Rat from the pre-state order, fee params and request: credits, guards, per-party coin deltas within one base unit per fill, exact coin conservation, frame on all other rows and balances."),
 "C08": ("exploration", "chain harness + role predicate table on the pre-state and write-set containment of the row-level diff", "§2 C08",
         "Every accepted role-gated message must satisfy its documented role predicate in the pre-state and may only change its declared write set; sealed batches checked every step; role churn workload with former holders retrying."),
 "C09": ("exploration", "export → ValidateGenesis → import into fresh chain → re-export equality, chained, with monitors continuing on the imported chain", "§3 C09",
         "Round trip at quiescent points of hostile histories through the modules' own genesis entry points; imported chains are run further under the C01/C02/C05/C06/C13/C14 monitors."),
 "C10": ("fault_enumeration", "separate-process replays with rebuilds and SIGKILL, -race replicas over shared keepers, gas-exhaustion abort at every consumption point, erasure twin", "§3 C10",
         "Same trace executed in >=10 OS processes (plain, rebuild at every/PRNG-chosen block boundaries, SIGKILL after commit and mid-block, skewed TZ) must give byte-identical hashes/results/events/gas; K replicas sharing keeper objects run concurrently under the Go race detector with concurrent queries; every gas consumption point of sampled successful transactions of every message type is turned into an abort and must leave raw KV identical; a twin chain that never sees failed transactions must produce the same app hashes."),
 "C11": ("exploration", "chain harness + admission reference (sound and complete) and take-order reference", "§2 C11",
         "Independent time-arithmetic evaluation of each date criterion kind on the pre-state; completeness asserted in the ordinary stratum; Take checked for oldest-first, drain-before-next and auto-retire delivery."),
 "C12": ("exploration", "chain harness + prune reference around every BeginBlock under recover(), boundary block times", "§2 C12",
         "Removed orders must be exactly those with expiration <= block time, refunds exact per (seller,batch), everything else byte-identical, no panic; block times aimed at expirations exactly and ±1 ns."),
 "C13": ("exploration", "chain harness + ghost set of consumed origin transactions and contract binding map", "§2 C13",
         "Exactly-once over (class, origin id, source) across the three issuing messages; allowed-chain membership on the pre-state; contract→batch binding; bridge-out cancels exactly and reports the bound contract."),
 "C14": ("exploration", "chain harness + ghost sequence counters, format/parse agreement and full foreign-key scan every step", "§2 C14",
         "Returned ids compared with the documented format applied to ghost counters advanced only by successful creations; every id checked against the documented regex and the chain's validators and parsers; every foreign key resolved after every step."),
 "C15": ("exploration", "round-trip / injectivity / canonical re-encoding monitor over generated hashes with siblings and mutated strings", "§4 C15",
         "Pure calls of ToIRI/ParseIRI/Validate on generated content hashes and their near neighbours plus mutated IRI strings, injectivity map over all IRIs seen."),
 "C16": ("exploration", "chain harness with injected weak ID hashers + ghost of first-seen ids/timestamps, 1-1 scan every step", "§4 C16",
         "Production hasher and nine weak hashers (1..16 outputs, repeating bytes, immediate varint fallback) through the verif-tagged constructor; five data tables scanned against the ghost after every step."),
 "C17": ("exploration", "every query × filter value vs brute-force filter of full table scans; page walks key/offset × forward/reverse", "§3 C17",
         "At quiescent points of creation-heavy histories with prefix-related ids, every list and single-entity query of the four services is compared with a brute-force filter over the snapshot; page walks must be complete and duplicate-free."),
 "C18": ("exploration", "enumerated configuration grid × canonical operations must succeed; exact fee-delta oracle around creations", "§3 C18",
         "Every configuration of the listed grid is offered to the chain (governance message or genesis); for each accepted one the canonical operations whose preconditions hold by construction must succeed; exact fee debit/burn oracle; settlement oracle on purchases."),
 "C19": ("exploration", "pool-based differential monitor against math/big.Rat with deep operand shadows", "§4 C19",
         "Every Dec operation compared with an independent big.Rat reference; every pool member shadow-compared after every operation to catch mutation and aliasing."),
 "C20": ("exploration", "real intertx MsgServer in a BaseApp with recording fakes of the ICA controller and capability keepers", "§5 C20",
         "Encoded transactions through the real codec; every argument of SendTx/RegisterInterchainAccount recorded and compared with a reference derived from the submitted message and signer; all availability combinations."),
}

NOTE = ("Trusted base: the harness wiring in /verif/harness/chain (real BaseApp, IAVL, x/auth, x/bank, ecocredit and data AppModules, SetUpContext ante only; "
        "signer = address in the signer field), the observation layer reading through harness-owned ORM handles, math/big. Bounds: precision 6, <=8 actors, "
        "state sizes of DESIGN.md §1.3. A finite set of executions is observed; evidence lists what was seen.")

def main():
    checks = []
    for pid in sorted(CHECKS):
        level, tech, ref, text = CHECKS[pid]
        checks.append({
            "property_id": pid,
            "quick_cmd": f"./check {pid} quick",
            "thorough_cmd": f"./check {pid} thorough",
            "evidence_file": f"/verif/evidence/{pid}.json",
            "replay_cmd_template": f"./check replay {pid} {{path}}",
            "engine": "intertx-harness" if pid == "C20" else ("pure-monitors" if pid in ("C15", "C19") else "chain-harness"),
            "level_claimed": {"category": level, "text": text, "design_ref": "DESIGN.md " + ref},
            "level_note": NOTE,
            "technique": "runtime monitoring: " + tech,
        })
    m = {
        "version": 1,
        "setup_cmd": "./setup.sh",
        "hooks": {
            "guard": "verif",
            "enable": "go build -tags verif in /verif/harness (go.mod replace directives point at /repo/api, /repo/types, /repo/x/ecocredit, /repo/x/data; /verif/harness-intertx at /repo/x/intertx)",
            "baseline_off_cmd": "/verif/baseline_off.sh",
            "source_commits": HOOK_COMMITS,
            "add_only": True,
        },
        "engines": [
            {"name": "chain-harness", "path": "/verif/harness", "serves_properties": [p for p in sorted(CHECKS) if p not in ("C15", "C19", "C20")],
             "kind_free_text": "real BaseApp+IAVL+bank+ecocredit+data driven through ABCI by a seeded hostile generator; online monitors over snapshots; child processes for C10"},
            {"name": "pure-monitors", "path": "/verif/harness/pure", "serves_properties": ["C15", "C19"], "kind_free_text": "differential / round-trip monitors over pure library calls"},
            {"name": "intertx-harness", "path": "/verif/harness-intertx", "serves_properties": ["C20"], "kind_free_text": "BaseApp with real intertx MsgServer and recording fakes"},
        ],
        "checks": checks,
        "not_applicable": [],
        "notes": "All 20 properties are decided by runtime monitoring. Exit codes: 0 held on everything explored (KNOWN-FINDING lines allowed), 1 VIOLATION, 2 INCONCLUSIVE (coverage floor, watchdog, build failure). Known findings: /verif/known_findings.json. VERIF_SEED selects the PRNG seed.",
    }
    json.dump(m, open("/verif/MANIFEST.json", "w"), indent=1)

if __name__ == "__main__":
    main()
