#!/bin/bash
# usage: tools/sweep.sh <tier> <seed>...   runs every check at the given seeds, prints one line per run
tier=$1; shift
cd "$(dirname "$0")/.." || exit 1
./setup.sh >/dev/null 2>&1
for seed in "$@"; do
  for p in C01 C02 C03 C04 C05 C06 C07 C08 C09 C10 C11 C12 C13 C14 C15 C16 C17 C18 C19 C20; do
    start=$(date +%s)
    out=$(VERIF_SEED=$seed ./check $p $tier 2>&1); rc=$?
    end=$(date +%s)
    nv=$(echo "$out" | grep -c '^VIOLATION')
    nk=$(echo "$out" | grep -c '^KNOWN-FINDING')
    echo "seed=$seed $p rc=$rc violations=$nv known=$nk wall=$((end-start))s"
    if [ $rc -ne 0 ]; then echo "$out" | grep -v '^VIOLATION' | cut -c1-600 | head -12 | sed 's/^/    /'; fi
  done
done
